//! C18: time zones compiled into the harness by jiff's static macros: `tz::get!` (from the bundled
//! database), `tz::include!` of system zoneinfo files and of the synthetic zones (slim and fat) kept
//! in /verif/zones/static, which `zic` produced from /verif/zones/verif.zi.

use crate::tzcorpus::ZoneSrc;
use jiff::tz::TimeZone;

pub fn statics() -> Vec<(&'static str, &'static str, TimeZone)> {
    vec![
        ("bundled", "America/New_York", jiff::tz::get!("America/New_York").clone()),
        ("system", "America/New_York", jiff::tz::include!("/usr/share/zoneinfo/America/New_York").clone()),
        ("bundled", "Europe/London", jiff::tz::get!("Europe/London").clone()),
        ("system", "Europe/London", jiff::tz::include!("/usr/share/zoneinfo/Europe/London").clone()),
        ("bundled", "Australia/Lord_Howe", jiff::tz::get!("Australia/Lord_Howe").clone()),
        ("system", "Australia/Lord_Howe", jiff::tz::include!("/usr/share/zoneinfo/Australia/Lord_Howe").clone()),
        ("bundled", "Africa/Monrovia", jiff::tz::get!("Africa/Monrovia").clone()),
        ("system", "Africa/Monrovia", jiff::tz::include!("/usr/share/zoneinfo/Africa/Monrovia").clone()),
        ("bundled", "Asia/Kathmandu", jiff::tz::get!("Asia/Kathmandu").clone()),
        ("system", "Asia/Kathmandu", jiff::tz::include!("/usr/share/zoneinfo/Asia/Kathmandu").clone()),
        ("bundled", "Pacific/Apia", jiff::tz::get!("Pacific/Apia").clone()),
        ("system", "Pacific/Apia", jiff::tz::include!("/usr/share/zoneinfo/Pacific/Apia").clone()),
        ("bundled", "America/St_Johns", jiff::tz::get!("America/St_Johns").clone()),
        ("system", "America/St_Johns", jiff::tz::include!("/usr/share/zoneinfo/America/St_Johns").clone()),
        ("bundled", "Europe/Dublin", jiff::tz::get!("Europe/Dublin").clone()),
        ("system", "Europe/Dublin", jiff::tz::include!("/usr/share/zoneinfo/Europe/Dublin").clone()),
        ("bundled", "Africa/Casablanca", jiff::tz::get!("Africa/Casablanca").clone()),
        ("system", "Africa/Casablanca", jiff::tz::include!("/usr/share/zoneinfo/Africa/Casablanca").clone()),
        ("bundled", "Antarctica/Troll", jiff::tz::get!("Antarctica/Troll").clone()),
        ("system", "Antarctica/Troll", jiff::tz::include!("/usr/share/zoneinfo/Antarctica/Troll").clone()),
        ("bundled", "Asia/Tehran", jiff::tz::get!("Asia/Tehran").clone()),
        ("system", "Asia/Tehran", jiff::tz::include!("/usr/share/zoneinfo/Asia/Tehran").clone()),
        ("bundled", "Pacific/Kiritimati", jiff::tz::get!("Pacific/Kiritimati").clone()),
        ("system", "Pacific/Kiritimati", jiff::tz::include!("/usr/share/zoneinfo/Pacific/Kiritimati").clone()),
        ("synthetic-slim", "V/SubMinute", jiff::tz::include!("../zones/static/slim/zoneinfo/V/SubMinute").clone()),
        ("synthetic-slim", "V/NegDst", jiff::tz::include!("../zones/static/slim/zoneinfo/V/NegDst").clone()),
        ("synthetic-slim", "V/Abolished", jiff::tz::include!("../zones/static/slim/zoneinfo/V/Abolished").clone()),
        ("synthetic-slim", "V/LateRule", jiff::tz::include!("../zones/static/slim/zoneinfo/V/LateRule").clone()),
        ("synthetic-slim", "V/NegTime", jiff::tz::include!("../zones/static/slim/zoneinfo/V/NegTime").clone()),
        ("synthetic-slim", "V/ManyPerYear", jiff::tz::include!("../zones/static/slim/zoneinfo/V/ManyPerYear").clone()),
        ("synthetic-slim", "V/TypeOnly", jiff::tz::include!("../zones/static/slim/zoneinfo/V/TypeOnly").clone()),
        ("synthetic-slim", "V/DateLine", jiff::tz::include!("../zones/static/slim/zoneinfo/V/DateLine").clone()),
        ("synthetic-slim", "V/HalfHourDst", jiff::tz::include!("../zones/static/slim/zoneinfo/V/HalfHourDst").clone()),
        ("synthetic-slim", "V/FarFuture", jiff::tz::include!("../zones/static/slim/zoneinfo/V/FarFuture").clone()),
        ("synthetic-slim", "V/PreEpochOnly", jiff::tz::include!("../zones/static/slim/zoneinfo/V/PreEpochOnly").clone()),
        ("synthetic-slim", "V/South", jiff::tz::include!("../zones/static/slim/zoneinfo/V/South").clone()),
        ("synthetic-slim", "V/Fixed", jiff::tz::include!("../zones/static/slim/zoneinfo/V/Fixed").clone()),
        ("synthetic-slim", "V/Big", jiff::tz::include!("../zones/static/slim/zoneinfo/V/Big").clone()),
        ("synthetic-slim", "V/AbbrevHistory", jiff::tz::include!("../zones/static/slim/zoneinfo/V/AbbrevHistory").clone()),
        ("synthetic-slim", "V/AbbrevStd", jiff::tz::include!("../zones/static/slim/zoneinfo/V/AbbrevStd").clone()),
        ("synthetic-fat", "V/SubMinute", jiff::tz::include!("../zones/static/fat/zoneinfo/V/SubMinute").clone()),
        ("synthetic-fat", "V/NegDst", jiff::tz::include!("../zones/static/fat/zoneinfo/V/NegDst").clone()),
        ("synthetic-fat", "V/Abolished", jiff::tz::include!("../zones/static/fat/zoneinfo/V/Abolished").clone()),
        ("synthetic-fat", "V/LateRule", jiff::tz::include!("../zones/static/fat/zoneinfo/V/LateRule").clone()),
        ("synthetic-fat", "V/NegTime", jiff::tz::include!("../zones/static/fat/zoneinfo/V/NegTime").clone()),
        ("synthetic-fat", "V/ManyPerYear", jiff::tz::include!("../zones/static/fat/zoneinfo/V/ManyPerYear").clone()),
        ("synthetic-fat", "V/TypeOnly", jiff::tz::include!("../zones/static/fat/zoneinfo/V/TypeOnly").clone()),
        ("synthetic-fat", "V/DateLine", jiff::tz::include!("../zones/static/fat/zoneinfo/V/DateLine").clone()),
        ("synthetic-fat", "V/HalfHourDst", jiff::tz::include!("../zones/static/fat/zoneinfo/V/HalfHourDst").clone()),
        ("synthetic-fat", "V/FarFuture", jiff::tz::include!("../zones/static/fat/zoneinfo/V/FarFuture").clone()),
        ("synthetic-fat", "V/PreEpochOnly", jiff::tz::include!("../zones/static/fat/zoneinfo/V/PreEpochOnly").clone()),
        ("synthetic-fat", "V/South", jiff::tz::include!("../zones/static/fat/zoneinfo/V/South").clone()),
        ("synthetic-fat", "V/Fixed", jiff::tz::include!("../zones/static/fat/zoneinfo/V/Fixed").clone()),
        ("synthetic-fat", "V/Big", jiff::tz::include!("../zones/static/fat/zoneinfo/V/Big").clone()),
        ("synthetic-fat", "V/AbbrevHistory", jiff::tz::include!("../zones/static/fat/zoneinfo/V/AbbrevHistory").clone()),
        ("synthetic-fat", "V/AbbrevStd", jiff::tz::include!("../zones/static/fat/zoneinfo/V/AbbrevStd").clone()),
    ]
}

/// The bytes the macros read, for the independent reader.
pub fn sources() -> Vec<ZoneSrc> {
    let mut v = Vec::new();
    let root = concat!(env!("CARGO_MANIFEST_DIR"), "/../zones/static");
    for (class, name, _) in statics() {
        let bytes = match class {
            "bundled" => jiff_tzdb::get(name).map(|x| x.1.to_vec()),
            "system" => std::fs::read(format!("/usr/share/zoneinfo/{name}")).ok(),
            "synthetic-slim" => std::fs::read(format!("{root}/slim/zoneinfo/{name}")).ok(),
            _ => std::fs::read(format!("{root}/fat/zoneinfo/{name}")).ok(),
        };
        if let Some(bytes) = bytes {
            v.push(ZoneSrc { name: name.to_string(), class: class.to_string(), bytes });
        }
    }
    v
}
