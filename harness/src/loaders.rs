//! C18: the ways of turning TZif data into a `TimeZone`.  The tz drivers
//! (c03 / c04 / c14) load every zone of their corpus through the selected
//! loader; the independent reader always reads the same bytes, so the trace
//! spec holds every loader to the same abstract zone.
//!
//!   bytes    TimeZone::tzif(name, bytes)                       (default)
//!   dir      TimeZoneDatabase::from_dir on a directory written from the bytes
//!   concat   TimeZoneDatabase::from_concatenated_path on an Android-style file
//!            assembled from the bytes
//!   bundled  TimeZoneDatabase::bundled()   (zones of class "bundled" only)
//!   static   the zones compiled in by tz::get! / tz::include! (statz.rs)
//!   posix-print  POSIX strings only: parse, print (Display), parse the printed text

use crate::common::*;
use crate::tzcorpus::ZoneSrc;
use jiff::tz::{TimeZone, TimeZoneDatabase};
use std::collections::HashMap;
use std::path::PathBuf;
use std::sync::Mutex;

pub struct Loaders {
    pub mode: String,
    dbs: HashMap<String, TimeZoneDatabase>,
    /// every name each database serves (not only the zones the drivers probe)
    names: HashMap<String, Vec<String>>,
    asked: std::collections::HashSet<String>,
}

static STATE: Mutex<Option<Loaders>> = Mutex::new(None);

pub fn mode() -> String {
    STATE.lock().unwrap().as_ref().map(|l| l.mode.clone()).unwrap_or_else(|| "bytes".into())
}

/// Android's concatenated tzdata: 24-byte header, 52-byte index entries, data.
pub fn build_concatenated(zones: &[&ZoneSrc]) -> Vec<u8> {
    let mut sorted: Vec<&&ZoneSrc> = zones.iter().collect();
    sorted.sort_by(|a, b| a.name.cmp(&b.name));
    let index_off = 24u32;
    let data_off = index_off + 52 * sorted.len() as u32;
    let mut out = Vec::new();
    out.extend_from_slice(b"tzdata2024a\0");
    out.extend_from_slice(&index_off.to_be_bytes());
    out.extend_from_slice(&data_off.to_be_bytes());
    let total: usize = sorted.iter().map(|z| z.bytes.len()).sum();
    out.extend_from_slice(&(data_off + total as u32).to_be_bytes());
    let mut start = 0u32;
    for z in &sorted {
        let mut name = [0u8; 40];
        name[..z.name.len()].copy_from_slice(z.name.as_bytes());
        out.extend_from_slice(&name);
        out.extend_from_slice(&start.to_be_bytes());
        out.extend_from_slice(&(z.bytes.len() as u32).to_be_bytes());
        out.extend_from_slice(&0u32.to_be_bytes());
        start += z.bytes.len() as u32;
    }
    for z in &sorted {
        out.extend_from_slice(&z.bytes);
    }
    out
}

/// Restrict the corpus to what the loader can serve and prepare its databases.
pub fn init(a: &Args, zones: &mut Vec<ZoneSrc>) {
    let mode = a.opt("loader").unwrap_or_else(|| "bytes".into());
    let mut dbs = HashMap::new();
    let mut names: HashMap<String, Vec<String>> = HashMap::new();
    match mode.as_str() {
        "bytes" => {}
        "posix-print" => zones.retain(|z| z.class == "posix-string"),
        "bundled" => {
            zones.retain(|z| z.class == "bundled");
            dbs.insert("bundled".to_string(), TimeZoneDatabase::bundled());
            names.insert("bundled".to_string(), jiff_tzdb::available().map(|n| jiff_tzdb::get(n).map(|x| x.0.to_string()).unwrap_or_default()).collect());
        }
        "static" => {
            let have: Vec<(String, String)> = crate::statz::statics().iter().map(|(c, n, _)| (c.to_string(), n.to_string())).collect();
            *zones = crate::statz::sources().into_iter().filter(|z| have.contains(&(z.class.clone(), z.name.clone()))).collect();
        }
        "dir" | "concat" => {
            zones.retain(|z| z.class != "posix-string" && z.class != "right" && z.name.len() <= 40 && !z.name.contains(".."));
            let mut classes: Vec<String> = zones.iter().map(|z| z.class.clone()).collect();
            classes.sort();
            classes.dedup();
            for c in classes {
                // the database holds every zone of the class (all names, links included), so that
                // name lookups meet the whole index; the drivers probe the corpus only
                let full: Vec<ZoneSrc> = match c.as_str() {
                    "bundled" => crate::tzcorpus::bundled(),
                    "system" => crate::tzcorpus::system(),
                    _ => zones.iter().filter(|z| z.class == c).map(|z| ZoneSrc { name: z.name.clone(), class: z.class.clone(), bytes: z.bytes.clone() }).collect(),
                };
                let full: Vec<ZoneSrc> = full.into_iter().filter(|z| z.name.len() <= 40 && !z.name.contains("..")).collect();
                let zs: Vec<&ZoneSrc> = full.iter().collect();
                names.insert(c.clone(), full.iter().map(|z| z.name.clone()).collect());
                if mode == "dir" {
                    let root: PathBuf = a.out.join("zdir").join(&c);
                    let _ = std::fs::remove_dir_all(&root);
                    for z in &zs {
                        let p = root.join(&z.name);
                        std::fs::create_dir_all(p.parent().unwrap()).unwrap();
                        std::fs::write(&p, &z.bytes).unwrap();
                    }
                    dbs.insert(c.clone(), TimeZoneDatabase::from_dir(&root).expect("from_dir"));
                } else {
                    let p = a.out.join(format!("concat-{c}.tzdata"));
                    std::fs::write(&p, build_concatenated(&zs)).unwrap();
                    dbs.insert(c.clone(), TimeZoneDatabase::from_concatenated_path(&p).expect("from_concatenated_path"));
                }
            }
        }
        other => panic!("unknown loader {other}"),
    }
    *STATE.lock().unwrap() = Some(Loaders { mode, dbs, names, asked: Default::default() });
}

pub fn load(z: &ZoneSrc) -> Result<TimeZone, String> {
    let guard_state = STATE.lock().unwrap();
    let mode = guard_state.as_ref().map(|l| l.mode.as_str()).unwrap_or("bytes");
    let r = guard(|| -> Result<TimeZone, jiff::Error> {
        if z.class == "posix-string" {
            let s = std::str::from_utf8(&z.bytes).unwrap();
            if mode == "posix-print" {
                // the jiff-static copy of the shared POSIX TZ code has the Display implementation
                return match crate::shared::PosixTimeZone::parse(s.as_bytes()) {
                    Ok(parsed) => TimeZone::posix(&parsed.to_string()),
                    // not accepted by the copy: let jiff's own parser produce the error
                    Err(_) => TimeZone::posix(s).and_then(|_| TimeZone::posix("the jiff-static copy refused what jiff accepts")),
                };
            }
            return TimeZone::posix(s);
        }
        match mode {
            "dir" | "concat" | "bundled" => {
                let db = guard_state.as_ref().unwrap().dbs.get(if mode == "bundled" { "bundled" } else { z.class.as_str() }).unwrap();
                db.get(&z.name)
            }
            "static" => Ok(crate::statz::statics().into_iter().find(|(c, n, _)| *c == z.class && *n == z.name).map(|x| x.2).unwrap()),
            _ => TimeZone::tzif(&z.name, &z.bytes),
        }
    });
    match r {
        Ok(Ok(tz)) => Ok(tz),
        Ok(Err(e)) => Err(format!("err: {e}")),
        Err(p) => Err(format!("panic: {p}")),
    }
}

/// Name lookups through the selected database: every case variant must find
/// the zone and report the canonical spelling.
pub fn lookups(z: &ZoneSrc) -> Vec<serde_json::Value> {
    let mut st = STATE.lock().unwrap();
    let Some(l) = st.as_mut() else { return vec![] };
    let key = if l.mode == "bundled" { "bundled".to_string() } else { z.class.clone() };
    if !l.asked.insert(key.clone()) {
        return vec![];
    }
    let Some(db) = l.dbs.get(&key) else { return vec![] };
    let mut out = Vec::new();
    let listed: Vec<String> = guard(|| db.available().map(|n| n.as_str().to_string()).collect()).unwrap_or_default();
    for name in l.names.get(&key).cloned().unwrap_or_default() {
        let canon = match guard(|| db.get(&name)) {
            Ok(Ok(tz)) => tz,
            other => {
                out.push(serde_json::json!({"op":"lookup","cls":"name-exact","loader":l.mode,"asked":crate::text::codes(&name),"want":crate::text::codes(&name),
                                            "st": if other.is_err() {"panic"} else {"err"},"got":[],"same":0,"s":name}));
                continue;
            }
        };
        let variants = [
            name.to_ascii_uppercase(),
            name.to_ascii_lowercase(),
            name.chars().enumerate().map(|(i, c)| if i % 2 == 0 { c.to_ascii_uppercase() } else { c.to_ascii_lowercase() }).collect::<String>(),
        ];
        for v in variants {
            let r = guard(|| db.get(&v));
            let (st, got, same) = match &r {
                // the same zone by behaviour (Eq on TimeZone also tells apart how a zone is stored:
                // "UTC" is answered with the built-in UTC zone, "utc" with the file of that name)
                Ok(Ok(tz)) => ("ok", tz.iana_name().unwrap_or("").to_string(), same_answers(tz, &canon)),
                Ok(Err(_)) => ("err", String::new(), false),
                Err(_) => ("panic", String::new(), false),
            };
            out.push(serde_json::json!({"op":"lookup","cls":"name-case","loader":l.mode,"asked":crate::text::codes(&v),"want":crate::text::codes(&name),
                                        "st":st,"got":crate::text::codes(&got),"same": if same {1} else {0},"s":v}));
        }
        // the database lists the zone under its canonical spelling
        let is_listed = listed.iter().any(|n| *n == name);
        out.push(serde_json::json!({"op":"lookup","cls":"available","loader":l.mode,"asked":crate::text::codes(&name),"want":crate::text::codes(&name),
                                    "st": if is_listed {"ok"} else {"err"},"got":crate::text::codes(&name),"same":1,"s":name}));
    }
    out
}

fn same_answers(a: &TimeZone, b: &TimeZone) -> bool {
    [-5_000_000_000i64, -2_000_000_000, -1_000_000_000, 0, 500_000_000, 1_000_000_000, 1_720_000_000, 1_735_000_000, 2_000_000_000, 4_000_000_000, 40_000_000_000]
        .iter()
        .all(|&s| {
            let t = jiff::Timestamp::from_second(s).unwrap();
            let (x, y) = (a.to_offset_info(t), b.to_offset_info(t));
            (x.offset(), x.dst(), x.abbreviation().to_string()) == (y.offset(), y.dst(), y.abbreviation().to_string())
        })
}
