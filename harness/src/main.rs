//! jv: conformance harness between jiff (the working tree at /repo) and the
//! TLA+ specification suite in /verif/spec.  Each sub-command drives the
//! public API and writes NDJSON events that a Trace_*.tla spec validates,
//! or replays TLC-generated behaviours against the real code.

extern crate alloc;

// The generated copy of jiff's shared code that jiff-static compiles into
// the proc macros.  Mounted here so its calendar and TZif routines can be
// exercised directly (C01, C18): drift between the two copies is a defect.
#[allow(dead_code, unused_imports, unused_macros, unused_variables)]
#[path = "/repo/crates/jiff-static/src/shared/mod.rs"]
mod shared;

mod common;
mod fuzz;
mod lim;
mod loaders;
mod statz;
mod strt;
mod dur;
mod c01;
mod c02;
mod c19;
mod c20;
mod civ;
mod text;
mod tzcorpus;
mod tzd;
mod tzread;
mod val;
mod zd;

use common::Args;

#[global_allocator]
static ALLOC: c20::Tracking = c20::Tracking;
use std::path::PathBuf;

fn main() {
    let mut argv: Vec<String> = std::env::args().skip(1).collect();
    if argv.is_empty() {
        eprintln!("usage: jv <driver> --out DIR [--tier quick|thorough] [--seed N] ...");
        std::process::exit(2);
    }
    let driver = argv.remove(0);
    let mut a = Args {
        tier: std::env::var("VERIF_TIER").unwrap_or_else(|_| "quick".into()),
        seed: std::env::var("VERIF_SEED").ok().and_then(|s| s.parse().ok()).unwrap_or(0),
        out: PathBuf::from("."),
        rest: Vec::new(),
    };
    let mut it = argv.into_iter();
    while let Some(x) = it.next() {
        match x.as_str() {
            "--tier" => a.tier = it.next().unwrap(),
            "--seed" => a.seed = it.next().unwrap().parse().unwrap(),
            "--out" => a.out = PathBuf::from(it.next().unwrap()),
            _ => a.rest.push(x),
        }
    }
    common::silence_panics();
    let r = std::panic::catch_unwind(std::panic::AssertUnwindSafe(|| dispatch(&driver, &a)));
    if r.is_err() {
        eprintln!("harness panic: {}", common::LAST_PANIC.lock().map(|g| g.clone()).unwrap_or_default());
        std::process::exit(3);
    }
}

fn dispatch(driver: &str, a: &Args) {
    let a = a.clone();
    match driver {
        "c01" => c01::run(&a),
        "c02" => c02::run(&a),
        "c03" => tzd::run_c03(&a),
        "c07" => civ::run_c07(&a),
        "c09" => text::run_c09(&a),
        "c12" => val::run(&a),
        "c15" => dur::run(&a),
        "c16" => strt::run(&a),
        "probe" => strt::probe(&a),
        "zoneevents" => strt::zoneevents(&a),
        "probeiter" => strt::probeiter(&a),
        "probetzif" => strt::probetzif(&a),
        "probetz" => strt::probetz(&a),
        "c17" => fuzz::run(&a),
        "c05" => lim::run(&a),
        "c19replay" => c19::run_replay(&a),
        "c20" => c20::run(&a),
        "c20fixed" => c20::run_fixed(&a),
        "c20race" => c20::run_race(&a),
        "c19stress" => c19::run_stress(&a),
        "c06" | "c07z" | "c09z" | "c10z" | "c11" | "c13" => zd::run_zoned(&a, driver),
        "c08" => civ::run_c08(&a),
        "c10" => civ::run_c10(&a),
        "c04" => tzd::run_c04(&a),
        "c14" => tzd::run_c14(&a),
        _ => {
            eprintln!("unknown driver {driver}");
            std::process::exit(2);
        }
    }
}
