//! C01 driver: every calendar fact the public API reports about a date,
//! plus the same facts from the generated copy of the shared code that
//! jiff-static compiles (crates/jiff-static/src/shared).

use crate::common::*;
use jiff::civil::{Date, ISOWeekDate};
use jiff::{ToSpan, Unit};
use serde_json::{json, Value};

const BOUNDARY_YEARS: &[i16] = &[
    -9999, -9998, -401, -400, -101, -100, -5, -4, -1, 0, 1, 4, 100, 400, 1582, 1600, 1899, 1900,
    1969, 1970, 1972, 2000, 2024, 2038, 2100, 9998, 9999,
];

fn epoch() -> Date {
    Date::constant(1970, 1, 1)
}

fn date_event(y: i16, m: i8, d: i8, cls: &str) -> Value {
    let r = guard(|| Date::new(y, m, d));
    let date = match r {
        Ok(Ok(date)) => date,
        Ok(Err(_)) => return json!({"op":"date","cls":cls,"y":y,"m":m,"d":d,"st":"err"}),
        Err(p) => return json!({"op":"date","cls":cls,"y":y,"m":m,"d":d,"st":"panic","msg":p}),
    };
    let facts = guard(|| {
        let iso = date.iso_week_date();
        let back = iso.date();
        // day count three independent ways through the public API
        let eday = epoch().until((Unit::Day, date)).map(|s| s.get_days() as i64);
        let dur = date.duration_since(epoch());
        let ts = date
            .to_zoned(jiff::tz::TimeZone::UTC)
            .map(|z| z.timestamp().as_second());
        let fromday = eday
            .as_ref()
            .ok()
            .and_then(|n| epoch().checked_add((*n).days()).ok());
        json!({
            "getters": [date.year(), date.month(), date.day()],
            "wd": wd_num(date.weekday()),
            "doy": date.day_of_year(),
            "doynl": date.day_of_year_no_leap().unwrap_or(0),
            "dim": date.days_in_month(),
            "diy": date.days_in_year(),
            "leap": date.in_leap_year(),
            "tom": jres_date(Ok(date.tomorrow())),
            "yes": jres_date(Ok(date.yesterday())),
            "fom": jdate(date.first_of_month()),
            "lom": jdate(date.last_of_month()),
            "foy": jdate(date.first_of_year()),
            "loy": jdate(date.last_of_year()),
            "iso": [iso.year(), iso.week(), wd_num(iso.weekday())],
            "isoback": jdate(back),
            "eday": eday.unwrap_or(i64::MIN / 4).clamp(-99_999_999, 99_999_999),
            "durh": (dur.as_hours()).clamp(-999_999_999, 999_999_999),
            "durrem": (dur.as_nanos() % 3_600_000_000_000i128) as i64 / 1_000_000_000,
            "tsday": ts.as_ref().map(|s| s.div_euclid(86400)).unwrap_or(99_999_999),
            "tsrem": ts.as_ref().map(|s| s.rem_euclid(86400)).unwrap_or(-1),
            "fromday": fromday.map(jdate).unwrap_or(json!([])),
        })
    });
    match facts {
        Ok(mut f) => {
            let o = f.as_object_mut().unwrap();
            o.insert("op".into(), json!("date"));
            o.insert("cls".into(), json!(cls));
            o.insert("y".into(), json!(y));
            o.insert("m".into(), json!(m));
            o.insert("d".into(), json!(d));
            o.insert("st".into(), json!("ok"));
            f
        }
        Err(p) => json!({"op":"date","cls":cls,"y":y,"m":m,"d":d,"st":"panic","msg":p}),
    }
}

fn month_event(y: i16, m: i8, cls: &str) -> Value {
    let date = Date::new(y, m, 1).unwrap();
    // rows: nth = -5..-1, 1..5 ; columns weekday 1..7 ; value day or 0 (Err) or -1 (panic)
    let mut rows = Vec::new();
    for nth in (-5i8..=-1).chain(1..=5) {
        let mut row = Vec::new();
        for wd in 1..=7 {
            let r = guard(|| date.nth_weekday_of_month(nth, wd_from(wd)));
            row.push(match r {
                Ok(Ok(d)) => {
                    if d.year() == y && d.month() == m {
                        d.day() as i64
                    } else {
                        -2
                    }
                }
                Ok(Err(_)) => 0,
                Err(_) => -1,
            });
        }
        rows.push(row);
    }
    // out-of-domain nth values must be errors
    let mut bad = Vec::new();
    for nth in [0i8, 6, -6, 127, -128] {
        let r = guard(|| date.nth_weekday_of_month(nth, wd_from(3)));
        bad.push(status(&r));
    }
    json!({"op":"nthwom","cls":cls,"y":y,"m":m,"res":rows,"bad":bad})
}

fn nthwd_event(date: Date, nth: i32, wd: i64, cls: &str) -> Value {
    let r = guard(|| date.nth_weekday(nth, wd_from(wd)));
    let st = status(&r);
    // nth can be huge; send it as |nth| clamped weeks via limbs-free split
    json!({"op":"nthwd","cls":cls,"y":date.year(),"m":date.month(),"d":date.day(),
           "nth":nth as i64,"wd":wd,"st":st,"res":jres_date(r)})
}

fn iso_event(iy: i16, w: i8, wd: i64, cls: &str) -> Value {
    let r = guard(|| ISOWeekDate::new(iy, w, wd_from(wd)));
    let st = status(&r);
    let date = match &r {
        Ok(Ok(iso)) => jdate(iso.date()),
        _ => json!([]),
    };
    json!({"op":"isonew","cls":cls,"iy":iy,"w":w,"wd":wd,"st":st,"date":date})
}

// --- the generated copy used by jiff-static -------------------------------
// (mounted at the crate root in main.rs as `crate::shared`)
use crate::shared::util::itime::{self as sit, IDate, IWeekday};

fn static_event(y: i16, m: i8, d: i8, cls: &str) -> Value {
    // IDate::try_new is an internal constructor: it validates the day only
    // (year and month are range-checked by its callers), so only day
    // validity is probed here.
    if !(-9999..=9999).contains(&y) || !(1..=12).contains(&m) || !(1..=31).contains(&d) {
        return Value::Null;
    }
    let r = guard(|| {
        let id = match IDate::try_new(y, m, d) {
            Ok(id) => id,
            Err(_) => return json!({"st":"err"}),
        };
        let n = id.to_epoch_day();
        let back = n.to_date();
        let tom = id.tomorrow().map(|t| json!([t.year, t.month, t.day])).unwrap_or(json!([]));
        let yes = id.yesterday().map(|t| json!([t.year, t.month, t.day])).unwrap_or(json!([]));
        let mut nth = Vec::new();
        for k in [1i8, 2, 3, 4, 5, -1, -2, -3, -4, -5] {
            let wd = IWeekday::from_monday_one_offset(((k.unsigned_abs() + d as u8) % 7 + 1) as i8);
            let v = id
                .nth_weekday_of_month(k, wd)
                .map(|t| if t.year == y && t.month == m { t.day as i64 } else { -2 })
                .unwrap_or(0);
            nth.push(json!([k, wd.to_monday_one_offset(), v]));
        }
        json!({"st":"ok","eday":n.epoch_day,"back":[back.year,back.month,back.day],
               "wd":id.weekday().to_monday_one_offset(),
               "wd2":n.weekday().to_monday_one_offset(),
               "dim":sit::days_in_month(y,m),"leap":sit::is_leap_year(y),
               "diy":sit::days_in_year(y),"tom":tom,"yes":yes,"nth":nth})
    });
    let mut v = match r {
        Ok(v) => v,
        Err(p) => json!({"st":"panic","msg":p}),
    };
    let o = v.as_object_mut().unwrap();
    o.insert("op".into(), json!("sdate"));
    o.insert("cls".into(), json!(cls));
    o.insert("y".into(), json!(y));
    o.insert("m".into(), json!(m));
    o.insert("d".into(), json!(d));
    v
}

fn emit_opt(out: &mut Out, v: Value) {
    if !v.is_null() {
        out.emit(v);
    }
}

fn dim_true(y: i16, m: i8) -> i8 {
    // harness-side month length only used to *choose* inputs (class tags and
    // loop bounds); never compared with anything.
    Date::new(y, m, 1).map(|d| d.days_in_month()).unwrap_or(31).max(28)
}

/// Date::with(): any combination of year (plain / CE / BCE), month and day (of month / of year / of year
/// without leap days). Not part of C01's wording: scope "beyond" (a divergence is reported, never a violation).
fn dwith_event(rng: &mut Rng) -> Value {
    let o = Date::new(rng.range(-9999, 9999) as i16, rng.range(1, 12) as i8, rng.range(1, 28) as i8).unwrap();
    let o = if rng.chance(1, 4) { o.last_of_month() } else { o };
    let ykind = rng.next() % 4;
    let yv: i16 = match rng.next() % 4 {
        0 => *rng.pick(&[-10000i16, -9999, -1, 0, 1, 9999, 10000]),
        1 => rng.range(-10001, 10001) as i16,
        _ => rng.range(1, 2400) as i16,
    };
    let mset = rng.chance(1, 2);
    let mv: i8 = if rng.chance(1, 6) { *rng.pick(&[0i8, 13, -1, 127]) } else { rng.range(1, 12) as i8 };
    let dkind = rng.next() % 4;
    let dv: i16 = match dkind {
        1 => if rng.chance(1, 3) { *rng.pick(&[0i16, 28, 29, 30, 31, 32, -1]) } else { rng.range(1, 31) as i16 },
        _ => { let r = rng.range(1, 366) as i16; *rng.pick(&[0i16, 1, 59, 60, 61, 365, 366, 367, r]) }
    };
    let r = guard(|| {
        let mut w = o.with();
        w = match ykind {
            1 => w.year(yv),
            2 => w.era_year(yv, jiff::civil::Era::CE),
            3 => w.era_year(yv, jiff::civil::Era::BCE),
            _ => w,
        };
        if mset {
            w = w.month(mv);
        }
        w = match dkind {
            1 => w.day(dv as i8),
            2 => w.day_of_year(dv),
            3 => w.day_of_year_no_leap(dv),
            _ => w,
        };
        w.build()
    });
    let (st, res) = match r {
        Ok(Ok(d)) => ("ok", json!([d.year(), d.month(), d.day()])),
        Ok(Err(_)) => ("err", json!([])),
        Err(_) => ("panic", json!([])),
    };
    json!({"op":"dwith","cls":"builder","scope":"beyond","o":[o.year(), o.month(), o.day()],"ykind":ykind,"yv":yv,
           "mset": if mset {1} else {0},"mv":mv,"dkind":dkind,"dv": if dkind == 1 { dv as i8 as i16 } else { dv },"st":st,"res":res})
}

pub fn run(a: &Args) {
    let mut out = Out::new(&a.out, "c01", 100_000);
    let mut rng = Rng::new(a.seed, 1);
    let quick = a.quick();
    if let Some(p) = a.opt("replay") {
        for e in replay_events(&p) {
            let (y, m, d) = (gi(&e, "y") as i16, gi(&e, "m") as i8, gi(&e, "d") as i8);
            match e["op"].as_str().unwrap_or("") {
                "date" => out.emit(date_event(y, m, d, "replay")),
                "sdate" => emit_opt(&mut out, static_event(y, m, d, "replay")),
                "nthwom" => out.emit(month_event(y, m, "replay")),
                "nthwd" => out.emit(nthwd_event(
                    Date::new(y, m, d).unwrap(), gi(&e, "nth") as i32, gi(&e, "wd"), "replay")),
                "isonew" => out.emit(iso_event(gi(&e, "iy") as i16, gi(&e, "w") as i8, gi(&e, "wd"), "replay")),
                _ => {}
            }
        }
        out.finish();
        return;
    }

    let class_of = |y: i16, m: i8, d: i8| -> &'static str {
        if y <= 0 {
            "year<=0"
        } else if y == -9999 || y == 9999 {
            "limit-year"
        } else if m == 2 && d >= 28 {
            "feb-end"
        } else if (m == 12 && d >= 28) || (m == 1 && d <= 4) {
            "year-edge"
        } else {
            "plain"
        }
    };

    let full_date = |out: &mut Out, y: i16, m: i8, d: i8| {
        let cls = class_of(y, m, d);
        out.emit(date_event(y, m, d, cls));
    };

    if quick {
        for &y in BOUNDARY_YEARS {
            for m in 1..=12 {
                for d in 1..=dim_true(y, m) {
                    full_date(&mut out, y, m, d);
                    emit_opt(&mut out, static_event(y, m, d, class_of(y, m, d)));
                }
                out.emit(month_event(y, m, if y <= 0 { "year<=0" } else { "month" }));
            }
        }
        for y in -9999..=9999i16 {
            for (m, d) in [
                (12, 28), (12, 29), (12, 30), (12, 31), (1, 1), (1, 2), (1, 3), (1, 4),
                (2, 27), (2, 28), (3, 1),
            ] {
                full_date(&mut out, y, m, d);
            }
            if Date::new(y, 2, 29).is_ok() {
                full_date(&mut out, y, 2, 29);
            }
            emit_opt(&mut out, static_event(y, 12, 31, class_of(y, 12, 31)));
            emit_opt(&mut out, static_event(y, 3, 1, class_of(y, 3, 1)));
        }
        for _ in 0..60_000 {
            let y = rng.range(-9999, 9999) as i16;
            let m = rng.range(1, 12) as i8;
            let d = rng.range(1, dim_true(y, m) as i64) as i8;
            full_date(&mut out, y, m, d);
        }
        for _ in 0..10_000 {
            let y = rng.range(-9999, 9999) as i16;
            let m = rng.range(1, 12) as i8;
            out.emit(month_event(y, m, if y <= 0 { "year<=0" } else { "month" }));
        }
    } else {
        for y in -9999..=9999i16 {
            for m in 1..=12 {
                for d in 1..=dim_true(y, m) {
                    full_date(&mut out, y, m, d);
                    emit_opt(&mut out, static_event(y, m, d, class_of(y, m, d)));
                }
                out.emit(month_event(y, m, if y <= 0 { "year<=0" } else { "month" }));
            }
        }
    }

    // constructor triples, including invalid ones
    let ctor_years: Vec<i16> = if quick {
        let mut v: Vec<i16> = BOUNDARY_YEARS.to_vec();
        for _ in 0..120 {
            v.push(rng.range(-9999, 9999) as i16);
        }
        v
    } else {
        (-9999..=9999).collect()
    };
    for &y in &ctor_years {
        for m in 0..=13i8 {
            for d in 0..=32i8 {
                let cls = if Date::new(y, m, d).is_ok() { "plain" } else { "invalid-ctor" };
                out.emit(date_event(y, m, d, cls));
                if quick || y % 16 == 0 {
                    emit_opt(&mut out, static_event(y, m, d, cls));
                }
            }
        }
    }
    for (y, m, d) in [
        (-10000i16, 12i8, 31i8), (10000, 1, 1), (i16::MIN, 1, 1), (i16::MAX, 1, 1), (0, i8::MIN, 1),
        (0, i8::MAX, 1), (0, 1, i8::MIN), (0, 1, i8::MAX), (-9999, 1, 0), (9999, 12, 32), (2023, 2, 29),
        (1900, 2, 29), (2000, 2, 30), (-10000, 1, 1), (10000, 12, 31), (2024, -1, 1), (2024, 1, -1),
    ] {
        out.emit(date_event(y, m, d, "invalid-ctor"));
        emit_opt(&mut out, static_event(y, m, d, "invalid-ctor"));
    }

    // nth_weekday relative to a date
    let nths: &[i32] = &[
        1, 2, 3, 4, 5, 52, 53, 54, 1000, 100_000, 1_043_497, 1_043_498, i32::MAX, -1, -2, -3, -4, -5,
        -52, -53, -1000, -100_000, -1_043_497, -1_043_498, i32::MIN, 0,
    ];
    let mut nth_dates: Vec<Date> = vec![
        Date::MIN, Date::MAX, epoch(), Date::constant(-9999, 1, 7), Date::constant(9999, 12, 25),
        Date::constant(0, 1, 1), Date::constant(-1, 12, 31), Date::constant(2024, 2, 29),
    ];
    let n_rand = if quick { 1500 } else { 60_000 };
    for _ in 0..n_rand {
        let y = rng.range(-9999, 9999) as i16;
        let m = rng.range(1, 12) as i8;
        let d = rng.range(1, dim_true(y, m) as i64) as i8;
        nth_dates.push(Date::new(y, m, d).unwrap());
    }
    for (i, date) in nth_dates.iter().enumerate() {
        for &nth in nths {
            let wd = 1 + ((i as i64 + nth as i64).rem_euclid(7));
            let cls = if nth.unsigned_abs() > 1000 || i < 8 { "nthwd-far" } else { "nthwd" };
            out.emit(nthwd_event(*date, nth, wd, cls));
        }
        // small nth with random weekday
        let nth = rng.range(-60, 60) as i32;
        let wd = rng.range(1, 7);
        out.emit(nthwd_event(*date, nth, wd, "nthwd"));
    }

    // ISO week date constructor
    let iso_years: Vec<i16> = if quick {
        let mut v: Vec<i16> = BOUNDARY_YEARS.to_vec();
        for _ in 0..400 {
            v.push(rng.range(-9999, 9999) as i16);
        }
        v.extend_from_slice(&[-10000, 10000]);
        v
    } else {
        (-10000..=10000).collect()
    };
    for &iy in &iso_years {
        for w in [0i8, 1, 2, 26, 51, 52, 53, 54, -1].iter().copied().chain(if quick { 3..3 } else { 3..51 }) {
            for wd in 1..=7 {
                let cls = if w >= 52 || w <= 1 || iy.abs() >= 9999 { "iso-edge" } else { "plain" };
                out.emit(iso_event(iy, w, wd, cls));
            }
        }
    }
    for _ in 0..(if quick { 4000 } else { 100_000 }) {
        out.emit(dwith_event(&mut rng));
    }
    out.finish();
}
