//! C09 driver (timestamps and civil types): print with the Temporal printer
//! (default and configured), hand the bytes to the spec's independent
//! reader, re-parse with jiff.

use crate::common::*;
use jiff::civil::{Date, DateTime, Time};
use jiff::fmt::temporal::{DateTimeParser, DateTimePrinter};
use jiff::tz::Offset;
use jiff::Timestamp;
use serde_json::{json, Value};

pub fn codes(s: &str) -> Value {
    Value::Array(s.bytes().map(|b| json!(b)).collect())
}

fn jts(r: &Result<Result<Timestamp, jiff::Error>, String>) -> Value {
    match r {
        Ok(Ok(t)) => json!({"st":"ok","rsec":big(t.as_second() as i128),"rns":t.subsec_nanosecond()}),
        Ok(Err(_)) => json!({"st":"err"}),
        Err(m) => json!({"st":"panic","msg":m}),
    }
}

struct Cfg {
    prec: i64, // -1 = default
    sep: u8,
    lower: bool,
}

fn printer(c: &Cfg) -> DateTimePrinter {
    let mut p = DateTimePrinter::new().separator(c.sep).lowercase(c.lower);
    if c.prec >= 0 {
        p = p.precision(Some(c.prec as u8));
    }
    p
}

fn pp_ts(ts: Timestamp, c: &Cfg, off: Option<i32>, cls: &str) -> Value {
    static PARSER: DateTimeParser = DateTimeParser::new();
    let r = guard(|| {
        let text = match off {
            None => printer(c).timestamp_to_string(&ts),
            Some(o) => printer(c).timestamp_with_offset_to_string(&ts, Offset::from_seconds(o).unwrap()),
        };
        let re = guard(|| PARSER.parse_timestamp(&text));
        (text, jts(&re))
    });
    let sep = if c.lower && c.sep == b'T' { b't' } else { c.sep };
    match r {
        Ok((text, re)) => json!({"op":"pp_ts","cls":cls,"sec":big(ts.as_second() as i128),"ns":ts.subsec_nanosecond(),
                                 "off":off.unwrap_or(0),"zulu": if off.is_none() {1} else {0},"prec":c.prec,"sep":sep,
                                 "text":codes(&text),"s":text,"re":re}),
        Err(m) => json!({"op":"pp_ts","cls":cls,"sec":big(ts.as_second() as i128),"ns":ts.subsec_nanosecond(),"off":0,"zulu":1,
                         "prec":c.prec,"sep":sep,"text":[],"s":m,"re":{"st":"panic"}}),
    }
}

fn pp_dt(dt: DateTime, c: &Cfg, cls: &str) -> Value {
    static PARSER: DateTimeParser = DateTimeParser::new();
    let text = guard(|| printer(c).datetime_to_string(&dt)).unwrap_or_default();
    let re = match guard(|| PARSER.parse_datetime(&text)) {
        Ok(Ok(d)) => jdt(d),
        Ok(Err(_)) => json!([]),
        Err(_) => json!([-1]),
    };
    let sep = if c.lower && c.sep == b'T' { b't' } else { c.sep };
    json!({"op":"pp_dt","cls":cls,"civil":jdt(dt),"prec":c.prec,"sep":sep,"text":codes(&text),"s":text,"re":re})
}
fn pp_date(d: Date, cls: &str) -> Value {
    let text = guard(|| d.to_string()).unwrap_or_default();
    let re = match guard(|| text.parse::<Date>()) {
        Ok(Ok(d)) => jdate(d),
        Ok(Err(_)) => json!([]),
        Err(_) => json!([-1]),
    };
    json!({"op":"pp_date","cls":cls,"date":jdate(d),"text":codes(&text),"s":text,"re":re})
}
fn pp_time(t: Time, c: &Cfg, cls: &str) -> Value {
    static PARSER: DateTimeParser = DateTimeParser::new();
    let text = guard(|| printer(c).time_to_string(&t)).unwrap_or_default();
    let re = match guard(|| PARSER.parse_time(&text)) {
        Ok(Ok(d)) => jtime(d),
        Ok(Err(_)) => json!([]),
        Err(_) => json!([-1]),
    };
    json!({"op":"pp_time","cls":cls,"tod":jtime(t),"prec":c.prec,"text":codes(&text),"s":text,"re":re})
}

/// Texts of the RFC 3339 grammar (as extended by jiff's documentation: signed six-digit
/// years, 'T' / 't' / ' ', 1..9 fraction digits, 'Z' / 'z' / numeric offsets with optional
/// seconds), not produced by jiff's printer; the trace spec reads them independently.
fn gen_rfc3339(rng: &mut Rng, with_offset: bool) -> String {
    let y = match rng.next() % 5 {
        0 => rng.range(-9999, 9999),
        1 => *rng.pick(&[-9999i64, -1, 0, 1, 1969, 1970, 2024, 9999]),
        _ => rng.range(1800, 2200),
    };
    let m = rng.range(1, 12);
    let dim = [31, if (y % 4 == 0 && y % 100 != 0) || y % 400 == 0 { 29 } else { 28 }, 31, 30, 31, 30, 31, 31, 30, 31, 30, 31][(m - 1) as usize];
    let d = match rng.next() % 4 {
        0 => dim,
        1 => 1,
        _ => rng.range(1, dim),
    };
    let mut s = if (0..=9999).contains(&y) && rng.chance(3, 4) {
        format!("{y:04}")
    } else {
        format!("{}{:06}", if y < 0 { '-' } else { '+' }, y.abs())
    };
    if s == "-000000" {
        s = "+000000".into();
    }
    s.push_str(&format!("-{m:02}-{d:02}"));
    s.push(*rng.pick(&['T', 't', ' ', 'T']));
    let hh = if rng.chance(1, 3) { *rng.pick(&[0i64, 12, 23]) } else { rng.range(0, 23) };
    s.push_str(&format!("{:02}:{:02}:{:02}", hh, rng.range(0, 59), rng.range(0, 59)));
    if rng.chance(1, 2) {
        let nd = 1 + rng.next() % 9;
        s.push('.');
        for _ in 0..nd {
            s.push((b'0' + (rng.next() % 10) as u8) as char);
        }
    }
    if with_offset {
        match rng.next() % 6 {
            0 => s.push('Z'),
            1 => s.push('z'),
            2 => {
                let o = rng.range(0, 25 * 60 + 59);
                s.push_str(&format!("{}{:02}:{:02}:{:02}", if rng.chance(1, 2) { '-' } else { '+' }, o / 60, o % 60, rng.range(0, 59)));
            }
            _ => {
                let o = match rng.next() % 3 {
                    0 => rng.range(0, 14 * 60),
                    1 => *rng.pick(&[0i64, 30, 330, 345, 25 * 60 + 59]),
                    _ => rng.range(0, 25 * 60 + 59),
                };
                s.push_str(&format!("{}{:02}:{:02}", if rng.chance(1, 2) { '-' } else { '+' }, o / 60, o % 60));
            }
        }
    }
    s
}

fn rd_text(rng: &mut Rng, with_offset: bool) -> Value {
    static PARSER: DateTimeParser = DateTimeParser::new();
    let text = gen_rfc3339(rng, with_offset);
    if with_offset {
        let r = guard(|| PARSER.parse_timestamp(&text));
        // the printers never write a '+' year for 0..=9999 nor seconds in an offset
        let b = text.as_bytes();
        let beyond = (b[0] == b'+' && &text[1..3] == "00") || {
            let n = b.len();
            n > 9 && b[n - 3] == b':' && b[n - 6] == b':' && (b[n - 9] == b'+' || b[n - 9] == b'-')
        };
        let scope = if beyond { "beyond" } else { "property" };
        json!({"op":"rd_ts","cls":"grammar","scope":scope,"text":codes(&text),"s":text,"re":jts(&r)})
    } else {
        let re = match guard(|| PARSER.parse_datetime(&text)) {
            Ok(Ok(d)) => jdt(d),
            Ok(Err(_)) => json!([]),
            Err(_) => json!([-1]),
        };
        let scope = if text.starts_with("+00") { "beyond" } else { "property" };
        json!({"op":"rd_dt","cls":"grammar","scope":scope,"text":codes(&text),"s":text,"re":re})
    }
}

pub fn run_c09(a: &Args) {
    let mut out = Out::new(&a.out, "c09", 12_000);
    let mut rng = Rng::new(a.seed, 9);
    let quick = a.quick();
    let lo = Timestamp::MIN.as_nanosecond();
    let hi = Timestamp::MAX.as_nanosecond();
    let fracs: [i128; 12] = [0, 1, 10, 100, 1000, 123_000_000, 123_456_789, 999_999_999, 500_000_000, 100_000, 120_000_000, 999_000_000];
    let mut tss: Vec<Timestamp> = vec![Timestamp::MIN, Timestamp::MAX, Timestamp::UNIX_EPOCH];
    for _ in 0..(if quick { 900 } else { 120_000 }) {
        let secs = match rng.next() % 4 {
            0 => rng.range(-100_000, 100_000) as i128,
            1 => rng.range128(lo / 1_000_000_000 + 1, -62_135_596_800), // years <= 0
            _ => rng.range128(lo / 1_000_000_000 + 1, hi / 1_000_000_000 - 1),
        };
        let f = if rng.chance(1, 3) { rng.range(0, 999_999_999) as i128 } else { *rng.pick(&fracs) };
        let n = secs * 1_000_000_000 + if secs < 0 { -f } else { f };
        tss.push(Timestamp::from_nanosecond(n.clamp(lo, hi)).unwrap());
    }
    let default = Cfg { prec: -1, sep: b'T', lower: false };
    for (i, &ts) in tss.iter().enumerate() {
        let cls = if ts.as_second() < -62_135_596_800 { "year<=0" } else if ts.as_second() < 0 { "pre-epoch" } else { "plain" };
        out.emit(pp_ts(ts, &default, None, cls));
        let c = Cfg { prec: (i % 11) as i64 - 1, sep: if i % 3 == 0 { b' ' } else { b'T' }, lower: i % 5 == 0 };
        out.emit(pp_ts(ts, &c, None, "printer-options"));
        let off = match i % 4 {
            0 => rng.range(-93599, 93599) as i32,
            1 => *rng.pick(&[0i32, 60, -60, 3600, 19800, -34200, 93540, -93540]),
            2 => rng.range(-1559, 1559) as i32 * 60,
            _ => *rng.pick(&[1i32, -1, 29, 30, 31, -29, -30, -31, 93599, -93599, 3599, -3599]),
        };
        // sub-minute offsets are rounded by the printer: only whole-minute offsets denote the instant exactly
        if off % 60 == 0 {
            out.emit(pp_ts(ts, &default, Some(off), "with-offset"));
        }
        let dt = Offset::from_seconds(off).unwrap().to_datetime(ts);
        out.emit(pp_dt(dt, &default, cls));
        out.emit(pp_dt(dt, &c, "printer-options"));
        out.emit(pp_date(dt.date(), cls));
        out.emit(pp_time(dt.time(), &default, "plain"));
        out.emit(pp_time(dt.time(), &c, "printer-options"));
    }
    for d in [Date::MIN, Date::MAX, Date::constant(0, 1, 1), Date::constant(-1, 12, 31), Date::constant(9999, 1, 1), Date::constant(10, 2, 3)] {
        out.emit(pp_date(d, "limit"));
        for t in [Time::MIN, Time::MAX] {
            out.emit(pp_dt(DateTime::from_parts(d, t), &default, "limit"));
        }
    }
    // the parser on texts of the grammar that the printer never produces
    for i in 0..(if quick { 6000 } else { 500_000 }) {
        out.emit(rd_text(&mut rng, i % 3 != 0));
    }
    out.finish();
}
