//! C02 driver: Timestamp <-> civil datetime under fixed offsets, unit views
//! and constructors.  Raw API integers are logged; the spec does the math.

use crate::common::*;
use jiff::civil::DateTime;
use jiff::tz::{Offset, TimeZone};
use jiff::{SignedDuration, Timestamp};
use serde_json::{json, Value};

const OFFSETS: &[i32] = &[
    0, 1, -1, 59, -59, 3600, -3600, 19800, -34200, 45900, 93599, -93599, 86399, -86400, 50400, -43200,
];
const DAY_MIN: i64 = -4371587;
const DAY_MAX: i64 = 2932896;

fn jts(r: &Result<Result<Timestamp, jiff::Error>, String>) -> Value {
    match r {
        Ok(Ok(t)) => json!({"st":"ok","rsec":big(t.as_second() as i128),"rns":t.subsec_nanosecond()}),
        Ok(Err(_)) => json!({"st":"err"}),
        Err(m) => json!({"st":"panic","msg":m}),
    }
}

fn ts_civil(ts: Timestamp, off: i32, cls: &str) -> Value {
    let r = guard(|| {
        let o = Offset::from_seconds(off).unwrap();
        let civil = o.to_datetime(ts);
        let tz = TimeZone::fixed(o);
        let civil2 = ts.to_zoned(tz.clone()).datetime();
        let back = guard(|| o.to_timestamp(civil));
        let back2 = guard(|| civil.to_zoned(tz).map(|z| z.timestamp()));
        json!({"civil":jdt(civil),"civil2":jdt(civil2),"back":jts(&back),"back2":jts(&back2)})
    });
    let mut v = match r {
        Ok(v) => v,
        Err(m) => json!({"st":"panic","msg":m}),
    };
    let o = v.as_object_mut().unwrap();
    o.insert("op".into(), json!("ts_civil"));
    o.insert("cls".into(), json!(cls));
    o.insert("sec".into(), big(ts.as_second() as i128));
    o.insert("ns".into(), json!(ts.subsec_nanosecond()));
    o.insert("off".into(), json!(off));
    v
}

fn civil_ts(dt: DateTime, off: i32, cls: &str) -> Value {
    let r = guard(|| Offset::from_seconds(off).unwrap().to_timestamp(dt));
    let mut v = jts(&r);
    let o = v.as_object_mut().unwrap();
    o.insert("op".into(), json!("civil_ts"));
    o.insert("cls".into(), json!(cls));
    o.insert("civil".into(), jdt(dt));
    o.insert("off".into(), json!(off));
    v
}

fn ts_new(sec: i64, ns: i32, cls: &str) -> Value {
    let r = guard(|| Timestamp::new(sec, ns));
    let mut v = jts(&r);
    let o = v.as_object_mut().unwrap();
    o.insert("op".into(), json!("ts_new"));
    o.insert("cls".into(), json!(cls));
    o.insert("sec".into(), big(sec as i128));
    o.insert("ns".into(), json!(ns));
    v
}

fn ts_from(unit: &str, val: i128, cls: &str) -> Value {
    let r = guard(|| match unit {
        "s" => Timestamp::from_second(val as i64),
        "ms" => Timestamp::from_millisecond(val as i64),
        "us" => Timestamp::from_microsecond(val as i64),
        _ => Timestamp::from_nanosecond(val),
    });
    let mut v = jts(&r);
    let o = v.as_object_mut().unwrap();
    o.insert("op".into(), json!("ts_from"));
    o.insert("cls".into(), json!(cls));
    o.insert("unit".into(), json!(unit));
    o.insert("v".into(), big(val));
    v
}

fn ts_views(ts: Timestamp, cls: &str) -> Value {
    let r = guard(|| {
        let d = ts.as_duration();
        let rt_ns = guard(|| Timestamp::from_nanosecond(ts.as_nanosecond()));
        let rt_dur = guard(|| Timestamp::from_duration(d));
        json!({
            "as_ms": big(ts.as_millisecond() as i128),
            "as_us": big(ts.as_microsecond() as i128),
            "as_ns": big(ts.as_nanosecond()),
            "sub_ms": ts.subsec_millisecond(),
            "sub_us": ts.subsec_microsecond(),
            "dur_s": big(d.as_secs() as i128),
            "dur_ns": d.subsec_nanos(),
            "sign": ts.signum(),
            "rt_ns": jts(&rt_ns),
            "rt_dur": jts(&rt_dur),
        })
    });
    let mut v = match r {
        Ok(v) => v,
        Err(m) => json!({"st":"panic","msg":m}),
    };
    let o = v.as_object_mut().unwrap();
    o.insert("op".into(), json!("ts_views"));
    o.insert("cls".into(), json!(cls));
    o.insert("sec".into(), big(ts.as_second() as i128));
    o.insert("ns".into(), json!(ts.subsec_nanosecond()));
    v
}

fn mk(nanos: i128) -> Option<Timestamp> {
    Timestamp::from_nanosecond(nanos).ok()
}

fn class_ts(nanos: i128) -> &'static str {
    let ns = nanos.rem_euclid(1_000_000_000);
    if nanos < 0 && ns != 0 {
        "neg-fraction"
    } else if nanos < 0 {
        "pre-epoch"
    } else {
        "plain"
    }
}

pub fn replay(a: &Args, out: &mut Out, path: &str) {
    let _ = a;
    for e in replay_events(path) {
        let off = gi(&e, "off") as i32;
        let sec = if e["sec"].is_object() { unbig(&e["sec"]) } else { 0 };
        let ns = gi(&e, "ns") as i32;
        let tsv = Timestamp::new(sec as i64, ns);
        match e["op"].as_str().unwrap_or("") {
            "ts_civil" => {
                if let Ok(t) = tsv {
                    out.emit(ts_civil(t, off, "replay"))
                }
            }
            "ts_views" => {
                if let Ok(t) = tsv {
                    out.emit(ts_views(t, "replay"))
                }
            }
            "civil_ts" => {
                let c = e["civil"].as_array().unwrap();
                let g = |i: usize| c[i].as_i64().unwrap();
                let dt = DateTime::new(g(0) as i16, g(1) as i8, g(2) as i8, g(3) as i8, g(4) as i8, g(5) as i8, g(6) as i32)
                    .unwrap();
                out.emit(civil_ts(dt, off, "replay"));
            }
            "ts_new" => out.emit(ts_new(sec as i64, ns, "replay")),
            "ts_from" => out.emit(ts_from(e["unit"].as_str().unwrap(), unbig(&e["v"]), "replay")),
            _ => {}
        }
    }
}

pub fn run(a: &Args) {
    let mut out = Out::new(&a.out, "c02", 60_000);
    if let Some(p) = a.opt("replay") {
        replay(a, &mut out, &p);
        out.finish();
        return;
    }
    let mut rng = Rng::new(a.seed, 2);
    let quick = a.quick();
    let day_ns: i128 = 86_400_000_000_000;

    // --- day boundaries -1ns / 0 / +1ns under rotating offsets -------------
    let mut days: Vec<i64> = Vec::new();
    if quick {
        let mut d = DAY_MIN;
        while d <= DAY_MAX {
            days.push(d);
            days.push(d + 59); // around Mar 1
            d += 365;
        }
        days.extend(-1500..=1500);
        days.extend(DAY_MIN..DAY_MIN + 800);
        days.extend(DAY_MAX - 800..=DAY_MAX);
        for _ in 0..3000 {
            days.push(rng.range(DAY_MIN, DAY_MAX));
        }
    } else {
        days.extend(DAY_MIN..=DAY_MAX);
    }
    let noffs = if quick { 3 } else { 2 };
    for (i, &d) in days.iter().enumerate() {
        for (k, delta) in [-1i128, 0, 1].into_iter().enumerate() {
            let nanos = d as i128 * day_ns + delta;
            if let Some(ts) = mk(nanos) {
                for j in 0..noffs {
                    let off = OFFSETS[(i * 7 + k * 3 + j * 5) % OFFSETS.len()];
                    let cls = if d < 0 || (d == 0 && delta < 0) { "day-edge-pre-epoch" } else { "day-edge" };
                    out.emit(ts_civil(ts, off, cls));
                }
            }
        }
    }

    // --- every second of selected days ------------------------------------------
    for &d in &[-1i64, 0, DAY_MIN + 1, DAY_MAX - 1] {
        for s in 0..86400i64 {
            if quick && !(s < 3700 || s > 82700 || s % 61 == 0) {
                continue;
            }
            let nanos = (d as i128 * 86400 + s as i128) * 1_000_000_000;
            if let Some(ts) = mk(nanos) {
                let off = OFFSETS[(s as usize) % OFFSETS.len()];
                out.emit(ts_civil(ts, off, if d < 0 { "second-pre-epoch" } else { "second" }));
            }
        }
    }

    // --- negative fractions: ns < 0 with sec = 0, 1, 86399 (mod 86400) ---------------
    let fracs: &[i32] = &[-1, -2, -499_999_999, -500_000_000, -500_000_001, -999_999_998, -999_999_999];
    let n_neg = if quick { 4000 } else { 200_000 };
    for i in 0..n_neg {
        let d = if i < 200 { -(i as i64) } else { rng.range(DAY_MIN + 2, 0) };
        for base in [0i64, 1, 86399, 43200] {
            let sec = d * 86400 - base; // non-positive
            for &f in fracs.iter().skip(i % 3).step_by(3) {
                if let Ok(ts) = Timestamp::new(sec, f) {
                    let off = *rng.pick(OFFSETS);
                    out.emit(ts_civil(ts, off, "neg-fraction"));
                    if i % 4 == 0 {
                        out.emit(ts_views(ts, "neg-fraction"));
                    }
                }
            }
        }
    }

    // --- epoch-neighbourhood grid: (t + offset) crossing zero and day boundaries for
    //     every extreme offset (|offset| may exceed 24h) --------------------------------------
    let mut grid_secs: Vec<i64> = Vec::new();
    for k in -27i64..=27 {
        for j in [-1i64, 0, 1] {
            grid_secs.push(k * 3600 + j);
        }
    }
    for v in [86399i64, 86400, 86401, 93598, 93599, 93600, 90000, 172799, 172800, 172801] {
        grid_secs.push(v);
        grid_secs.push(-v);
    }
    let grid_offs: Vec<i32> = OFFSETS
        .iter()
        .copied()
        .chain([-86401, 86401, -90000, 90000, -93598, 93598, -86399, 43200, -3599, 3601])
        .collect();
    for &s in &grid_secs {
        for &o in &grid_offs {
            for f in [0i32, 1, 500_000_000, 999_999_999] {
                let ns = if s < 0 { -f } else { f };
                if let Ok(ts) = Timestamp::new(s, ns) {
                    out.emit(ts_civil(ts, o, "epoch-grid"));
                }
                if s == 0 && f != 0 {
                    if let Ok(ts) = Timestamp::new(0, -f) {
                        out.emit(ts_civil(ts, o, "epoch-grid"));
                    }
                }
            }
        }
    }
    // the same offsets at both ends of the range
    for base in [Timestamp::MIN.as_second(), Timestamp::MAX.as_second()] {
        for d in -2i64..=2 {
            for &o in &grid_offs {
                let s = base + d * 43200;
                if let Ok(ts) = Timestamp::new(s, if s < 0 { -1 } else { 1 }) {
                    out.emit(ts_civil(ts, o, "limit"));
                }
            }
        }
    }

    // --- limits ------------------------------------------------------------------------
    let lim = [
        Timestamp::MIN, Timestamp::MAX, Timestamp::UNIX_EPOCH,
        Timestamp::new(Timestamp::MIN.as_second(), 1).unwrap(),
        Timestamp::new(Timestamp::MIN.as_second() + 1, 0).unwrap(),
        Timestamp::new(Timestamp::MAX.as_second(), 0).unwrap(),
        Timestamp::new(Timestamp::MAX.as_second(), 999_999_998).unwrap(),
        Timestamp::new(0, 1).unwrap(), Timestamp::new(0, -1).unwrap(),
        Timestamp::new(-1, 0).unwrap(), Timestamp::new(-1, -999_999_999).unwrap(),
    ];
    for ts in lim {
        for &off in OFFSETS {
            out.emit(ts_civil(ts, off, "limit"));
        }
        out.emit(ts_views(ts, "limit"));
    }

    // --- civil -> timestamp, including out-of-range results --------------------------------
    let civs: Vec<DateTime> = {
        let mut v = vec![DateTime::MIN, DateTime::MAX];
        for (y, m, d) in [(-9999i16, 1i8, 1i8), (-9999, 1, 2), (-9999, 1, 3), (9999, 12, 29), (9999, 12, 30), (9999, 12, 31), (1970, 1, 1), (1969, 12, 31)] {
            for (h, mi, s, ns) in [(0i8, 0i8, 0i8, 0i32), (0, 0, 0, 1), (1, 59, 58, 999_999_999), (1, 59, 59, 0), (1, 59, 59, 1), (2, 0, 0, 0), (21, 59, 59, 999_999_999), (22, 0, 0, 0), (22, 0, 0, 999_999_999), (22, 0, 1, 0), (23, 59, 59, 999_999_999), (12, 0, 0, 0)] {
                v.push(DateTime::new(y, m, d, h, mi, s, ns).unwrap());
            }
        }
        v
    };
    for dt in &civs {
        for &off in OFFSETS {
            out.emit(civil_ts(*dt, off, "civil-limit"));
        }
    }

    // --- constructors ---------------------------------------------------------------------------
    let smin = Timestamp::MIN.as_second();
    let smax = Timestamp::MAX.as_second();
    let secs: &[i64] = &[
        i64::MIN, i64::MIN + 1, smin - 2, smin - 1, smin, smin + 1, -86401, -86400, -86399, -2, -1, 0, 1, 2, 86399,
        86400, smax - 1, smax, smax + 1, smax + 2, i64::MAX - 1, i64::MAX,
    ];
    let nss: &[i32] = &[
        i32::MIN, -1_000_000_000, -999_999_999, -500_000_000, -1, 0, 1, 500_000_000, 999_999_999, 1_000_000_000,
        i32::MAX,
    ];
    for &s in secs {
        for &n in nss {
            out.emit(ts_new(s, n, "ctor-limit"));
        }
    }
    let n_ctor = if quick { 20_000 } else { 500_000 };
    for _ in 0..n_ctor {
        let s = match rng.next() % 4 {
            0 => rng.range(smin - 5, smin + 5),
            1 => rng.range(smax - 5, smax + 5),
            2 => rng.range(-200_000, 200_000),
            _ => rng.range(smin, smax),
        };
        let n = match rng.next() % 3 {
            0 => *rng.pick(nss),
            _ => rng.range(-999_999_999, 999_999_999) as i32,
        };
        let cls = if (s > 0 && n < 0) || (s < 0 && n > 0) { "ctor-mixed-sign" } else { "ctor" };
        out.emit(ts_new(s, n, cls));
    }
    let units: &[(&str, i128)] = &[("s", 1), ("ms", 1000), ("us", 1_000_000), ("ns", 1_000_000_000)];
    for &(u, scale) in units {
        let lo = smin as i128 * scale;
        let hi = smax as i128 * scale + (scale - 1);
        let mut vals: Vec<i128> = vec![lo - 2, lo - 1, lo, lo + 1, hi - 1, hi, hi + 1, hi + 2, 0, 1, -1, scale, -scale, scale - 1, 1 - scale, scale + 1, -scale - 1];
        if u == "ns" {
            vals.extend_from_slice(&[i128::MIN, i128::MAX, i64::MIN as i128, i64::MAX as i128]);
        } else {
            vals.extend_from_slice(&[i64::MIN as i128, i64::MAX as i128]);
        }
        let n_r = if quick { 4000 } else { 100_000 };
        for _ in 0..n_r {
            vals.push(match rng.next() % 3 {
                0 => rng.range128(lo - 3 * scale, lo + 3 * scale),
                1 => rng.range128(hi - 3 * scale, hi + 3 * scale),
                _ => rng.range128(lo, hi),
            });
        }
        for v in vals {
            let v = if u != "ns" { v.clamp(i64::MIN as i128, i64::MAX as i128) } else { v };
            let cls = if v < lo || v > hi { "from-out-of-range" } else if v < 0 { "from-negative" } else { "plain" };
            out.emit(ts_from(u, v, cls));
        }
    }

    // --- seeded random (timestamp, offset) pairs -----------------------------------------------
    let n_rand = if quick { 60_000 } else { 2_000_000 };
    let lo = Timestamp::MIN.as_nanosecond();
    let hi = Timestamp::MAX.as_nanosecond();
    for i in 0..n_rand {
        let nanos = rng.range128(lo, hi);
        let ts = mk(nanos).unwrap();
        let off = if i % 2 == 0 { *rng.pick(OFFSETS) } else { rng.range(-93599, 93599) as i32 };
        out.emit(ts_civil(ts, off, class_ts(nanos)));
        if i % 8 == 0 {
            out.emit(ts_views(ts, class_ts(nanos)));
            let c = Offset::from_seconds(off).unwrap().to_datetime(ts);
            let off2 = rng.range(-93599, 93599) as i32;
            out.emit(civil_ts(c, off2, "plain"));
        }
    }
    let _ = SignedDuration::ZERO;
    out.finish();
}
