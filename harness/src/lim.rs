//! C05 driver: every fallible public operation on limit-biased arguments.
//!
//! One event per call: the API, a printable description of the arguments,
//! the status (ok / err / panic) and the projection of the Ok value.  The
//! driver is deterministic in the seed, so that the same run under a build
//! with and without debug assertions can be compared call by call.

use crate::common::*;
use jiff::civil::{Date, DateTime, ISOWeekDate, Time, Weekday};
use jiff::tz::{Offset, TimeZone};
use jiff::{RoundMode, SignedDuration, Span, SpanRelativeTo, SpanRound, SpanTotal, Timestamp, Unit, Zoned, ZonedRound};
use jiff::{SpanArithmetic, SpanCompare, TimestampRound, ZonedDifference};
use serde_json::{json, Value};

pub enum P {
    Ts(Timestamp),
    Z(Zoned),
    Dt(DateTime),
    D(Date),
    T(Time),
    Sp(Span),
    Sd(SignedDuration),
    Off(Offset),
    Iso(ISOWeekDate),
    F(f64),
    Int(i64),
    None,
}

fn span_fields(s: &Span) -> Value {
    json!([
        big(s.get_years() as i128), big(s.get_months() as i128), big(s.get_weeks() as i128), big(s.get_days() as i128),
        big(s.get_hours() as i128), big(s.get_minutes() as i128), big(s.get_seconds() as i128), big(s.get_milliseconds() as i128),
        big(s.get_microseconds() as i128), big(s.get_nanoseconds() as i128)
    ])
}

fn proj(p: &P) -> (&'static str, Value) {
    match p {
        P::Ts(t) => ("ts", json!({"sec":big(t.as_second() as i128),"ns":t.subsec_nanosecond()})),
        P::Z(z) => {
            let t = z.timestamp();
            let mut f = jdt(z.datetime());
            f.as_array_mut().unwrap().push(json!(z.offset().seconds()));
            ("zoned", json!({"sec":big(t.as_second() as i128),"ns":t.subsec_nanosecond(),"f":f}))
        }
        P::Dt(d) => ("dt", json!({"f":jdt(*d)})),
        P::D(d) => ("date", json!({"f":jdate(*d)})),
        P::T(t) => ("time", json!({"f":jtime(*t)})),
        P::Sp(s) => ("span", json!({"u":span_fields(s)})),
        P::Sd(d) => ("sd", json!({"sec":big(d.as_secs() as i128),"ns":d.subsec_nanos()})),
        P::Off(o) => ("off", json!({"s":o.seconds()})),
        P::Iso(w) => ("iso", json!({"f":[w.year(), w.week(), wd_num(w.weekday())]})),
        P::F(x) => ("f64", json!({"finite": if x.is_finite() {1} else {0}, "bits": format!("{:016x}", x.to_bits())})),
        P::Int(i) => ("int", json!({"i": i.to_string()})),
        P::None => ("none", json!({})),
    }
}

struct Ctx {
    out: Out,
    every: u64,
    n: u64,
    /// replay: only these (api, args) calls are made
    only: Option<std::collections::HashSet<(String, String)>>,
}

impl Ctx {
    /// Record one call.  With `every` > 1 only each n-th call is executed
    /// (deterministically), which is how the quick tier thins the products.
    fn call(&mut self, api: &str, args: String, cls: &str, f: impl FnOnce() -> Result<P, jiff::Error>) {
        self.n += 1;
        if let Some(only) = &self.only {
            if !only.contains(&(api.to_string(), args.clone())) {
                return;
            }
        } else if self.every > 1 && self.n % self.every != 0 {
            return;
        }
        let r = guard(f);
        let (st, kind, val, msg) = match &r {
            Ok(Ok(p)) => {
                let (k, v) = proj(p);
                ("ok", k, v, String::new())
            }
            Ok(Err(_)) => ("err", "", json!({}), String::new()),
            Err(m) => ("panic", "", json!({}), m.clone()),
        };
        self.out.emit(json!({"op":"call","cls":cls,"api":api,"args":args,"st":st,"kind":kind,"val":val,"msg":msg}));
    }
}

// ---- pools ---------------------------------------------------------------------

fn dates() -> Vec<Date> {
    let mut v = vec![Date::MIN, Date::MAX, Date::MIN.tomorrow().unwrap(), Date::MAX.yesterday().unwrap()];
    for (y, m, d) in [
        (-9999, 1, 31), (-9999, 2, 28), (-9999, 12, 31), (-1, 12, 31), (0, 1, 1), (0, 2, 29), (1, 1, 1), (1582, 10, 15), (1969, 12, 31), (1970, 1, 1), (1972, 2, 29),
        (2023, 2, 28), (2024, 1, 31), (2024, 2, 29), (2024, 3, 31), (2024, 12, 31), (2025, 1, 1), (9999, 1, 1), (9999, 2, 28), (9999, 11, 30), (9999, 12, 1),
    ] {
        v.push(Date::new(y, m, d).unwrap());
    }
    v
}
fn times() -> Vec<Time> {
    vec![Time::MIN, Time::MAX, Time::new(0, 0, 0, 1).unwrap(), Time::new(23, 59, 59, 0).unwrap(), Time::new(12, 0, 0, 0).unwrap(), Time::new(11, 59, 59, 999_999_999).unwrap(),
         Time::new(1, 59, 59, 500_000_000).unwrap(), Time::new(2, 30, 0, 0).unwrap()]
}
fn datetimes() -> Vec<DateTime> {
    let mut v = Vec::new();
    let ts = times();
    for (i, d) in dates().into_iter().enumerate() {
        v.push(DateTime::from_parts(d, ts[i % ts.len()]));
        v.push(DateTime::from_parts(d, if i % 2 == 0 { Time::MIN } else { Time::MAX }));
    }
    v.push(DateTime::MIN);
    v.push(DateTime::MAX);
    v
}
fn timestamps() -> Vec<Timestamp> {
    let mut v = vec![Timestamp::MIN, Timestamp::MAX, Timestamp::UNIX_EPOCH];
    for n in [1i128, -1, 1_000_000_000, -1_000_000_000, 999_999_999, -999_999_999, 86_400_000_000_000, -86_400_000_000_000, 1_710_054_000_000_000_000, 1_730_613_600_000_000_000,
              1_710_053_999_999_999_999, 1_730_613_599_999_999_999, 1_325_239_200_000_000_000] {
        v.push(Timestamp::from_nanosecond(n).unwrap());
    }
    let (lo, hi) = (Timestamp::MIN.as_nanosecond(), Timestamp::MAX.as_nanosecond());
    for k in [1i128, 2, 1_000, 1_000_000_000, 3_600_000_000_000, 86_400_000_000_000, 93_599_000_000_000, 93_600_000_000_000] {
        v.push(Timestamp::from_nanosecond(lo + k).unwrap());
        v.push(Timestamp::from_nanosecond(hi - k).unwrap());
    }
    v
}
fn zones() -> Vec<TimeZone> {
    let mut v = vec![TimeZone::UTC, TimeZone::fixed(Offset::MIN), TimeZone::fixed(Offset::MAX), TimeZone::fixed(Offset::from_seconds(1).unwrap()),
                     TimeZone::fixed(Offset::from_seconds(-1).unwrap())];
    for n in ["America/New_York", "Australia/Lord_Howe", "Pacific/Apia", "Pacific/Kiritimati", "Antarctica/Troll", "Africa/Monrovia", "Europe/London", "America/St_Johns", "Asia/Kathmandu"] {
        if let Ok(tz) = jiff::tz::db().get(n) {
            v.push(tz);
        }
    }
    for p in ["EST5EDT,M3.2.0,M11.1.0", "<+14>-14<+15>,M1.1.0/0,M12.5.6/24", "AAA24:59:59BBB,0/0,365/0", "XXX-24:59:59YYY-25:59:59,J1/0,J365/24"] {
        if let Ok(tz) = TimeZone::posix(p) {
            v.push(tz);
        }
    }
    v
}
fn zoneds() -> Vec<Zoned> {
    let mut v = Vec::new();
    let zs = zones();
    let tss = timestamps();
    for (i, tz) in zs.iter().enumerate() {
        for (j, ts) in tss.iter().enumerate() {
            if j < 3 || (i + j) % 4 == 0 {
                v.push(ts.to_zoned(tz.clone()));
            }
        }
    }
    v
}
const LIMS: [i64; 10] = [19_998, 239_976, 1_043_497, 7_304_484, 175_307_616, 10_518_456_960, 631_107_417_600, 631_107_417_600_000, 631_107_417_600_000_000, i64::MAX];
fn set_unit(s: Span, u: usize, v: i64) -> Result<Span, jiff::Error> {
    match u {
        0 => s.try_years(v),
        1 => s.try_months(v),
        2 => s.try_weeks(v),
        3 => s.try_days(v),
        4 => s.try_hours(v),
        5 => s.try_minutes(v),
        6 => s.try_seconds(v),
        7 => s.try_milliseconds(v),
        8 => s.try_microseconds(v),
        _ => s.try_nanoseconds(v),
    }
}
fn spans(rng: &mut Rng) -> Vec<Span> {
    let mut v = vec![Span::new()];
    for u in 0..10 {
        for k in [1i64, -1, LIMS[u], -LIMS[u], LIMS[u] - 1, -(LIMS[u] - 1), LIMS[u] / 2] {
            if let Ok(s) = set_unit(Span::new(), u, k) {
                v.push(s);
            }
        }
    }
    for sign in [1i64, -1] {
        // every unit at its limit; calendar units only; time units only
        let mut all = Span::new();
        let mut cal = Span::new();
        let mut tim = Span::new();
        for u in 0..10 {
            all = set_unit(all, u, sign * LIMS[u]).unwrap();
            if u < 4 {
                cal = set_unit(cal, u, sign * LIMS[u]).unwrap();
            } else {
                tim = set_unit(tim, u, sign * LIMS[u]).unwrap();
            }
        }
        v.push(all);
        v.push(cal);
        v.push(tim);
    }
    for _ in 0..24 {
        let mut s = Span::new();
        let sign = if rng.chance(1, 2) { 1 } else { -1 };
        for u in 0..10 {
            if rng.chance(1, 3) {
                let k = match rng.next() % 4 {
                    0 => LIMS[u],
                    1 => rng.range(0, 100),
                    2 => LIMS[u] - rng.range(0, 3),
                    _ => rng.range(0, LIMS[u].min(1 << 40)),
                };
                s = set_unit(s, u, sign * k).unwrap();
            }
        }
        v.push(s);
    }
    v
}
fn durations() -> Vec<SignedDuration> {
    let mut v = vec![SignedDuration::ZERO, SignedDuration::MIN, SignedDuration::MAX];
    for (s, n) in [(0i64, 1i32), (0, -1), (1, 0), (-1, 0), (86_400, 0), (-86_400, 0), (631_107_417_600, 0), (-631_107_417_600, 0), (631_107_417_600, 999_999_999), (9_223_372_036, 854_775_807),
                   (-9_223_372_036, -854_775_808), (i64::MAX, 0), (i64::MIN, 0), (i64::MIN + 1, -999_999_999), (377_705_023_201, 0), (253_402_207_200, 999_999_999), (93_599, 0), (-93_599, 0)] {
        v.push(SignedDuration::new(s, n));
    }
    v
}
const UNITS: [Unit; 10] = [Unit::Year, Unit::Month, Unit::Week, Unit::Day, Unit::Hour, Unit::Minute, Unit::Second, Unit::Millisecond, Unit::Microsecond, Unit::Nanosecond];
const MODES: [RoundMode; 9] = [RoundMode::Ceil, RoundMode::Floor, RoundMode::Expand, RoundMode::Trunc, RoundMode::HalfCeil, RoundMode::HalfFloor, RoundMode::HalfExpand, RoundMode::HalfTrunc, RoundMode::HalfEven];
const INCS: [i64; 16] = [1, 2, 3, 5, 7, 12, 24, 30, 60, 100, 500, 1000, 0, -1, 1_000_000_000, i64::MAX];

fn sd(s: &Span) -> String {
    format!("{s:?}")
}

pub fn run(a: &Args) {
    let quick = a.quick();
    let mut rng = Rng::new(a.seed, 5);
    let only = a.opt("replay").map(|p| {
        replay_events(&p).iter().map(|e| (e["api"].as_str().unwrap_or("").to_string(), e["args"].as_str().unwrap_or("").to_string())).collect()
    });
    let mut c = Ctx { out: Out::new(&a.out, "c05", 20_000), every: if quick { 2 } else { 1 }, n: a.seed % 2, only };
    let ds = dates();
    let ts = times();
    let dts = datetimes();
    let tss = timestamps();
    let zs = zoneds();
    let tzs = zones();
    let mut sps = spans(&mut rng);
    let dus = durations();
    if !quick {
        // a second and third helping of seeded spans widens every product below
        sps.extend(spans(&mut rng).into_iter().skip(77));
        sps.extend(spans(&mut rng).into_iter().skip(77));
    }

    // ---- constructors ----------------------------------------------------------
    for y in [i16::MIN, -10000, -9999, 0, 9999, 10000, i16::MAX] {
        for m in [i8::MIN, -1, 0, 1, 2, 12, 13, i8::MAX] {
            for d in [i8::MIN, 0, 1, 28, 29, 30, 31, 32, i8::MAX] {
                c.call("Date::new", format!("{y} {m} {d}"), "constructor", || Date::new(y, m, d).map(P::D));
            }
        }
    }
    for h in [i8::MIN, -1, 0, 23, 24, i8::MAX] {
        for mi in [-1i8, 0, 59, 60, i8::MAX] {
            for s in [-1i8, 0, 59, 60] {
                for ns in [i32::MIN, -1, 0, 999_999_999, 1_000_000_000, i32::MAX] {
                    c.call("Time::new", format!("{h} {mi} {s} {ns}"), "constructor", || Time::new(h, mi, s, ns).map(P::T));
                    c.call("DateTime::new", format!("9999 12 31 {h} {mi} {s} {ns}"), "constructor", || DateTime::new(9999, 12, 31, h, mi, s, ns).map(P::Dt));
                }
            }
        }
    }
    for s in [i64::MIN, -377_705_023_202, -377_705_023_201, -377_705_023_200, -1, 0, 1, 253_402_207_199, 253_402_207_200, 253_402_207_201, i64::MAX] {
        for ns in [i32::MIN, -1_000_000_000, -999_999_999, -1, 0, 1, 999_999_999, 1_000_000_000, i32::MAX] {
            c.call("Timestamp::new", format!("{s} {ns}"), "constructor", || Timestamp::new(s, ns).map(P::Ts));
        }
        c.call("Timestamp::from_second", format!("{s}"), "constructor", || Timestamp::from_second(s).map(P::Ts));
        c.call("Timestamp::from_millisecond", format!("{s}"), "constructor", || Timestamp::from_millisecond(s).map(P::Ts));
        c.call("Timestamp::from_microsecond", format!("{s}"), "constructor", || Timestamp::from_microsecond(s).map(P::Ts));
        for k in [1i128, 1000, 1_000_000_000, 1_000_000_001] {
            c.call("Timestamp::from_nanosecond", format!("{s}*{k}"), "constructor", || Timestamp::from_nanosecond(s as i128 * k).map(P::Ts));
        }
    }
    for d in &dus {
        c.call("Timestamp::from_duration", format!("{d:?}"), "constructor", || Timestamp::from_duration(*d).map(P::Ts));
        c.call("Span::try_from(SignedDuration)", format!("{d:?}"), "constructor", || Span::try_from(*d).map(P::Sp));
    }
    for v in [i8::MIN, -26, -25, 0, 25, 26, i8::MAX] {
        c.call("Offset::from_hours", format!("{v}"), "constructor", || Offset::from_hours(v).map(P::Off));
    }
    for v in [i32::MIN, -93_600, -93_599, 0, 93_599, 93_600, i32::MAX] {
        c.call("Offset::from_seconds", format!("{v}"), "constructor", || Offset::from_seconds(v).map(P::Off));
    }
    for y in [i16::MIN, -10000, -9999, -9998, 0, 2020, 2021, 9998, 9999, 10000, i16::MAX] {
        for w in [i8::MIN, 0, 1, 52, 53, 54, i8::MAX] {
            for wd in 1..=7 {
                c.call("ISOWeekDate::new", format!("{y} {w} {wd}"), "constructor", || ISOWeekDate::new(y, w, wd_from(wd)).map(P::Iso));
            }
        }
    }
    for u in 0..10 {
        for v in [i64::MIN, i64::MIN + 1, -LIMS[u] - 1, -LIMS[u], LIMS[u], LIMS[u].saturating_add(1), i64::MAX] {
            c.call("Span::try_<unit>", format!("unit{u} {v}"), "constructor", || set_unit(Span::new(), u, v).map(P::Sp));
        }
    }

    // ---- civil date ------------------------------------------------------------
    for d in &ds {
        c.call("Date::tomorrow", format!("{d}"), "navigation", || d.tomorrow().map(P::D));
        c.call("Date::yesterday", format!("{d}"), "navigation", || d.yesterday().map(P::D));
        for nth in [i8::MIN, -6, -5, -1, 0, 1, 4, 5, 6, i8::MAX] {
            for wd in [1, 4, 7] {
                c.call("Date::nth_weekday_of_month", format!("{d} {nth} {wd}"), "navigation", || d.nth_weekday_of_month(nth, wd_from(wd)).map(P::D));
            }
        }
        for nth in [i32::MIN, -1_043_498, -1_043_497, -1, 0, 1, 1_043_497, 1_043_498, i32::MAX] {
            c.call("Date::nth_weekday", format!("{d} {nth}"), "navigation", || d.nth_weekday(nth, Weekday::Monday).map(P::D));
        }
        for v in [i16::MIN, -9999, 0, 2023, 2024, 9999, i16::MAX] {
            c.call("DateWith::year", format!("{d} {v}"), "with", || d.with().year(v).build().map(P::D));
            c.call("DateWith::day_of_year", format!("{d} {v}"), "with", || d.with().day_of_year(v).build().map(P::D));
            c.call("DateWith::day_of_year_no_leap", format!("{d} {v}"), "with", || d.with().day_of_year_no_leap(v).build().map(P::D));
            c.call("DateWith::era_year(CE)", format!("{d} {v}"), "with", || d.with().era_year(v, jiff::civil::Era::CE).build().map(P::D));
            c.call("DateWith::era_year(BCE)", format!("{d} {v}"), "with", || d.with().era_year(v, jiff::civil::Era::BCE).build().map(P::D));
        }
        for v in [i8::MIN, 0, 1, 2, 12, 13, 28, 29, 30, 31, 32, i8::MAX] {
            c.call("DateWith::month", format!("{d} {v}"), "with", || d.with().month(v).build().map(P::D));
            c.call("DateWith::day", format!("{d} {v}"), "with", || d.with().day(v).build().map(P::D));
        }
        for s in &sps {
            c.call("Date::checked_add(Span)", format!("{d} {}", sd(s)), "arithmetic", || d.checked_add(*s).map(P::D));
            c.call("Date::checked_sub(Span)", format!("{d} {}", sd(s)), "arithmetic", || d.checked_sub(*s).map(P::D));
            c.call("Date::saturating_add(Span)", format!("{d} {}", sd(s)), "arithmetic", || Ok(P::D(d.saturating_add(*s))));
        }
        for du in &dus {
            c.call("Date::checked_add(SignedDuration)", format!("{d} {du:?}"), "arithmetic", || d.checked_add(*du).map(P::D));
            c.call("Date::saturating_sub(SignedDuration)", format!("{d} {du:?}"), "arithmetic", || Ok(P::D(d.saturating_sub(*du))));
        }
        for e in &ds {
            for u in [Unit::Year, Unit::Month, Unit::Week, Unit::Day, Unit::Hour] {
                c.call("Date::until(largest)", format!("{d} {e} {u:?}"), "difference", || d.until((u, *e)).map(P::Sp));
            }
            c.call("Date::since", format!("{d} {e}"), "difference", || d.since(*e).map(P::Sp));
            c.call("Date::duration_until", format!("{d} {e}"), "difference", || Ok(P::Sd(d.duration_until(*e))));
            for (k, m) in MODES.iter().enumerate() {
                let inc = INCS[(k * 5 + e.day() as usize) % INCS.len()];
                let (sm, lg) = (UNITS[k % 4], UNITS[(k * 3) % 4]);
                c.call("Date::until(DateDifference)", format!("{d} {e} {sm:?} {lg:?} {m:?} {inc}"), "difference", || {
                    d.until(jiff::civil::DateDifference::new(*e).smallest(sm).largest(lg).mode(*m).increment(inc)).map(P::Sp)
                });
            }
        }
        for tz in &tzs {
            c.call("Date::to_zoned", format!("{d} {tz:?}"), "zone-conversion", || d.to_zoned(tz.clone()).map(P::Z));
        }
        for (k, s) in sps.iter().enumerate().filter(|(k, _)| k % 3 == 0) {
            c.call("Date::series", format!("{d} {} x{k}", sd(s)), "series", || {
                let mut last = *d;
                for x in d.series(*s).take(50) {
                    last = x;
                }
                Ok(P::D(last))
            });
        }
    }

    // ---- civil time --------------------------------------------------------------
    for t in &ts {
        for s in &sps {
            c.call("Time::checked_add(Span)", format!("{t} {}", sd(s)), "arithmetic", || t.checked_add(*s).map(P::T));
            c.call("Time::checked_sub(Span)", format!("{t} {}", sd(s)), "arithmetic", || t.checked_sub(*s).map(P::T));
            c.call("Time::wrapping_add(Span)", format!("{t} {}", sd(s)), "arithmetic", || Ok(P::T(t.wrapping_add(*s))));
            c.call("Time::saturating_sub(Span)", format!("{t} {}", sd(s)), "arithmetic", || Ok(P::T(t.saturating_sub(*s))));
        }
        for du in &dus {
            c.call("Time::checked_add(SignedDuration)", format!("{t} {du:?}"), "arithmetic", || t.checked_add(*du).map(P::T));
            c.call("Time::wrapping_sub(SignedDuration)", format!("{t} {du:?}"), "arithmetic", || Ok(P::T(t.wrapping_sub(*du))));
        }
        for e in &ts {
            for (k, m) in MODES.iter().enumerate() {
                for u in &UNITS[3..] {
                    let inc = INCS[(k + *u as usize) % INCS.len()];
                    c.call("Time::until(TimeDifference)", format!("{t} {e} {u:?} {m:?} {inc}"), "difference", || {
                        t.until(jiff::civil::TimeDifference::new(*e).smallest(*u).largest(UNITS[4 + k % 6]).mode(*m).increment(inc)).map(P::Sp)
                    });
                }
            }
        }
        for u in &UNITS {
            for m in &MODES {
                for inc in INCS {
                    c.call("Time::round", format!("{t} {u:?} {m:?} {inc}"), "round", || t.round(jiff::civil::TimeRound::new().smallest(*u).mode(*m).increment(inc)).map(P::T));
                }
            }
        }
        for v in [i8::MIN, -1, 0, 23, 24, 59, 60, i8::MAX] {
            c.call("TimeWith::hour", format!("{t} {v}"), "with", || t.with().hour(v).build().map(P::T));
            c.call("TimeWith::minute", format!("{t} {v}"), "with", || t.with().minute(v).build().map(P::T));
            c.call("TimeWith::second", format!("{t} {v}"), "with", || t.with().second(v).build().map(P::T));
        }
        for v in [i16::MIN, -1, 0, 999, 1000, i16::MAX] {
            c.call("TimeWith::millisecond", format!("{t} {v}"), "with", || t.with().millisecond(v).build().map(P::T));
            c.call("TimeWith::microsecond", format!("{t} {v}"), "with", || t.with().microsecond(v).build().map(P::T));
            c.call("TimeWith::nanosecond", format!("{t} {v}"), "with", || t.with().nanosecond(v).build().map(P::T));
        }
        for v in [i32::MIN, -1, 0, 999_999_999, 1_000_000_000, i32::MAX] {
            c.call("TimeWith::subsec_nanosecond", format!("{t} {v}"), "with", || t.with().subsec_nanosecond(v).build().map(P::T));
        }
    }

    // ---- civil datetime ------------------------------------------------------------
    for dt in &dts {
        for s in &sps {
            c.call("DateTime::checked_add(Span)", format!("{dt} {}", sd(s)), "arithmetic", || dt.checked_add(*s).map(P::Dt));
            c.call("DateTime::checked_sub(Span)", format!("{dt} {}", sd(s)), "arithmetic", || dt.checked_sub(*s).map(P::Dt));
            c.call("DateTime::saturating_add(Span)", format!("{dt} {}", sd(s)), "arithmetic", || Ok(P::Dt(dt.saturating_add(*s))));
        }
        for du in &dus {
            c.call("DateTime::checked_add(SignedDuration)", format!("{dt} {du:?}"), "arithmetic", || dt.checked_add(*du).map(P::Dt));
            c.call("DateTime::checked_sub(SignedDuration)", format!("{dt} {du:?}"), "arithmetic", || dt.checked_sub(*du).map(P::Dt));
        }
        for (j, e) in dts.iter().enumerate() {
            for (k, m) in MODES.iter().enumerate() {
                let sm = UNITS[(j + k) % 10];
                let lg = UNITS[(j * 7 + k * 3) % 10];
                let inc = INCS[(j + k * 3) % INCS.len()];
                c.call("DateTime::until(DateTimeDifference)", format!("{dt} {e} {sm:?} {lg:?} {m:?} {inc}"), "difference", || {
                    dt.until(jiff::civil::DateTimeDifference::new(*e).smallest(sm).largest(lg).mode(*m).increment(inc)).map(P::Sp)
                });
            }
            c.call("DateTime::since", format!("{dt} {e}"), "difference", || dt.since(*e).map(P::Sp));
            c.call("DateTime::duration_until", format!("{dt} {e}"), "difference", || Ok(P::Sd(dt.duration_until(*e))));
        }
        for u in &UNITS {
            for m in &MODES {
                for inc in INCS {
                    c.call("DateTime::round", format!("{dt} {u:?} {m:?} {inc}"), "round", || dt.round(jiff::civil::DateTimeRound::new().smallest(*u).mode(*m).increment(inc)).map(P::Dt));
                }
            }
        }
        for tz in &tzs {
            c.call("DateTime::to_zoned", format!("{dt} {tz:?}"), "zone-conversion", || dt.to_zoned(tz.clone()).map(P::Z));
            c.call("TimeZone::to_timestamp", format!("{dt} {tz:?}"), "zone-conversion", || tz.to_timestamp(*dt).map(P::Ts));
            for k in 0..4 {
                c.call("TimeZone::to_ambiguous_zoned.<strategy>", format!("{dt} {tz:?} {k}"), "zone-conversion", || {
                    let a = tz.to_ambiguous_zoned(*dt);
                    match k {
                        0 => a.compatible(),
                        1 => a.earlier(),
                        2 => a.later(),
                        _ => a.unambiguous(),
                    }
                    .map(P::Z)
                });
            }
        }
        for off in [Offset::MIN, Offset::MAX, Offset::UTC, Offset::from_seconds(1).unwrap(), Offset::from_seconds(-3600).unwrap()] {
            c.call("Offset::to_timestamp", format!("{dt} {off}"), "zone-conversion", || off.to_timestamp(*dt).map(P::Ts));
        }
        c.call("DateTime::tomorrow", format!("{dt}"), "navigation", || dt.tomorrow().map(P::Dt));
        c.call("DateTime::yesterday", format!("{dt}"), "navigation", || dt.yesterday().map(P::Dt));
        for nth in [-5i8, -1, 0, 1, 5] {
            c.call("DateTime::nth_weekday_of_month", format!("{dt} {nth}"), "navigation", || dt.nth_weekday_of_month(nth, Weekday::Friday).map(P::Dt));
        }
        for nth in [i32::MIN, -1, 0, 1, i32::MAX] {
            c.call("DateTime::nth_weekday", format!("{dt} {nth}"), "navigation", || dt.nth_weekday(nth, Weekday::Sunday).map(P::Dt));
        }
        for v in [i16::MIN, -9999, 1, 366, 9999, i16::MAX] {
            c.call("DateTimeWith::year+day_of_year", format!("{dt} {v}"), "with", || dt.with().year(v).day_of_year(v).build().map(P::Dt));
        }
        for v in [i8::MIN, 0, 12, 24, 31, 60, i8::MAX] {
            c.call("DateTimeWith::month/day/hour", format!("{dt} {v}"), "with", || dt.with().month(v).day(v).hour(v).build().map(P::Dt));
        }
    }

    // ---- timestamp ---------------------------------------------------------------------
    for t in &tss {
        for s in &sps {
            c.call("Timestamp::checked_add(Span)", format!("{t} {}", sd(s)), "arithmetic", || t.checked_add(*s).map(P::Ts));
            c.call("Timestamp::checked_sub(Span)", format!("{t} {}", sd(s)), "arithmetic", || t.checked_sub(*s).map(P::Ts));
            c.call("Timestamp::saturating_add(Span)", format!("{t} {}", sd(s)), "arithmetic", || t.saturating_add(*s).map(P::Ts));
        }
        for du in &dus {
            c.call("Timestamp::checked_add(SignedDuration)", format!("{t} {du:?}"), "arithmetic", || t.checked_add(*du).map(P::Ts));
            c.call("Timestamp::saturating_sub(SignedDuration)", format!("{t} {du:?}"), "arithmetic", || t.saturating_sub(*du).map(P::Ts));
        }
        for (j, e) in tss.iter().enumerate() {
            for (k, m) in MODES.iter().enumerate() {
                let sm = UNITS[(j + k) % 10];
                let lg = UNITS[(j * 7 + k * 3) % 10];
                let inc = INCS[(j + k * 3) % INCS.len()];
                c.call("Timestamp::until(TimestampDifference)", format!("{t} {e} {sm:?} {lg:?} {m:?} {inc}"), "difference", || {
                    t.until(jiff::TimestampDifference::new(*e).smallest(sm).largest(lg).mode(*m).increment(inc)).map(P::Sp)
                });
            }
            c.call("Timestamp::since", format!("{t} {e}"), "difference", || t.since(*e).map(P::Sp));
            c.call("Timestamp::duration_since", format!("{t} {e}"), "difference", || Ok(P::Sd(t.duration_since(*e))));
        }
        for u in &UNITS {
            for m in &MODES {
                for inc in INCS {
                    c.call("Timestamp::round", format!("{t} {u:?} {m:?} {inc}"), "round", || t.round(TimestampRound::new().smallest(*u).mode(*m).increment(inc)).map(P::Ts));
                }
            }
        }
        for tz in &tzs {
            c.call("TimeZone::to_offset/to_datetime", format!("{t} {tz:?}"), "zone-conversion", || {
                let _ = tz.to_offset_info(*t);
                Ok(P::Dt(tz.to_datetime(*t)))
            });
        }
        for (k, s) in sps.iter().enumerate().filter(|(k, _)| k % 3 == 1) {
            c.call("Timestamp::series", format!("{t} {} x{k}", sd(s)), "series", || {
                let mut last = *t;
                for x in t.series(*s).take(50) {
                    last = x;
                }
                Ok(P::Ts(last))
            });
        }
    }

    // ---- zoned -----------------------------------------------------------------------------
    for (i, z) in zs.iter().enumerate() {
        for s in &sps {
            c.call("Zoned::checked_add(Span)", format!("{z} {}", sd(s)), "arithmetic", || z.checked_add(*s).map(P::Z));
            c.call("Zoned::checked_sub(Span)", format!("{z} {}", sd(s)), "arithmetic", || z.checked_sub(*s).map(P::Z));
            c.call("Zoned::saturating_add(Span)", format!("{z} {}", sd(s)), "arithmetic", || Ok(P::Z(z.saturating_add(*s))));
        }
        for du in &dus {
            c.call("Zoned::checked_add(SignedDuration)", format!("{z} {du:?}"), "arithmetic", || z.checked_add(*du).map(P::Z));
            c.call("Zoned::saturating_sub(SignedDuration)", format!("{z} {du:?}"), "arithmetic", || Ok(P::Z(z.saturating_sub(*du))));
        }
        for (j, e) in zs.iter().enumerate().filter(|(j, _)| (i + j) % 5 == 0) {
            for (k, m) in MODES.iter().enumerate() {
                let sm = UNITS[(j + k) % 10];
                let lg = UNITS[(j * 7 + k * 3) % 10];
                let inc = INCS[(j + k * 3) % INCS.len()];
                c.call("Zoned::until(ZonedDifference)", format!("{z} {e} {sm:?} {lg:?} {m:?} {inc}"), "difference", || {
                    z.until(ZonedDifference::new(e).smallest(sm).largest(lg).mode(*m).increment(inc)).map(P::Sp)
                });
            }
            c.call("Zoned::since", format!("{z} {e}"), "difference", || z.since(e).map(P::Sp));
            c.call("Zoned::duration_until", format!("{z} {e}"), "difference", || Ok(P::Sd(z.duration_until(e))));
        }
        for u in &UNITS {
            for m in &MODES {
                for inc in [1i64, 2, 6, 24, 30, 60, 1000, 0, -1, i64::MAX] {
                    c.call("Zoned::round", format!("{z} {u:?} {m:?} {inc}"), "round", || z.round(ZonedRound::new().smallest(*u).mode(*m).increment(inc)).map(P::Z));
                }
            }
        }
        c.call("Zoned::start_of_day", format!("{z}"), "navigation", || z.start_of_day().map(P::Z));
        c.call("Zoned::end_of_day", format!("{z}"), "navigation", || z.end_of_day().map(P::Z));
        c.call("Zoned::tomorrow", format!("{z}"), "navigation", || z.tomorrow().map(P::Z));
        c.call("Zoned::yesterday", format!("{z}"), "navigation", || z.yesterday().map(P::Z));
        c.call("Zoned::first_of_month", format!("{z}"), "navigation", || z.first_of_month().map(P::Z));
        c.call("Zoned::last_of_month", format!("{z}"), "navigation", || z.last_of_month().map(P::Z));
        c.call("Zoned::first_of_year", format!("{z}"), "navigation", || z.first_of_year().map(P::Z));
        c.call("Zoned::last_of_year", format!("{z}"), "navigation", || z.last_of_year().map(P::Z));
        for nth in [-5i8, -1, 0, 1, 5] {
            c.call("Zoned::nth_weekday_of_month", format!("{z} {nth}"), "navigation", || z.nth_weekday_of_month(nth, Weekday::Monday).map(P::Z));
        }
        for nth in [i32::MIN, -1, 0, 1, i32::MAX] {
            c.call("Zoned::nth_weekday", format!("{z} {nth}"), "navigation", || z.nth_weekday(nth, Weekday::Saturday).map(P::Z));
        }
        for v in [i16::MIN, -9999, 1, 366, 2024, 9999, i16::MAX] {
            c.call("ZonedWith::year", format!("{z} {v}"), "with", || z.with().year(v).build().map(P::Z));
            c.call("ZonedWith::day_of_year", format!("{z} {v}"), "with", || z.with().day_of_year(v).build().map(P::Z));
        }
        for v in [i8::MIN, 0, 2, 12, 23, 24, 31, 59, 60, i8::MAX] {
            c.call("ZonedWith::month", format!("{z} {v}"), "with", || z.with().month(v).build().map(P::Z));
            c.call("ZonedWith::day", format!("{z} {v}"), "with", || z.with().day(v).build().map(P::Z));
            c.call("ZonedWith::hour", format!("{z} {v}"), "with", || z.with().hour(v).build().map(P::Z));
        }
        for t in &ts {
            c.call("ZonedWith::time", format!("{z} {t}"), "with", || z.with().time(*t).build().map(P::Z));
        }
        for d in ds.iter().step_by(3) {
            c.call("ZonedWith::date", format!("{z} {d}"), "with", || z.with().date(*d).build().map(P::Z));
        }
        for off in [Offset::MIN, Offset::MAX, Offset::UTC] {
            for oc in [jiff::tz::OffsetConflict::AlwaysOffset, jiff::tz::OffsetConflict::AlwaysTimeZone, jiff::tz::OffsetConflict::PreferOffset, jiff::tz::OffsetConflict::Reject] {
                c.call("ZonedWith::offset", format!("{z} {off} {oc:?}"), "with", || z.with().offset(off).offset_conflict(oc).build().map(P::Z));
            }
        }
        for tz in tzs.iter().step_by(2) {
            c.call("Zoned::with_time_zone", format!("{z} {tz:?}"), "zone-conversion", || Ok(P::Z(z.with_time_zone(tz.clone()))));
        }
    }

    // ---- span ---------------------------------------------------------------------------------
    let rel_dates = [Date::MIN, Date::MAX, Date::new(2024, 2, 29).unwrap(), Date::new(1970, 1, 1).unwrap()];
    let rel_dts = [DateTime::MIN, DateTime::MAX, DateTime::new(2024, 3, 10, 2, 30, 0, 0).unwrap()];
    let rel_zs: Vec<Zoned> = zs.iter().step_by(9).cloned().collect();
    for (i, s) in sps.iter().enumerate() {
        for k in [i64::MIN, -2, -1, 0, 1, 2, 1000, i64::MAX] {
            c.call("Span::checked_mul", format!("{} {k}", sd(s)), "span", || s.checked_mul(k).map(P::Sp));
        }
        c.call("Span::negate/abs", sd(s), "span", || Ok(P::Sp(s.negate().abs())));
        c.call("SignedDuration::try_from(Span)", sd(s), "span", || SignedDuration::try_from(*s).map(P::Sd));
        for (j, o) in sps.iter().enumerate().filter(|(j, _)| (i + j) % 3 == 0) {
            c.call("Span::checked_add", format!("{} {}", sd(s), sd(o)), "span", || s.checked_add(*o).map(P::Sp));
            c.call("Span::checked_sub", format!("{} {}", sd(s), sd(o)), "span", || s.checked_sub(*o).map(P::Sp));
            c.call("Span::compare", format!("{} {}", sd(s), sd(o)), "span", || s.compare(*o).map(|x| P::Int(x as i64)));
            for d in rel_dates {
                c.call("Span::checked_add(relative date)", format!("{} {} {d}", sd(s), sd(o)), "span", || s.checked_add((*o, d)).map(P::Sp));
                c.call("Span::compare(relative date)", format!("{} {} {d}", sd(s), sd(o)), "span", || s.compare((*o, d)).map(|x| P::Int(x as i64)));
            }
            for z in rel_zs.iter().step_by(3) {
                c.call("Span::checked_sub(relative zoned)", format!("{} {} {z}", sd(s), sd(o)), "span", || s.checked_sub((*o, z)).map(P::Sp));
            }
            c.call("Span::checked_add(days are 24h)", format!("{} {}", sd(s), sd(o)), "span", || s.checked_add(SpanArithmetic::from(*o).days_are_24_hours()).map(P::Sp));
        }
        for du in dus.iter().step_by(2) {
            c.call("Span::checked_add(SignedDuration)", format!("{} {du:?}", sd(s)), "span", || s.checked_add(*du).map(P::Sp));
        }
        for u in &UNITS {
            c.call("Span::total", format!("{} {u:?}", sd(s)), "span", || s.total(*u).map(P::F));
            c.call("Span::total(days are 24h)", format!("{} {u:?}", sd(s)), "span", || s.total(SpanTotal::from(*u).days_are_24_hours()).map(P::F));
            for d in rel_dates {
                c.call("Span::total(relative date)", format!("{} {u:?} {d}", sd(s)), "span", || s.total((*u, d)).map(P::F));
            }
            for d in rel_dts {
                c.call("Span::total(relative datetime)", format!("{} {u:?} {d}", sd(s)), "span", || s.total((*u, d)).map(P::F));
            }
            for z in &rel_zs {
                c.call("Span::total(relative zoned)", format!("{} {u:?} {z}", sd(s)), "span", || s.total((*u, z)).map(P::F));
            }
            for (k, m) in MODES.iter().enumerate() {
                let lg = UNITS[(k * 3 + i) % 10];
                let inc = INCS[(k * 5 + i) % INCS.len()];
                c.call("Span::round", format!("{} {u:?} {lg:?} {m:?} {inc}", sd(s)), "span", || s.round(SpanRound::new().smallest(*u).largest(lg).mode(*m).increment(inc)).map(P::Sp));
                c.call("Span::round(days are 24h)", format!("{} {u:?} {lg:?} {m:?} {inc}", sd(s)), "span", || {
                    s.round(SpanRound::new().smallest(*u).largest(lg).mode(*m).increment(inc).days_are_24_hours()).map(P::Sp)
                });
                let d = rel_dates[k % rel_dates.len()];
                c.call("Span::round(relative date)", format!("{} {u:?} {lg:?} {m:?} {inc} {d}", sd(s)), "span", || {
                    s.round(SpanRound::new().smallest(*u).largest(lg).mode(*m).increment(inc).relative(d)).map(P::Sp)
                });
                let d = rel_dts[k % rel_dts.len()];
                c.call("Span::round(relative datetime)", format!("{} {u:?} {lg:?} {m:?} {inc} {d}", sd(s)), "span", || {
                    s.round(SpanRound::new().smallest(*u).largest(lg).mode(*m).increment(inc).relative(d)).map(P::Sp)
                });
                let z = &rel_zs[(k + i) % rel_zs.len()];
                c.call("Span::round(relative zoned)", format!("{} {u:?} {lg:?} {m:?} {inc} {z}", sd(s)), "span", || {
                    s.round(SpanRound::new().smallest(*u).largest(lg).mode(*m).increment(inc).relative(z)).map(P::Sp)
                });
            }
        }
        for d in rel_dates {
            c.call("Span::to_duration(relative date)", format!("{} {d}", sd(s)), "span", || s.to_duration(d).map(P::Sd));
        }
        for z in &rel_zs {
            c.call("Span::to_duration(relative zoned)", format!("{} {z}", sd(s)), "span", || s.to_duration(z).map(P::Sd));
        }
        c.call("Span::to_duration(days are 24h)", sd(s), "span", || s.to_duration(SpanRelativeTo::days_are_24_hours()).map(P::Sd));
    }

    // ---- signed duration and offset -----------------------------------------------------------
    for d in &dus {
        for u in &UNITS {
            for m in &MODES {
                for inc in INCS {
                    c.call("SignedDuration::round", format!("{d:?} {u:?} {m:?} {inc}"), "duration", || d.round(jiff::SignedDurationRound::new().smallest(*u).mode(*m).increment(inc)).map(P::Sd));
                }
            }
        }
        for e in &dus {
            c.call("SignedDuration::checked_add", format!("{d:?} {e:?}"), "duration", || Ok(d.checked_add(*e).map(P::Sd).unwrap_or(P::None)));
            c.call("SignedDuration::checked_sub", format!("{d:?} {e:?}"), "duration", || Ok(d.checked_sub(*e).map(P::Sd).unwrap_or(P::None)));
            c.call("SignedDuration::saturating_add", format!("{d:?} {e:?}"), "duration", || Ok(P::Sd(d.saturating_add(*e))));
        }
        for k in [i32::MIN, -1, 0, 1, 2, i32::MAX] {
            c.call("SignedDuration::checked_mul", format!("{d:?} {k}"), "duration", || Ok(d.checked_mul(k).map(P::Sd).unwrap_or(P::None)));
            c.call("SignedDuration::checked_div", format!("{d:?} {k}"), "duration", || Ok(d.checked_div(k).map(P::Sd).unwrap_or(P::None)));
            c.call("SignedDuration::saturating_mul", format!("{d:?} {k}"), "duration", || Ok(P::Sd(d.saturating_mul(k))));
        }
        c.call("SignedDuration::checked_neg", format!("{d:?}"), "duration", || Ok(d.checked_neg().map(P::Sd).unwrap_or(P::None)));
        for off in [Offset::MIN, Offset::MAX, Offset::UTC, Offset::from_seconds(-1).unwrap()] {
            c.call("Offset::checked_add(SignedDuration)", format!("{off} {d:?}"), "offset", || off.checked_add(*d).map(P::Off));
            c.call("Offset::saturating_sub(SignedDuration)", format!("{off} {d:?}"), "offset", || Ok(P::Off(off.saturating_sub(*d))));
        }
    }
    for secs in [-93_599, -93_570, -93_569, -1801, -1800, -30, -29, 0, 29, 30, 1800, 93_569, 93_570, 93_599] {
        let off = Offset::from_seconds(secs).unwrap();
        for u in &UNITS {
            for m in &MODES {
                for inc in [1i64, 15, 30, 60, 0, -1, 1000, i64::MAX] {
                    c.call("Offset::round", format!("{off} {u:?} {m:?} {inc}"), "offset", || off.round(jiff::tz::OffsetRound::new().smallest(*u).mode(*m).increment(inc)).map(P::Off));
                }
            }
        }
        for s in sps.iter().step_by(2) {
            c.call("Offset::checked_add(Span)", format!("{off} {}", sd(s)), "offset", || off.checked_add(*s).map(P::Off));
        }
    }
    for w in [ISOWeekDate::MIN, ISOWeekDate::MAX, ISOWeekDate::ZERO] {
        c.call("ISOWeekDate::tomorrow", format!("{w:?}"), "navigation", || w.tomorrow().map(P::Iso));
        c.call("ISOWeekDate::yesterday", format!("{w:?}"), "navigation", || w.yesterday().map(P::Iso));
        c.call("ISOWeekDate::first_of_week", format!("{w:?}"), "navigation", || w.first_of_week().map(P::Iso));
        c.call("ISOWeekDate::last_of_week", format!("{w:?}"), "navigation", || w.last_of_week().map(P::Iso));
        c.call("ISOWeekDate::first_of_year", format!("{w:?}"), "navigation", || w.first_of_year().map(P::Iso));
        c.call("ISOWeekDate::last_of_year", format!("{w:?}"), "navigation", || w.last_of_year().map(P::Iso));
    }
    c.out.finish();
}
