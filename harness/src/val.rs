//! C12 driver: Span and SignedDuration as value types.

use crate::civ::LIM;
use crate::common::*;
use jiff::{SignedDuration, Span};
use serde_json::{json, Value};

fn jsd(d: SignedDuration) -> Value {
    json!([big(d.as_secs() as i128), d.subsec_nanos()])
}
fn opt(r: Result<Option<SignedDuration>, String>) -> Value {
    match r {
        Ok(Some(d)) => json!({"st":"ok","v":jsd(d)}),
        Ok(None) => json!({"st":"none"}),
        Err(_) => json!({"st":"panic"}),
    }
}
fn gets(s: &Span) -> Value {
    json!([
        big(s.get_years() as i128), big(s.get_months() as i128), big(s.get_weeks() as i128), big(s.get_days() as i128),
        big(s.get_hours() as i128), big(s.get_minutes() as i128), big(s.get_seconds() as i128),
        big(s.get_milliseconds() as i128), big(s.get_microseconds() as i128), big(s.get_nanoseconds() as i128)
    ])
}

fn set_unit(s: Span, i: usize, v: i64) -> Result<Span, jiff::Error> {
    match i {
        0 => s.try_years(v),
        1 => s.try_months(v),
        2 => s.try_weeks(v),
        3 => s.try_days(v),
        4 => s.try_hours(v),
        5 => s.try_minutes(v),
        6 => s.try_seconds(v),
        7 => s.try_milliseconds(v),
        8 => s.try_microseconds(v),
        _ => s.try_nanoseconds(v),
    }
}

fn unit_value(rng: &mut Rng, i: usize) -> i64 {
    let lim = LIM[i].1;
    let mag = match rng.next() % 9 {
        0 => 0,
        1 => lim,
        2 => lim.saturating_add(1),
        3 => lim - 1,
        4 => 1,
        5 => rng.range(1, 100),
        6 => i64::MAX,
        7 => rng.range(1, lim),
        _ => rng.range(lim, i64::MAX),
    };
    if rng.chance(1, 2) {
        mag
    } else if mag == i64::MAX && rng.chance(1, 2) {
        i64::MIN
    } else {
        -mag
    }
}

fn span_build(rng: &mut Rng, n: usize) -> Value {
    let mut s = Span::new();
    let mut steps = Vec::new();
    let mut cls = "plain";
    for _ in 0..n {
        let i = (rng.next() % 10) as usize;
        let v = unit_value(rng, i);
        let r = guard(|| set_unit(s, i, v));
        let st = match &r {
            Ok(Ok(ns)) => {
                s = *ns;
                "ok"
            }
            Ok(Err(_)) => {
                cls = "beyond-limit";
                "err"
            }
            Err(_) => "panic",
        };
        if v < 0 && cls == "plain" {
            cls = "sign-change";
        }
        steps.push(json!({"i": i + 1, "v": big(v as i128), "st": st, "get": gets(&s), "sign": s.signum()}));
    }
    json!({"op":"span_build","cls":cls,"steps":steps})
}

fn span_ops(s: Span, other: Span, k: i64, cls: &str) -> Value {
    let r = guard(|| {
        let mul = match guard(|| s.checked_mul(k)) {
            Ok(Ok(m)) => json!({"st":"ok","g":gets(&m)}),
            Ok(Err(_)) => json!({"st":"err"}),
            Err(_) => json!({"st":"panic"}),
        };
        let tosd = match guard(|| SignedDuration::try_from(s)) {
            Ok(Ok(d)) => json!({"st":"ok","v":jsd(d)}),
            Ok(Err(_)) => json!({"st":"none"}),
            Err(_) => json!({"st":"panic"}),
        };
        json!({"g":gets(&s),"og":gets(&other),"k":big(k as i128),"neg":gets(&s.negate()),"abs":gets(&s.abs()),"mul":mul,
               "fw_self": if s.fieldwise() == s.fieldwise() {1} else {0},
               "fw_other": if s.fieldwise() == other.fieldwise() {1} else {0},"tosd":tosd})
    });
    let mut v = r.unwrap_or(json!({"panic":1}));
    let o = v.as_object_mut().unwrap();
    o.insert("op".into(), json!("span_ops"));
    o.insert("cls".into(), json!(cls));
    v
}

fn f64_parts(x: f64) -> Value {
    if x.is_nan() {
        return json!({"kind":"nan","s":0,"m":big(0),"e":0});
    }
    if x.is_infinite() {
        return json!({"kind":"inf","s": if x > 0.0 {1} else {-1},"m":big(0),"e":0});
    }
    let bits = x.to_bits();
    let sign = if bits >> 63 == 1 { -1 } else { 1 };
    let exp = ((bits >> 52) & 0x7ff) as i64;
    let frac = bits & ((1u64 << 52) - 1);
    let (m, e) = if exp == 0 { (frac, -1074) } else { (frac | (1u64 << 52), exp - 1075) };
    json!({"kind":"finite","s": if m == 0 {0} else {sign},"m":big(m as i128),"e":e})
}

fn sd_pool(rng: &mut Rng, n: usize) -> Vec<SignedDuration> {
    let mut v = vec![
        SignedDuration::ZERO, SignedDuration::MIN, SignedDuration::MAX, SignedDuration::new(0, 1), SignedDuration::new(0, -1),
        SignedDuration::new(i64::MAX, 0), SignedDuration::new(i64::MIN, 0), SignedDuration::new(i64::MIN, -1),
        SignedDuration::new(i64::MIN + 1, -999_999_999), SignedDuration::new(i64::MAX - 1, 999_999_999),
        SignedDuration::new(1, 2), SignedDuration::new(-1, -2), SignedDuration::new(3, 4), SignedDuration::new(-785360354, -500000000),
        SignedDuration::new(12, 500_000_000), SignedDuration::new(i64::MAX / 2 + 1, 0), SignedDuration::new(i64::MIN / 2, 0),
        SignedDuration::new(631_107_417_600, 0), SignedDuration::new(-631_107_417_601, 0),
        SignedDuration::new(0, -999_999_999), SignedDuration::new(0, 999_999_999), SignedDuration::new(0, -500_000_000),
    ];
    for _ in 0..n {
        let secs = match rng.next() % 6 {
            5 => rng.range(-1, 1),
            0 => rng.range(-1000, 1000),
            1 => rng.range(i64::MIN, i64::MAX),
            2 => *rng.pick(&[i64::MIN, i64::MAX, i64::MIN + 1, i64::MAX - 1, 0]),
            3 => rng.range(-631_107_417_700, 631_107_417_700),
            _ => rng.range(i64::MIN / 2 - 5, i64::MAX / 2 + 5),
        };
        let ns = match rng.next() % 4 {
            0 => 0,
            1 => 999_999_999,
            _ => rng.range(0, 999_999_999) as i32,
        };
        // below one second the sign lives in the nanoseconds alone
        let neg = secs < 0 || (secs == 0 && rng.chance(1, 2));
        v.push(SignedDuration::new(secs, if neg { -ns } else { ns }));
    }
    v
}

pub fn run(a: &Args) {
    let mut out = Out::new(&a.out, "c12", 10_000);
    let mut rng = Rng::new(a.seed, 12);
    let quick = a.quick();
    // ---- Span setters in every order, inside and outside the limits -----------
    for _ in 0..(if quick { 6000 } else { 80_000 }) {
        let n = 1 + (rng.next() % 8) as usize;
        out.emit(span_build(&mut rng, n));
    }
    // ---- Span operations ----------------------------------------------------------------
    let all: Vec<usize> = (0..10).collect();
    for _ in 0..(if quick { 6000 } else { 80_000 }) {
        let s = crate::civ::gen_span(&mut rng, &all);
        let other = if rng.chance(1, 3) { s } else { crate::civ::gen_span(&mut rng, &all) };
        let k = match rng.next() % 6 {
            0 => 0,
            1 => *rng.pick(&[1i64, -1, 2, -2]),
            2 => *rng.pick(&[i64::MAX, i64::MIN, i64::MIN + 1]),
            3 => rng.range(-50, 50),
            _ => {
                // around limit / |v| of some unit
                let g = [s.get_years() as i64, s.get_months() as i64, s.get_weeks() as i64, s.get_days() as i64, s.get_hours() as i64,
                         s.get_minutes(), s.get_seconds(), s.get_milliseconds(), s.get_microseconds(), s.get_nanoseconds()];
                let i = (rng.next() % 10) as usize;
                if g[i] != 0 { (LIM[i].1 / g[i].abs()).saturating_add(rng.range(-1, 1)) } else { rng.range(-5, 5) }
            }
        };
        let cls = if k.unsigned_abs() > 1 { "mul" } else { "plain" };
        out.emit(span_ops(s, other, k, cls));
    }
    // a small value of one unit times a factor at the limit of ANY unit (a multiplier is in range for a unit
    // iff the product is: the limit that applies is the multiplied unit's own, not a neighbour's)
    for i in 0..10 {
        for j in 0..10 {
            for v in [1i64, 2, -1] {
                let mut u = [0i64; 10];
                u[i] = v.abs();
                let Some(sp) = crate::civ::mkspan(u, v < 0) else { continue };
                for k in [LIM[j].1 - 1, LIM[j].1, LIM[j].1.saturating_add(1), -LIM[j].1, LIM[j].1 / 2] {
                    out.emit(span_ops(sp, sp, k, "mul-at-a-limit"));
                }
            }
        }
    }
    // ---- SignedDuration ---------------------------------------------------------------------
    let pool = sd_pool(&mut rng, if quick { 300 } else { 4000 });
    for (i, &x) in pool.iter().enumerate() {
        for j in 0..(if quick { 14 } else { 40 }) {
            // the first ten pool entries are the limit values: every x meets each of them
            let y = if j < 10 { pool[j] } else { pool[(i * 7 + j * 13 + 1) % pool.len()] };
            let cls = if x.as_secs() == i64::MIN || y.as_secs() == i64::MIN { "i64-min" } else if x.is_negative() != y.is_negative() { "mixed-sign" } else { "plain" };
            out.emit(json!({"op":"sd_bin","cls":cls,"a":jsd(x),"b":jsd(y),
                            "add":opt(guard(|| x.checked_add(y))),"sub":opt(guard(|| x.checked_sub(y))),
                            "sadd":guard(|| x.saturating_add(y)).map(jsd).unwrap_or(json!([big(0), 1_000_000_000])),
                            "ssub":guard(|| x.saturating_sub(y)).map(jsd).unwrap_or(json!([big(0), 1_000_000_000]))}));
        }
        for &k in &[0i32, 1, -1, 2, -2, 3, 7, -7, 10, 1000, i32::MAX, i32::MIN, rng.range(-100_000, 100_000) as i32, rng.range(i32::MIN as i64, i32::MAX as i64) as i32] {
            let cls = if k == 0 { "zero-factor" } else if k < 0 { "negative-factor" } else { "plain" };
            out.emit(json!({"op":"sd_muldiv","cls":cls,"a":jsd(x),"k":k,
                            "mul":opt(guard(|| x.checked_mul(k))),
                            "smul":guard(|| x.saturating_mul(k)).map(jsd).unwrap_or(json!([big(0), 1_000_000_000])),
                            "div":opt(guard(|| x.checked_div(k)))}));
        }
        let tostd = match guard(|| std::time::Duration::try_from(x)) {
            Ok(Ok(d)) => json!({"st":"ok","v":[big(d.as_secs() as i128), d.subsec_nanos()]}),
            Ok(Err(_)) => json!({"st":"none"}),
            Err(_) => json!({"st":"panic"}),
        };
        let ua = x.unsigned_abs();
        out.emit(json!({"op":"sd_unary","cls": if x.is_negative() {"negative"} else {"plain"},"a":jsd(x),
                        "neg":opt(guard(|| x.checked_neg())),"as_ms":big(x.as_millis()),"as_us":big(x.as_micros()),"as_ns":big(x.as_nanos()),
                        "as_h":big(x.as_hours() as i128),"as_m":big(x.as_mins() as i128),"sub_ms":x.subsec_millis(),"sub_us":x.subsec_micros(),
                        "sign":x.signum(),"zero": if x.is_zero() {1} else {0},"isneg": if x.is_negative() {1} else {0},
                        "ispos": if x.is_positive() {1} else {0},"uabs":[big(ua.as_secs() as i128), ua.subsec_nanos()],"tostd":tostd}));
        let (st, g) = match guard(|| Span::try_from(x)) {
            Ok(Ok(s)) => ("ok", gets(&s)),
            Ok(Err(_)) => ("none", json!([])),
            Err(_) => ("panic", json!([])),
        };
        out.emit(json!({"op":"sd_tospan","cls":"conversion","a":jsd(x),"st":st,"g":g}));
        out.emit(json!({"op":"sd_tofloat","cls":"float","a":jsd(x),"f":f64_parts(x.as_secs_f64())}));
    }
    // constructors
    for u in ["s", "ms", "us", "ns", "h", "mi"] {
        let mut vals: Vec<i64> = vec![0, 1, -1, i64::MAX, i64::MIN, i64::MAX / 3600, i64::MAX / 3600 + 1, i64::MIN / 3600, i64::MIN / 3600 - 1,
                                      i64::MAX / 60, i64::MAX / 60 + 1, i64::MIN / 60, i64::MIN / 60 - 1, 999, -999, 1_000_000_007];
        for _ in 0..(if quick { 60 } else { 2000 }) {
            vals.push(rng.range(i64::MIN, i64::MAX));
            vals.push(rng.range(-4_000_000_000_000_000, 4_000_000_000_000_000));
        }
        for v in vals {
            let r = guard(|| match u {
                "s" => SignedDuration::from_secs(v),
                "ms" => SignedDuration::from_millis(v),
                "us" => SignedDuration::from_micros(v),
                "ns" => SignedDuration::from_nanos(v),
                "h" => SignedDuration::from_hours(v),
                _ => SignedDuration::from_mins(v),
            });
            let (st, rr) = match r {
                Ok(d) => ("ok", jsd(d)),
                Err(_) => ("panic", json!([big(0), 0])),
            };
            out.emit(json!({"op":"sd_from","cls": if v < 0 {"negative"} else {"plain"},"u":u,"v":big(v as i128),"st":st,"r":rr}));
        }
    }
    for _ in 0..(if quick { 3000 } else { 60_000 }) {
        let secs = match rng.next() % 4 {
            0 => *rng.pick(&[i64::MIN, i64::MAX, i64::MIN + 1, i64::MIN + 2, i64::MAX - 1, i64::MAX - 2, 0, 1, -1]),
            1 => rng.range(-5, 5),
            _ => rng.range(i64::MIN, i64::MAX),
        };
        let nanos = match rng.next() % 4 {
            0 => *rng.pick(&[i32::MIN, i32::MAX, 1_000_000_000, -1_000_000_000, 999_999_999, -999_999_999, 0, 2_000_000_001]),
            _ => rng.range(i32::MIN as i64, i32::MAX as i64) as i32,
        };
        let r = guard(|| SignedDuration::new(secs, nanos));
        let (st, rr) = match r {
            Ok(d) => ("ok", jsd(d)),
            Err(_) => ("panic", json!([big(0), 0])),
        };
        let cls = if (secs > 0 && nanos < 0) || (secs < 0 && nanos > 0) { "mixed-sign" } else if nanos.unsigned_abs() >= 1_000_000_000 { "nanos-carry" } else { "plain" };
        out.emit(json!({"op":"sd_new","cls":cls,"secs":big(secs as i128),"nanos":nanos,"st":st,"r":rr}));
    }
    for _ in 0..(if quick { 600 } else { 10_000 }) {
        let usecs = match rng.next() % 3 {
            0 => *rng.pick(&[0u64, 1, i64::MAX as u64, i64::MAX as u64 + 1, u64::MAX]),
            _ => rng.next(),
        };
        let unanos = rng.range(0, 999_999_999) as u32;
        let r = guard(|| SignedDuration::try_from(std::time::Duration::new(usecs, unanos)));
        let (st, rr) = match r {
            Ok(Ok(d)) => ("ok", jsd(d)),
            Ok(Err(_)) => ("none", json!([big(0), 0])),
            Err(_) => ("panic", json!([big(0), 0])),
        };
        out.emit(json!({"op":"sd_std","cls": if usecs > i64::MAX as u64 {"overflow"} else {"plain"},"usecs":big(usecs as i128),"unanos":unanos,"st":st,"r":rr}));
    }
    // floats -> durations
    let mut floats: Vec<f64> = vec![
        0.0, -0.0, f64::NAN, f64::INFINITY, f64::NEG_INFINITY, f64::MIN, f64::MAX, f64::MIN_POSITIVE, 5e-324, 1e-10, -1e-10,
        0.1, -0.1, 12.123456789, -12.123456789, 0.9999999995, -0.9999999995, 0.9999999994, 1.9999999996, 9223372036854775807.0,
        9223372036854775808.0, -9223372036854775808.0, 9223372036854774784.0, -9223372036854777856.0, 1e19, -1e19, 4503599627370496.5,
        4503599627370495.5, 0.5e-9, 1.5e-9, 2.5e-9, -0.5e-9, 1e300, -1e300,
    ];
    for _ in 0..(if quick { 1500 } else { 30_000 }) {
        floats.push(match rng.next() % 4 {
            0 => rng.range(-1_000_000, 1_000_000) as f64 + rng.range(0, 999_999_999) as f64 / 1e9,
            1 => f64::from_bits(rng.next()),
            2 => (rng.range(i64::MIN, i64::MAX) as f64) * *rng.pick(&[1.0, 0.5, 0.001]),
            _ => rng.range(-1000, 1000) as f64 / 1024.0,
        });
    }
    for x in floats {
        let r = guard(|| SignedDuration::try_from_secs_f64(x));
        let from = match r {
            Ok(Ok(d)) => json!({"st":"ok","v":jsd(d)}),
            Ok(Err(_)) => json!({"st":"none"}),
            Err(_) => json!({"st":"panic"}),
        };
        let cls = if !x.is_finite() { "non-finite" } else if x.abs() >= 9e18 { "boundary" } else if x < 0.0 { "negative" } else { "plain" };
        out.emit(json!({"op":"sd_float","cls":cls,"f":f64_parts(x),"from":from}));
    }
    // duration x float, duration / float, duration / duration (documented to panic when the result is not representable)
    let factors: Vec<f64> = {
        let mut v = vec![0.0, -0.0, 1.0, -1.0, 0.5, 2.0, 1e-9, 1e9, 3.141592653589793, -2.718281828459045, 1e-300, 1e300, f64::NAN, f64::INFINITY,
                         f64::NEG_INFINITY, 0.1, 1.0 / 3.0, 4294967296.0, 9.223372036854775e18, 1.0000000000000002, 0.9999999999999999];
        for _ in 0..(if quick { 40 } else { 600 }) {
            v.push(match rng.next() % 3 {
                0 => rng.range(-1_000_000, 1_000_000) as f64 / 1000.0,
                1 => f64::from_bits(rng.next()),
                _ => (rng.range(1, 1 << 52) as f64) * 2f64.powi(rng.range(-80, 30) as i32) * if rng.chance(1, 2) { -1.0 } else { 1.0 },
            });
        }
        v
    };
    let durs: Vec<SignedDuration> = {
        let mut v = vec![SignedDuration::ZERO, SignedDuration::MAX, SignedDuration::MIN, SignedDuration::new(1, 0), SignedDuration::new(-1, 0),
                         SignedDuration::new(0, 1), SignedDuration::new(0, -1), SignedDuration::new(12, 500_000_000), SignedDuration::new(-3600, -1),
                         SignedDuration::new(1 << 53, 1), SignedDuration::new(-(1 << 53), -999_999_999), SignedDuration::new(631_107_417_600, 0)];
        for _ in 0..(if quick { 30 } else { 300 }) {
            let sec = match rng.next() % 3 {
                0 => rng.range(-1_000_000, 1_000_000),
                1 => rng.range(i64::MIN / 2, i64::MAX / 2),
                _ => rng.range(-100_000_000_000, 100_000_000_000),
            };
            let ns = rng.range(0, 999_999_999) as i32;
            v.push(SignedDuration::new(sec, if sec < 0 { -ns } else { ns }));
        }
        v
    };
    let fres = |r: Result<SignedDuration, String>| match r {
        Ok(d) => json!({"st":"ok","v":jsd(d)}),
        Err(_) => json!({"st":"panic","v":jsd(SignedDuration::ZERO)}),
    };
    for d in &durs {
        for &f in &factors {
            let cls = if !f.is_finite() { "non-finite" } else if f == 0.0 { "zero-factor" } else { "float-arith" };
            out.emit(json!({"op":"sd_fmul","cls":cls,"kind":"mul","a":jsd(*d),"f":f64_parts(f),"res":fres(guard(|| d.mul_f64(f)))}));
            out.emit(json!({"op":"sd_fmul","cls":cls,"kind":"div","a":jsd(*d),"f":f64_parts(f),"res":fres(guard(|| d.div_f64(f)))}));
        }
        for e in durs.iter().step_by(3) {
            let q = guard(|| d.div_duration_f64(*e));
            let (st, qf) = match q {
                Ok(x) => ("ok", f64_parts(x)),
                Err(_) => ("panic", f64_parts(0.0)),
            };
            out.emit(json!({"op":"sd_fratio","cls":"float-arith","a":jsd(*d),"b":jsd(*e),"st":st,"q":qf}));
        }
    }
    out.finish();
}
