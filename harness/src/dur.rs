//! C15 driver: Span and SignedDuration through the ISO 8601 and the
//! friendly printers/parsers, over printer configurations.

use crate::civ::{gen_span, jspan, mkspan, LIM};
use crate::common::*;
use crate::text::codes;
use jiff::fmt::friendly::{Designator, Direction, FractionalUnit, Spacing, SpanParser, SpanPrinter};
use jiff::fmt::temporal;
use jiff::{SignedDuration, Span, Unit};
use serde_json::{json, Value};

fn jsd(d: SignedDuration) -> Value {
    json!([big(d.as_secs() as i128), d.subsec_nanos()])
}

#[derive(Clone, Copy)]
struct Cfg {
    des: usize,
    spacing: usize,
    dir: usize,
    frac: usize,
    comma: bool,
    hms: bool,
    pad: u8,
    prec: i64,
    zero: usize,
}

fn printer(c: &Cfg) -> SpanPrinter {
    let mut p = SpanPrinter::new()
        .designator([Designator::Compact, Designator::Short, Designator::Verbose, Designator::HumanTime][c.des])
        .spacing([Spacing::None, Spacing::BetweenUnits, Spacing::BetweenUnitsAndDesignators][c.spacing])
        .direction([Direction::Auto, Direction::Sign, Direction::ForceSign, Direction::Suffix][c.dir])
        .fractional([None, Some(FractionalUnit::Hour), Some(FractionalUnit::Minute), Some(FractionalUnit::Second),
                     Some(FractionalUnit::Millisecond), Some(FractionalUnit::Microsecond)][c.frac])
        .comma_after_designator(c.comma)
        .hours_minutes_seconds(c.hms)
        .zero_unit([Unit::Second, Unit::Year, Unit::Day, Unit::Nanosecond, Unit::Hour][c.zero]);
    if c.pad > 0 {
        p = p.padding(c.pad);
    }
    if c.prec >= 0 {
        p = p.precision(Some(c.prec as u8));
    }
    p
}
fn jcfg(c: &Cfg) -> Value {
    json!({"des":c.des,"spacing":c.spacing,"dir":c.dir,"frac":c.frac,"comma": if c.comma {1} else {0},"hms": if c.hms {1} else {0},
           "pad":c.pad,"prec":c.prec,"zero":c.zero})
}
fn gen_cfg(rng: &mut Rng) -> Cfg {
    Cfg {
        des: (rng.next() % 4) as usize,
        spacing: (rng.next() % 3) as usize,
        dir: (rng.next() % 4) as usize,
        frac: if rng.chance(1, 3) { 0 } else { (rng.next() % 6) as usize },
        comma: rng.chance(1, 4),
        hms: rng.chance(1, 4),
        pad: *rng.pick(&[0u8, 0, 2, 4]),
        prec: if rng.chance(1, 2) { -1 } else { rng.range(0, 9) },
        zero: (rng.next() % 5) as usize,
    }
}
const DEFAULT: Cfg = Cfg { des: 0, spacing: 1, dir: 0, frac: 0, comma: false, hms: false, pad: 0, prec: -1, zero: 0 };

fn fr_span(s: Span, c: &Cfg, cls: &str) -> Value {
    static PARSER: SpanParser = SpanParser::new();
    let r = guard(|| {
        let text = printer(c).span_to_string(&s);
        let p = PARSER.parse_span(&text);
        (text, p)
    });
    match r {
        Ok((text, Ok(p))) => json!({"op":"fr_span","cls":cls,"o":jspan(&s),"cfg":jcfg(c),"text":codes(&text),"s":text,"st":"ok","p":jspan(&p)}),
        Ok((text, Err(e))) => json!({"op":"fr_span","cls":cls,"o":jspan(&s),"cfg":jcfg(c),"text":codes(&text),"s":text,"st":"err","p":jspan(&Span::new()),"msg":e.to_string()}),
        Err(m) => json!({"op":"fr_span","cls":cls,"o":jspan(&s),"cfg":jcfg(c),"text":[],"s":m,"st":"panic","p":jspan(&Span::new())}),
    }
}
fn fr_sd(d: SignedDuration, c: &Cfg, cls: &str) -> Value {
    static PARSER: SpanParser = SpanParser::new();
    // a zero *duration* printed with a calendar zero-unit ("0y") is a
    // configuration conflict, not a round-trip question: the zero unit of
    // durations is kept to hours and smaller
    let c = &Cfg { zero: [0usize, 3, 4, 3, 4][c.zero], ..*c };
    let r = guard(|| {
        let text = printer(c).duration_to_string(&d);
        let p = PARSER.parse_duration(&text);
        (text, p)
    });
    match r {
        Ok((text, Ok(p))) => json!({"op":"fr_sd","cls":cls,"o":jsd(d),"cfg":jcfg(c),"text":codes(&text),"s":text,"st":"ok","p":jsd(p),"imin": if d.as_secs() == i64::MIN {1} else {0}}),
        Ok((text, Err(e))) => json!({"op":"fr_sd","cls":cls,"o":jsd(d),"cfg":jcfg(c),"text":codes(&text),"s":text,"st":"err","p":jsd(SignedDuration::ZERO),"msg":e.to_string(),"imin": if d.as_secs() == i64::MIN {1} else {0}}),
        Err(m) => json!({"op":"fr_sd","cls":cls,"o":jsd(d),"cfg":jcfg(c),"text":[],"s":m,"st":"panic","p":jsd(SignedDuration::ZERO)}),
    }
}
fn iso_span(s: Span, lower: bool, cls: &str) -> Value {
    static PARSER: temporal::SpanParser = temporal::SpanParser::new();
    let r = guard(|| {
        let text = temporal::SpanPrinter::new().lowercase(lower).span_to_string(&s);
        let p = PARSER.parse_span(&text);
        (text, p)
    });
    match r {
        Ok((text, Ok(p))) => json!({"op":"iso_span","cls":cls,"o":jspan(&s),"text":codes(&text),"s":text,"st":"ok","p":jspan(&p)}),
        Ok((text, Err(_))) => json!({"op":"iso_span","cls":cls,"o":jspan(&s),"text":codes(&text),"s":text,"st":"err","p":jspan(&Span::new())}),
        Err(m) => json!({"op":"iso_span","cls":cls,"o":jspan(&s),"text":[],"s":m,"st":"panic","p":jspan(&Span::new())}),
    }
}
fn iso_sd(d: SignedDuration, lower: bool, cls: &str) -> Value {
    static PARSER: temporal::SpanParser = temporal::SpanParser::new();
    let r = guard(|| {
        let text = temporal::SpanPrinter::new().lowercase(lower).duration_to_string(&d);
        let p = PARSER.parse_duration(&text);
        (text, p)
    });
    match r {
        Ok((text, Ok(p))) => json!({"op":"iso_sd","cls":cls,"o":jsd(d),"text":codes(&text),"s":text,"st":"ok","p":jsd(p)}),
        Ok((text, Err(_))) => json!({"op":"iso_sd","cls":cls,"o":jsd(d),"text":codes(&text),"s":text,"st":"err","p":jsd(SignedDuration::ZERO)}),
        Err(m) => json!({"op":"iso_sd","cls":cls,"o":jsd(d),"text":[],"s":m,"st":"panic","p":jsd(SignedDuration::ZERO)}),
    }
}

// ---- ISO 8601 duration parser on grammar-generated texts --------------------------------------------
/// [+-]P[nY][nM][nW][nD][T[nH][nM][nS]] with designators in either case and an optional
/// fraction (. or ,) on the last time unit. The printer only writes a '-' sign, one case
/// throughout, and a '.' fraction on seconds: other shapes are scope "beyond".
fn gen_iso(rng: &mut Rng) -> (String, bool) {
    let mut printable = true;
    let mut s = String::new();
    match rng.next() % 6 {
        0 => s.push('-'),
        1 => {
            s.push('+');
            printable = false;
        }
        _ => {}
    }
    let case = rng.next() % 4; // 0 upper, 1 lower, else upper with a few mixed
    let mixed = case >= 2 && rng.chance(1, 4);
    if mixed {
        printable = false;
    }
    let des = |rng: &mut Rng, c: char| -> char {
        if case == 1 || (mixed && rng.chance(1, 2)) { c.to_ascii_lowercase() } else { c }
    };
    s.push(des(rng, 'P'));
    let lim: [i64; 7] = [19_998, 239_976, 1_043_497, 7_304_484, 175_307_616, 10_518_456_960, 631_107_417_600];
    let val = |rng: &mut Rng, k: usize| -> i64 {
        match rng.next() % 6 {
            0 => rng.range(0, 9),
            1 | 2 => rng.range(0, 500),
            3 => rng.range(0, 100_000).min(lim[k]),
            4 => lim[k] - rng.range(0, 2),
            _ => lim[k] + rng.range(0, 2),
        }
    };
    let date: Vec<usize> = (0..4).filter(|_| rng.chance(1, 3)).collect();
    let mut time: Vec<usize> = (4..7).filter(|_| rng.chance(1, 2)).collect();
    if date.is_empty() && time.is_empty() {
        time.push(4 + (rng.next() % 3) as usize);
    }
    for &k in &date {
        let v = val(rng, k);
        printable &= v <= lim[k];
        s.push_str(&v.to_string());
        s.push(des(rng, ['Y', 'M', 'W', 'D'][k]));
    }
    if !time.is_empty() {
        s.push(des(rng, 'T'));
        let n = time.len();
        for (i, &k) in time.iter().enumerate() {
            let v = val(rng, k);
            // only seconds can be printed beyond their limit (milliseconds and smaller fold into them)
            printable &= v <= lim[k] || k == 6;
            s.push_str(&v.to_string());
            if i + 1 == n && rng.chance(1, 2) {
                let nd = 1 + rng.next() % 9;
                if rng.chance(1, 4) {
                    s.push(',');
                    printable = false;
                } else {
                    s.push('.');
                }
                if k != 6 {
                    printable = false;
                }
                for _ in 0..nd {
                    s.push((b'0' + (rng.next() % 10) as u8) as char);
                }
            }
            s.push(des(rng, ['H', 'M', 'S'][k - 4]));
        }
    }
    (s, printable)
}

fn iso_parse(text: &str, printable: bool) -> Value {
    static PARSER: temporal::SpanParser = temporal::SpanParser::new();
    let sp = guard(|| PARSER.parse_span(text));
    let sd = guard(|| PARSER.parse_duration(text));
    let (sst, sv) = match &sp {
        Ok(Ok(p)) => ("ok", jspan(p)),
        Ok(Err(_)) => ("err", jspan(&Span::new())),
        Err(_) => ("panic", jspan(&Span::new())),
    };
    let (dst, dv) = match &sd {
        Ok(Ok(p)) => ("ok", jsd(*p)),
        Ok(Err(_)) => ("err", jsd(SignedDuration::ZERO)),
        Err(_) => ("panic", jsd(SignedDuration::ZERO)),
    };
    let scope = if printable { "property" } else { "beyond" };
    json!({"op":"iso_parse","cls":"grammar","scope":scope,"text":codes(text),"s":text,"span":{"st":sst,"p":sv},"sd":{"st":dst,"p":dv}})
}

// ---- friendly parser on grammar-generated texts ----------------------------------------------------
const LABELS: [&[&str]; 10] = [
    &["nanoseconds", "nanosecond", "nanos", "nano", "nsecs", "nsec", "ns"],
    &["microseconds", "microsecond", "micros", "micro", "usecs", "usec", "us", "\u{b5}secs", "\u{b5}sec", "\u{b5}s"],
    &["milliseconds", "millisecond", "millis", "milli", "msecs", "msec", "ms"],
    &["seconds", "second", "secs", "sec", "s"],
    &["minutes", "minute", "mins", "min", "m"],
    &["hours", "hour", "hrs", "hr", "h"],
    &["days", "day", "d"],
    &["weeks", "week", "wks", "wk", "w"],
    &["months", "month", "mos", "mo"],
    &["years", "year", "yrs", "yr", "y"],
];

/// A text of the documented friendly grammar: units in descending order with any label, blank
/// and comma variants, an optional fraction on the last unit, an optional clock, sign or "ago".
fn gen_friendly(rng: &mut Rng) -> String {
    let ws = |rng: &mut Rng| ["", " ", "  ", "\t"][(rng.next() % 4) as usize].to_string();
    let mut s = String::new();
    let style = rng.next() % 8; // 0: sign prefix, 1: ago, else none
    if style == 0 {
        s.push(if rng.chance(1, 2) { '-' } else { '+' });
    }
    if rng.chance(1, 8) {
        // a bare clock
        s.push_str(&format!("{:02}:{:02}:{:02}", rng.range(0, 120), rng.range(0, 59), rng.range(0, 59)));
        if rng.chance(1, 2) {
            let nd = 1 + rng.next() % 9;
            s.push(if rng.chance(1, 4) { ',' } else { '.' });
            for _ in 0..nd {
                s.push((b'0' + (rng.next() % 10) as u8) as char);
            }
        }
    } else {
        let mut ranks: Vec<usize> = (0..10).filter(|_| rng.chance(1, 3)).collect();
        if ranks.is_empty() {
            ranks.push((rng.next() % 10) as usize);
        }
        ranks.reverse(); // descending
        let clock_after = ranks.iter().all(|&r| r >= 6) && rng.chance(1, 5);
        let n = ranks.len();
        for (i, &r) in ranks.iter().enumerate() {
            let v = match rng.next() % 4 {
                0 => rng.range(0, 9),
                1 => rng.range(0, 400),
                2 => rng.range(0, 100_000),
                _ => [19_998i64, 239_976, 1_043_497, 7_304_484, 175_307_616, 10_518_456_960, 631_107_417_600][(rng.next() % 7) as usize].min(if r >= 9 { 19_998 } else if r == 8 { 239_976 } else if r == 7 { 1_043_497 } else if r == 6 { 7_304_484 } else if r == 5 { 175_307_616 } else { i64::MAX }),
            };
            s.push_str(&v.to_string());
            let last = i + 1 == n && !clock_after;
            if last && r <= 5 && rng.chance(1, 3) {
                let nd = 1 + rng.next() % 9;
                s.push(if rng.chance(1, 5) { ',' } else { '.' });
                for _ in 0..nd {
                    s.push((b'0' + (rng.next() % 10) as u8) as char);
                }
            }
            s.push_str(&ws(rng));
            let ls = LABELS[r];
            s.push_str(ls[(rng.next() % ls.len() as u64) as usize]);
            if !last {
                if rng.chance(1, 3) {
                    s.push_str(", ");
                    s.push_str(&ws(rng));
                } else {
                    // two units need a blank between them unless the label ends and digits begin
                    s.push_str([" ", "  ", "", " "][(rng.next() % 4) as usize]);
                }
            }
        }
        if clock_after {
            if !s.ends_with(' ') {
                s.push(' ');
            }
            s.push_str(&format!("{:02}:{:02}:{:02}", rng.range(0, 23), rng.range(0, 59), rng.range(0, 59)));
        }
    }
    if style == 1 {
        s.push_str(" ago");
    }
    s
}

/// Whether some documented printer configuration can produce a text of this shape (labels,
/// blanks, decimal point). Texts outside it are still validated, but a divergence there is
/// reported as beyond the property (C15 speaks about printed texts), never as a violation.
fn fr_printable_shape(text: &str) -> bool {
    if text.contains('\t') || text.contains("  ") {
        return false;
    }
    let b = text.as_bytes();
    for i in 1..b.len().saturating_sub(1) {
        if b[i] == b',' && b[i - 1].is_ascii_digit() && b[i + 1].is_ascii_digit() {
            return false;
        }
    }
    !text
        .split(|c: char| !c.is_alphabetic())
        .any(|t| matches!(t, "nanos" | "nano" | "micros" | "micro" | "usecs" | "usec" | "millis" | "milli"))
}

fn fr_parse(text: &str, cls: &str) -> Value {
    static PARSER: SpanParser = SpanParser::new();
    let sp = guard(|| PARSER.parse_span(text));
    let sd = guard(|| PARSER.parse_duration(text));
    let (sst, sv) = match &sp {
        Ok(Ok(p)) => ("ok", jspan(p)),
        Ok(Err(_)) => ("err", jspan(&Span::new())),
        Err(_) => ("panic", jspan(&Span::new())),
    };
    let (dst, dv) = match &sd {
        Ok(Ok(p)) => ("ok", jsd(*p)),
        Ok(Err(_)) => ("err", jsd(SignedDuration::ZERO)),
        Err(_) => ("panic", jsd(SignedDuration::ZERO)),
    };
    let scope = if fr_printable_shape(text) { "property" } else { "beyond" };
    json!({"op":"fr_parse","cls":cls,"scope":scope,"text":codes(text),"s":text,"span":{"st":sst,"p":sv},"sd":{"st":dst,"p":dv}})
}

pub fn run(a: &Args) {
    let mut out = Out::new(&a.out, "c15", 12_000);
    let mut rng = Rng::new(a.seed, 15);
    let quick = a.quick();
    let all: Vec<usize> = (0..10).collect();
    let sub: Vec<usize> = vec![6, 7, 8, 9];
    let mut spans: Vec<(Span, &'static str)> = vec![(Span::new(), "zero")];
    // every unit alone at its limit, both signs; carry cases
    for i in 0..10 {
        for neg in [false, true] {
            let mut u = [0i64; 10];
            u[i] = LIM[i].1;
            spans.push((mkspan(u, neg).unwrap(), "unit-limit"));
        }
    }
    for (ms, us, ns) in [(999i64, 999i64, 999i64), (1, 0, 0), (0, 0, 1), (1500, 0, 0), (0, 1_000_000, 1), (999, 999_999, 999_999_999), (0, 0, 999_999_999)] {
        for s in [0i64, 1, 59, 60, 631_107_417_600] {
            let mut u = [0i64; 10];
            u[6] = s;
            u[7] = ms;
            u[8] = us;
            u[9] = ns;
            if let Some(sp) = mkspan(u, false) {
                spans.push((sp, "subsecond-carry"));
                spans.push((-sp, "subsecond-carry"));
            }
        }
    }
    for _ in 0..(if quick { 1200 } else { 30_000 }) {
        let s = if rng.chance(1, 3) { gen_span(&mut rng, &sub) } else { gen_span(&mut rng, &all) };
        spans.push((s, if s.is_negative() { "negative" } else { "plain" }));
    }
    let mut sds: Vec<(SignedDuration, &'static str)> = vec![
        (SignedDuration::ZERO, "zero"), (SignedDuration::MIN, "limit"), (SignedDuration::MAX, "limit"),
        (SignedDuration::new(i64::MIN, 0), "limit"), (SignedDuration::new(i64::MIN + 1, -999_999_999), "limit"),
        (SignedDuration::new(0, 1), "plain"), (SignedDuration::new(0, -1), "negative"), (SignedDuration::new(3663, 0), "plain"),
        (SignedDuration::new(59, 999_999_999), "subsecond-carry"), (SignedDuration::new(-3599, -999_999_999), "subsecond-carry"),
    ];
    for _ in 0..(if quick { 800 } else { 20_000 }) {
        let secs = match rng.next() % 4 {
            0 => rng.range(-100_000, 100_000),
            1 => rng.range(i64::MIN, i64::MAX),
            _ => rng.range(-4_000_000_000_000, 4_000_000_000_000),
        };
        let ns = if rng.chance(1, 3) { 0 } else { rng.range(0, 999_999_999) as i32 };
        sds.push((SignedDuration::new(secs, if secs < 0 { -ns } else { ns }), if secs < 0 { "negative" } else { "plain" }));
    }
    // option sweep: every value of every option on its own (with the others at default)
    let mut sweep: Vec<Cfg> = vec![DEFAULT];
    for v in 0..4 { sweep.push(Cfg { des: v, ..DEFAULT }); sweep.push(Cfg { dir: v, ..DEFAULT }); }
    for v in 0..3 { sweep.push(Cfg { spacing: v, ..DEFAULT }); }
    for v in 0..6 {
        sweep.push(Cfg { frac: v, ..DEFAULT });
        for p in 0..10 { sweep.push(Cfg { frac: v, prec: p, ..DEFAULT }); }
    }
    for p in -1..10 { sweep.push(Cfg { hms: true, prec: p, ..DEFAULT }); }
    sweep.push(Cfg { comma: true, des: 2, spacing: 2, ..DEFAULT });
    for v in 0..5 { sweep.push(Cfg { zero: v, ..DEFAULT }); }
    sweep.push(Cfg { pad: 2, ..DEFAULT });
    sweep.push(Cfg { pad: 4, hms: true, ..DEFAULT });
    for (i, &(s, cls)) in spans.iter().enumerate() {
        out.emit(iso_span(s, i % 2 == 1, cls));
        out.emit(fr_span(s, &DEFAULT, cls));
        let k = if i < 60 { sweep.len() } else { 3 };
        for j in 0..k {
            let c = if i < 60 { sweep[j] } else if j == 0 { sweep[(i * 7) % sweep.len()] } else { gen_cfg(&mut rng) };
            out.emit(fr_span(s, &c, if c.prec >= 0 || c.frac == 1 || c.frac == 2 { "lossy-config" } else { cls }));
        }
    }
    for (i, &(d, cls)) in sds.iter().enumerate() {
        out.emit(iso_sd(d, i % 2 == 1, cls));
        out.emit(fr_sd(d, &DEFAULT, cls));
        let k = if i < 12 { sweep.len() } else { 3 };
        for j in 0..k {
            let c = if i < 12 { sweep[j] } else if j == 0 { sweep[(i * 7) % sweep.len()] } else { gen_cfg(&mut rng) };
            out.emit(fr_sd(d, &c, if c.prec >= 0 || c.frac == 1 || c.frac == 2 { "lossy-config" } else { cls }));
        }
    }
    // the friendly parser on texts drawn from the documented grammar (not only the printer's own output)
    for _ in 0..(if a.quick() { 6000 } else { 200_000 }) {
        let t = gen_friendly(&mut rng);
        out.emit(fr_parse(&t, "grammar"));
        let (t, printable) = gen_iso(&mut rng);
        out.emit(iso_parse(&t, printable));
    }
    out.finish();
}
