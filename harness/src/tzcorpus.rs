//! Zone corpora: installed zoneinfo files, the bundled tzdb, zic-compiled
//! synthetic zones, grammar-generated POSIX TZ strings.  Also the
//! probe-point helpers (only used to *choose* inputs, never as oracle).

use crate::common::Rng;
use crate::tzread::{AZone, DaySpec, Rule};
use std::path::{Path, PathBuf};

pub struct ZoneSrc {
    pub name: String,
    pub class: String, // system | posix-dir | right | bundled | synthetic-slim | synthetic-fat | posix-string
    pub bytes: Vec<u8>, // TZif bytes, or the POSIX string for class posix-string
}

fn walk(root: &Path, rel: &Path, out: &mut Vec<(String, PathBuf)>) {
    let dir = root.join(rel);
    let mut ents: Vec<_> = match std::fs::read_dir(&dir) {
        Ok(r) => r.filter_map(|e| e.ok()).collect(),
        Err(_) => return,
    };
    ents.sort_by_key(|e| e.file_name());
    for e in ents {
        let p = rel.join(e.file_name());
        let full = root.join(&p);
        if full.is_dir() {
            walk(root, &p, out);
        } else {
            out.push((p.to_string_lossy().to_string(), full));
        }
    }
}

pub fn tzif_files(root: &str, class: &str, skip_dirs: &[&str]) -> Vec<ZoneSrc> {
    let mut files = Vec::new();
    walk(Path::new(root), Path::new(""), &mut files);
    let mut out = Vec::new();
    for (name, path) in files {
        if skip_dirs.iter().any(|d| name.starts_with(&format!("{d}/"))) {
            continue;
        }
        if let Ok(b) = std::fs::read(&path) {
            if b.len() >= 44 && &b[0..4] == b"TZif" {
                out.push(ZoneSrc { name, class: class.to_string(), bytes: b });
            }
        }
    }
    out
}

pub fn system() -> Vec<ZoneSrc> {
    tzif_files("/usr/share/zoneinfo", "system", &["posix", "right"])
}
pub fn system_right() -> Vec<ZoneSrc> {
    tzif_files("/usr/share/zoneinfo/right", "right", &[])
}

pub fn bundled() -> Vec<ZoneSrc> {
    let mut out = Vec::new();
    for name in jiff_tzdb::available() {
        if let Some((canon, bytes)) = jiff_tzdb::get(name) {
            out.push(ZoneSrc { name: canon.to_string(), class: "bundled".into(), bytes: bytes.to_vec() });
        }
    }
    out
}

/// keep one zone per distinct byte content (aliases and links collapse)
pub fn dedup(mut v: Vec<ZoneSrc>) -> Vec<ZoneSrc> {
    let mut seen = std::collections::HashSet::new();
    v.retain(|z| {
        use std::hash::{Hash, Hasher};
        let mut h = std::collections::hash_map::DefaultHasher::new();
        z.bytes.hash(&mut h);
        seen.insert(h.finish())
    });
    v
}

// ---------------------------------------------------------------------------
// POSIX TZ string generator (grammar of POSIX.1 8.3 + RFC 8536 extensions)

fn gen_time(rng: &mut Rng) -> String {
    match rng.next() % 8 {
        0 => String::new(),
        1 => "/0".into(),
        2 => format!("/{}", rng.range(0, 24)),
        3 => format!("/{}:{:02}", rng.range(0, 24), rng.range(0, 59)),
        4 => format!("/{}:{:02}:{:02}", rng.range(0, 24), rng.range(0, 59), rng.range(0, 59)),
        5 => format!("/-{}", rng.range(1, 167)),
        6 => format!("/{}", rng.range(25, 167)),
        _ => format!("/{}", *rng.pick(&[-167i64, 167, 24, 25, -1, 26, -24])),
    }
}

fn gen_day(rng: &mut Rng) -> String {
    match rng.next() % 4 {
        0 => format!("J{}", *rng.pick(&[1i64, 59, 60, 61, 180, 364, 365])),
        // zero-based day 365 exists only in leap years and POSIX leaves its
        // meaning in other years unspecified: not generated
        1 => format!("{}", *rng.pick(&[0i64, 58, 59, 60, 180, 363, 364])),
        2 => format!("M{}.{}.{}", rng.range(1, 12), rng.range(1, 5), rng.range(0, 6)),
        _ => format!("M{}.{}.{}", *rng.pick(&[1i64, 2, 3, 10, 11, 12]), *rng.pick(&[1i64, 4, 5]), rng.range(0, 6)),
    }
}

fn gen_off(rng: &mut Rng) -> String {
    let sign = *rng.pick(&["", "-", "+"]);
    match rng.next() % 5 {
        0 => format!("{sign}{}", rng.range(0, 14)),
        1 => format!("{sign}{}:{:02}", rng.range(0, 14), *rng.pick(&[0i64, 30, 45, 15])),
        2 => format!("{sign}{}:{:02}:{:02}", rng.range(0, 14), rng.range(0, 59), rng.range(0, 59)),
        3 => format!("{sign}{:02}", rng.range(0, 24)),
        _ => format!("{sign}{}", *rng.pick(&[0i64, 24, 12, 1])),
    }
}

/// A rule is "settled" when start and end keep the same order in every year
/// and stay at least 9 days apart (also across the year boundary).  When they
/// do not, the per-year reading of POSIX (glibc) and the event-sequence
/// reading (tzcode) disagree about which period is DST; the property's
/// wording does not settle that, so such strings are not generated.
pub fn rule_settled(r: &Rule) -> bool {
    if r.dst.is_none() {
        return true;
    }
    let mut order: Option<bool> = None;
    for y in 1999i64..2031 {
        let p = rule_points(r, y);
        let q = rule_points(r, y + 1);
        let o = p[0] < p[1];
        if order.is_some() && order != Some(o) {
            return false;
        }
        order = Some(o);
        let min_gap = 9 * 86400;
        if (p[0] - p[1]).abs() < min_gap || (q[0] - p[1]).abs() < min_gap || (q[1] - p[0]).abs() < min_gap {
            return false;
        }
    }
    true
}

pub fn gen_posix(rng: &mut Rng) -> String {
    loop {
        let s = gen_posix_raw(rng);
        match crate::tzread::parse_posix(&s) {
            Ok(r) if !rule_settled(&r) => continue,
            _ => return s,
        }
    }
}

fn gen_posix_raw(rng: &mut Rng) -> String {
    let names = ["EST", "AAA", "<+03>", "<-0330>", "LongName", "<A1B2>", "XYZ"];
    let std = *rng.pick(&names);
    let mut s = format!("{std}{}", gen_off(rng));
    if rng.chance(1, 5) {
        return s;
    }
    let dst = *rng.pick(&["EDT", "BBB", "<+04>", "<-0230>", "DDDD"]);
    s.push_str(dst);
    if rng.chance(1, 3) {
        s.push_str(&gen_off(rng));
    }
    s.push(',');
    s.push_str(&gen_day(rng));
    s.push_str(&gen_time(rng));
    s.push(',');
    s.push_str(&gen_day(rng));
    s.push_str(&gen_time(rng));
    s
}

pub const POSIX_FIXED: &[&str] = &[
    "EST5EDT,M3.2.0,M11.1.0",
    "CET-1CEST,M3.5.0,M10.5.0/3",
    "AEST-10AEDT,M10.1.0,M4.1.0/3",
    "<-03>3<-02>,M3.5.0/-2,M10.5.0/-1",
    "<-02>2<-01>,M3.5.0/-1,M10.5.0/0",
    "IST-1GMT0,M10.5.0,M3.5.0/1",
    "<+1030>-10:30<+11>-11,M10.1.0,M4.1.0",
    "NZST-12NZDT,M9.5.0,M4.1.0/3",
    "<+1245>-12:45<+1345>,M9.5.0/2:45,M4.1.0/3:45",
    "IST-2IDT,M3.4.4/26,M10.5.0",
    "EET-2EEST,M3.5.0/3,M10.5.0/4",
    "WET0WEST,M3.5.0/1,M10.5.0",
    "UTC0",
    "<+0530>-5:30",
    "PST8PDT,J60,J300",
    "PST8PDT,59,299",
    "AAA3BBB,M1.1.0/0,M12.5.6/24",
    "XXX-3YYY,M4.1.0/-24,M9.5.0/167",
    "ABC-1:23:45DEF-2:34:56,M5.3.3/12:34:56,M8.2.5/1:02:03",
    // midnight inside a gap that began before it (23:30 -> 00:30), and inside the clock times a set-back repeats
    // (00:30 -> 23:30 of the day before): the drivers of the zoned properties always take these (QUICK_FIXED)
    "AAA0BBB-1,M3.2.0/23:30,M11.1.0",
    "CCC0DDD-1,M3.2.0/23:30,M11.1.0/0:30",
];
/// indices of POSIX_FIXED that the quick tier of the zoned drivers takes besides the first eight
pub const QUICK_FIXED: &[usize] = &[18, 19, 20];

// ---------------------------------------------------------------------------
// probe-point helpers (Howard Hinnant's days_from_civil; input selection only)

pub fn days_from_civil(y: i64, m: i64, d: i64) -> i64 {
    let y = if m <= 2 { y - 1 } else { y };
    let era = if y >= 0 { y } else { y - 399 } / 400;
    let yoe = y - era * 400;
    let mp = (m + 9) % 12;
    let doy = (153 * mp + 2) / 5 + d - 1;
    let doe = yoe * 365 + yoe / 4 - yoe / 100 + doy;
    era * 146097 + doe - 719468
}
/// inverse of days_from_civil (Hinnant); input selection only
pub fn civil_from_days(z: i64) -> (i64, i64, i64) {
    let z = z + 719468;
    let era = if z >= 0 { z } else { z - 146096 } / 146097;
    let doe = z - era * 146097;
    let yoe = (doe - doe / 1460 + doe / 36524 - doe / 146096) / 365;
    let y = yoe + era * 400;
    let doy = doe - (365 * yoe + yoe / 4 - yoe / 100);
    let mp = (5 * doy + 2) / 153;
    let d = doy - (153 * mp + 2) / 5 + 1;
    let m = if mp < 10 { mp + 3 } else { mp - 9 };
    (if m <= 2 { y + 1 } else { y }, m, d)
}
/// is the UTC second within 8 days of a UTC new year?
pub fn near_new_year(sec: i64) -> bool {
    let (y, _, _) = civil_from_days(sec.div_euclid(86400));
    let a = days_from_civil(y, 1, 1) * 86400;
    let b = days_from_civil(y + 1, 1, 1) * 86400;
    sec - a < 8 * 86400 || b - sec < 8 * 86400
}
/// does any rule transition of this rule fall outside its own UTC year?
pub fn rule_crosses_year(r: &Rule) -> bool {
    let dst_off = r.dst.as_ref().map(|d| d.off).unwrap_or(r.std_off) as i64;
    for y in 2000i64..2030 {
        for p in rule_points(r, y) {
            // the transition instant in UTC and on both wall clocks
            for q in [p, p + r.std_off as i64, p + dst_off] {
                if civil_from_days(q.div_euclid(86400)).0 != y {
                    return true;
                }
            }
        }
    }
    false
}
fn is_leap(y: i64) -> bool {
    (y % 4 == 0 && y % 100 != 0) || y % 400 == 0
}
fn dim(y: i64, m: i64) -> i64 {
    match m {
        2 => {
            if is_leap(y) {
                29
            } else {
                28
            }
        }
        4 | 6 | 9 | 11 => 30,
        _ => 31,
    }
}
fn rule_day(ds: &DaySpec, y: i64) -> i64 {
    let jan1 = days_from_civil(y, 1, 1);
    match ds.k {
        'J' => jan1 + (ds.a as i64 - 1) + if is_leap(y) && ds.a >= 60 { 1 } else { 0 },
        'N' => jan1 + ds.a as i64,
        _ => {
            let m = ds.a as i64;
            let first = days_from_civil(y, m, 1);
            let wd_first = (first + 4).rem_euclid(7); // 0 = Sunday
            let mut d = 1 + (ds.c as i64 - wd_first).rem_euclid(7) + 7 * (ds.b as i64 - 1);
            while d > dim(y, m) {
                d -= 7;
            }
            first + d - 1
        }
    }
}
/// approximate UTC seconds of the two rule transitions of year y
pub fn rule_points(r: &Rule, y: i64) -> Vec<i64> {
    match &r.dst {
        None => vec![],
        Some(d) => vec![
            rule_day(&d.start, y) * 86400 + d.start.t as i64 - r.std_off as i64,
            rule_day(&d.end, y) * 86400 + d.end.t as i64 - d.off as i64,
        ],
    }
}

pub fn load(z: &ZoneSrc) -> Result<AZone, String> {
    if z.class == "posix-string" {
        AZone::posix(&z.name, std::str::from_utf8(&z.bytes).map_err(|e| e.to_string())?)
    } else {
        crate::tzread::read_tzif(&z.name, &z.bytes)
    }
}
