//! C20: TimeZone handle lifecycle.  TLC-generated programs
//! (spec/TzHandleSim.tla) are executed on real `TimeZone` values; after
//! every step the projection (pointer tag, heap object identity, Arc strong
//! count via the read-only hook, number of frees seen by the tracking
//! allocator, value equality of all live pairs, query answers) is compared
//! with what the model prescribes.

use crate::common::*;
use jiff::tz::{Offset, TimeZone};
use jiff::Timestamp;
use serde_json::{json, Value};
use std::alloc::{GlobalAlloc, Layout, System};
use std::sync::atomic::{AtomicBool, AtomicUsize, Ordering};

// ---------------------------------------------------------------------------
// tracking allocator: while enabled, remembers every deallocation
// (address, size) in a fixed ring (no allocation inside the allocator)

const RING: usize = 1 << 16;
static ENABLED: AtomicBool = AtomicBool::new(false);
static NEXT: AtomicUsize = AtomicUsize::new(0);
static FREED_ADDR: [AtomicUsize; RING] = [const { AtomicUsize::new(0) }; RING];
static FREED_SIZE: [AtomicUsize; RING] = [const { AtomicUsize::new(0) }; RING];

pub struct Tracking;

fn record(p: usize, size: usize, is_alloc: bool) {
    let i = NEXT.fetch_add(1, Ordering::Relaxed) % RING;
    FREED_ADDR[i].store(p, Ordering::Relaxed);
    FREED_SIZE[i].store(size << 1 | if is_alloc { 1 } else { 0 }, Ordering::Relaxed);
}

unsafe impl GlobalAlloc for Tracking {
    unsafe fn alloc(&self, l: Layout) -> *mut u8 {
        let p = unsafe { System.alloc(l) };
        if ENABLED.load(Ordering::Relaxed) {
            record(p as usize, l.size(), true);
        }
        p
    }
    unsafe fn dealloc(&self, p: *mut u8, l: Layout) {
        if ENABLED.load(Ordering::Relaxed) {
            record(p as usize, l.size(), false);
        }
        unsafe { System.dealloc(p, l) }
    }
    unsafe fn realloc(&self, p: *mut u8, l: Layout, n: usize) -> *mut u8 {
        let q = unsafe { System.realloc(p, l, n) };
        if ENABLED.load(Ordering::Relaxed) {
            record(p as usize, l.size(), false);
            record(q as usize, n, true);
        }
        q
    }
}

/// how many deallocations covered `addr` since ring position `from`, up to
/// the moment the address was handed out again by the allocator
fn frees_covering(addr: usize, from: usize) -> usize {
    let to = NEXT.load(Ordering::SeqCst);
    let mut n = 0;
    for k in from..to {
        let i = k % RING;
        let a = FREED_ADDR[i].load(Ordering::Relaxed);
        let sk = FREED_SIZE[i].load(Ordering::Relaxed);
        let (s, is_alloc) = (sk >> 1, sk & 1 == 1);
        if a <= addr && addr < a + s {
            if is_alloc {
                if n > 0 {
                    break; // the address was reused: the object's story is over
                }
            } else {
                n += 1;
            }
        }
    }
    n
}

// ---------------------------------------------------------------------------

fn tzif_bytes(v: i64) -> (&'static str, &'static [u8]) {
    let name = ["Asia/Tokyo", "America/New_York", "Europe/London"][v as usize % 3];
    jiff_tzdb::get(name).unwrap()
}
fn posix_str(v: i64) -> &'static str {
    ["UTC0", "EST5EDT,M3.2.0,M11.1.0", "CET-1CEST,M3.5.0,M10.5.0/3"][v as usize % 3]
}
fn fixed_off(v: i64) -> i32 {
    [0, -93599, 3600][v as usize % 3]
}
fn static_tz(v: i64) -> TimeZone {
    match v % 3 {
        0 => jiff::tz::get!("Asia/Tokyo"),
        1 => jiff::tz::get!("America/New_York"),
        _ => jiff::tz::get!("Europe/London"),
    }
}
/// offset at 2024-07-01T00:00:00Z each (kind, content) must answer
fn expected_offset(kind: &str, v: i64) -> i32 {
    match kind {
        "utc" | "unknown" => 0,
        "fixed" => fixed_off(v),
        "posix" => [0, -4 * 3600, 2 * 3600][v as usize % 3],
        _ => [9 * 3600, -4 * 3600, 3600][v as usize % 3],
    }
}

fn make(kind: &str, v: i64) -> TimeZone {
    match kind {
        "utc" => TimeZone::UTC,
        "unknown" => TimeZone::unknown(),
        "fixed" => TimeZone::fixed(Offset::from_seconds(fixed_off(v)).unwrap()),
        "static" => static_tz(v),
        "tzif" => {
            let (n, b) = tzif_bytes(v);
            TimeZone::tzif(n, b).unwrap()
        }
        _ => TimeZone::posix(posix_str(v)).unwrap(),
    }
}

pub fn run(a: &Args) {
    let mut out = Out::new(&a.out, "c20", 200_000);
    let file = a.opt("programs").expect("--programs FILE");
    let text = std::fs::read_to_string(&file).unwrap();
    let probe = Timestamp::from_second(1719792000).unwrap();
    for (pid, line) in text.lines().enumerate() {
        let prog: Vec<Value> = match serde_json::from_str(line) {
            Ok(Value::Array(v)) => v,
            _ => continue,
        };
        let nslots = prog[0]["exp"]["slots"].as_array().map(|s| s.len()).unwrap_or(4);
        let mut slots: Vec<Option<(TimeZone, String, i64)>> = (0..nslots).map(|_| None).collect();
        // model object number -> payload address
        let mut objaddr: Vec<(usize, usize)> = Vec::new(); // (payload address, ring position at creation)
        let mut mism: Vec<Value> = Vec::new();
        ENABLED.store(true, Ordering::SeqCst);
        let r = guard(|| {
            for (i, st) in prog.iter().enumerate() {
                let h = st["h"].as_u64().unwrap() as usize - 1;
                let thr = st["thr"].as_i64() == Some(1);
                match st["op"].as_str().unwrap() {
                    "new" => {
                        let kind = st["kind"].as_str().unwrap().to_string();
                        let v = st["val"].as_i64().unwrap();
                        let tz = make(&kind, v);
                        let (_tag, addr, cnt) = tz.__verif_repr();
                        if cnt.is_some() {
                            objaddr.push((addr, NEXT.load(Ordering::SeqCst)));
                        }
                        slots[h] = Some((tz, kind, v));
                    }
                    "clone" => {
                        let g = st["g"].as_u64().unwrap() as usize - 1;
                        let (tz, k, v) = slots[h].as_ref().unwrap();
                        let c = if thr {
                            let t2 = tz.clone();
                            // cloned on another thread, handed back
                            std::thread::spawn(move || t2.clone()).join().unwrap()
                        } else {
                            tz.clone()
                        };
                        slots[g] = Some((c, k.clone(), *v));
                    }
                    _ => {
                        let (tz, _, _) = slots[h].take().unwrap();
                        if thr {
                            // moved to another thread, queried and dropped there
                            std::thread::spawn(move || {
                                let _ = tz.to_offset(probe);
                                drop(tz);
                            })
                            .join()
                            .unwrap();
                        } else {
                            drop(tz);
                        }
                    }
                }
                // ---- observe --------------------------------------------------
                let exp = &st["exp"];
                for s in 0..nslots {
                    let e = &exp["slots"][s];
                    let (elive, etag, eobj, erc) = (e[0].as_i64().unwrap(), e[1].as_i64().unwrap(), e[2].as_i64().unwrap(), e[3].as_i64().unwrap());
                    match &slots[s] {
                        None => {
                            if elive != 0 {
                                mism.push(json!({"step":i,"slot":s + 1,"what":"harness/model disagree on liveness"}));
                            }
                        }
                        Some((tz, kind, v)) => {
                            let (tag, addr, cnt) = tz.__verif_repr();
                            if tag as i64 != etag {
                                mism.push(json!({"step":i,"slot":s + 1,"what":"pointer tag","expected":etag,"got":tag}));
                            }
                            if eobj > 0 {
                                let want = objaddr.get(eobj as usize - 1).map(|x| x.0).unwrap_or(0);
                                if addr != want {
                                    mism.push(json!({"step":i,"slot":s + 1,"what":"handle does not point at its heap object"}));
                                }
                                if cnt.map(|c| c as i64) != Some(erc) {
                                    mism.push(json!({"step":i,"slot":s + 1,"what":"strong count","expected":erc,"got":cnt}));
                                }
                            } else if cnt.is_some() {
                                mism.push(json!({"step":i,"slot":s + 1,"what":"inline kind is reference counted"}));
                            }
                            // every live handle keeps answering queries correctly
                            let off = tz.to_offset(probe).seconds();
                            if off != expected_offset(kind, *v) {
                                mism.push(json!({"step":i,"slot":s + 1,"what":"query answer","expected":expected_offset(kind, *v),"got":off}));
                            }
                        }
                    }
                }
                // frees seen by the allocator per heap object
                for (o, &(addr, from)) in objaddr.iter().enumerate() {
                    let want = exp["freed"][o].as_i64().unwrap_or(0);
                    let got = frees_covering(addr, from) as i64;
                    if got != want {
                        mism.push(json!({"step":i,"object":o + 1,"what":"number of frees of the heap object","expected":want,"got":got}));
                    }
                }
                // value equality of all live pairs
                for x in 0..nslots {
                    for y in 0..nslots {
                        let e = exp["eq"][x][y].as_i64().unwrap();
                        if let (Some((tx, _, _)), Some((ty, _, _))) = (&slots[x], &slots[y]) {
                            let got = if tx == ty { 1 } else { 0 };
                            if got != e {
                                mism.push(json!({"step":i,"what":"equality","a":x + 1,"b":y + 1,"expected":e,"got":got}));
                            }
                        }
                    }
                }
            }
            // end of program: drop everything, nothing heap-backed may stay live
            for s in slots.iter_mut() {
                *s = None;
            }
            for (o, &(addr, from)) in objaddr.iter().enumerate() {
                let got = frees_covering(addr, from);
                if got != 1 {
                    mism.push(json!({"step":"end","object":o + 1,"what":"heap object not freed exactly once after its last handle","got":got}));
                }
            }
        });
        ENABLED.store(false, Ordering::SeqCst);
        if let Err(m) = r {
            mism.push(json!({"what":"panic","msg":m}));
        }
        let cls = if prog.iter().any(|s| s["thr"] == 1) { "cross-thread" } else { "single-thread" };
        out.emit(json!({"op":"program","cls":cls,"pid":pid,"len":prog.len(),"ok":mism.is_empty(),"mismatches":mism,
                        "program": if pid < 2 { Value::Array(prog.iter().map(|s| { let mut s = s.clone(); s.as_object_mut().unwrap().remove("exp"); s }).collect()) } else { json!([]) }}));
    }
    out.finish();
}

/// fixed-offset handles reproduce their offset exactly, for every offset
pub fn run_fixed(a: &Args) {
    let mut out = Out::new(&a.out, "c20fixed", 200_000);
    let probe = Timestamp::from_second(0).unwrap();
    let step = if a.quick() { 1 } else { 1 };
    let mut o = -93599i32;
    while o <= 93599 {
        let r = guard(|| {
            let tz = TimeZone::fixed(Offset::from_seconds(o).unwrap());
            let c = tz.clone();
            let (tag, _, cnt) = c.__verif_repr();
            (tz.to_offset(probe).seconds(), c.to_fixed_offset().map(|x| x.seconds()).unwrap_or(i32::MIN), tag, cnt.is_some(), tz == c)
        });
        let cls = if o < 0 { "negative" } else if o == 0 { "zero" } else { "plain" };
        match r {
            Ok((off, fo, tag, counted, eq)) => out.emit(json!({"op":"fixed","cls":cls,"off":o,"st":"ok","got":off,"fixed":fo,"tag":tag,"counted": if counted {1} else {0},"eq": if eq {1} else {0}})),
            Err(m) => out.emit(json!({"op":"fixed","cls":cls,"off":o,"st":"panic","msg":m})),
        }
        o += step;
    }
    out.finish();
}

/// Concurrent clone / query / drop of one handle by many threads at once: the
/// reference count must come back to one, nothing may be freed while the base
/// handle lives, and the heap object must be freed exactly once afterwards.
pub fn run_race(a: &Args) {
    let mut out = Out::new(&a.out, "c20race", 200_000);
    let probe = Timestamp::from_second(1719792000).unwrap();
    let nthreads = 8usize;
    let rounds = if a.quick() { 12 } else { 200 };
    let iters = if a.quick() { 3000 } else { 20_000 };
    for round in 0..rounds {
        for kind in ["tzif", "posix", "fixed", "static", "utc", "unknown"] {
            let v = round as i64;
            ENABLED.store(true, Ordering::SeqCst);
            let r = guard(|| {
                let base = make(kind, v);
                let (tag, addr, cnt0) = base.__verif_repr();
                let from = NEXT.load(Ordering::SeqCst);
                let want = expected_offset(kind, v);
                let bad_answers = std::sync::Arc::new(AtomicUsize::new(0));
                let barrier = std::sync::Arc::new(std::sync::Barrier::new(nthreads));
                let mut hs = Vec::new();
                for t in 0..nthreads {
                    let mine = base.clone();
                    let (bad, barrier) = (bad_answers.clone(), barrier.clone());
                    let mut rng = Rng::new(a.seed, 2000 + (round * 64 + t) as u64);
                    hs.push(std::thread::spawn(move || {
                        barrier.wait();
                        let mut held: Vec<TimeZone> = Vec::new();
                        for _ in 0..iters {
                            match rng.next() % 4 {
                                0 | 1 => held.push(mine.clone()),
                                2 => {
                                    if !held.is_empty() {
                                        let i = (rng.next() % held.len() as u64) as usize;
                                        let z = held.swap_remove(i);
                                        if z.to_offset(probe).seconds() != want || z != mine {
                                            bad.fetch_add(1, Ordering::Relaxed);
                                        }
                                        drop(z);
                                    }
                                }
                                _ => {
                                    if held.len() > 16 {
                                        held.truncate(4);
                                    }
                                }
                            }
                        }
                        drop(held);
                        drop(mine);
                    }));
                }
                for h in hs {
                    h.join().unwrap();
                }
                let (_, _, cnt1) = base.__verif_repr();
                let frees_live = if cnt0.is_some() { frees_covering(addr, from) } else { 0 };
                drop(base);
                let frees_after = if cnt0.is_some() { frees_covering(addr, from) } else { 0 };
                (tag, cnt0, cnt1, frees_live, frees_after, bad_answers.load(Ordering::SeqCst))
            });
            ENABLED.store(false, Ordering::SeqCst);
            match r {
                Ok((tag, cnt0, cnt1, fl, fa, bad)) => out.emit(json!({"op":"race","cls":kind,"kind":kind,"st":"ok","tag":tag,"counted": if cnt0.is_some() {1} else {0},
                    "strong_before":cnt0.unwrap_or(0),"strong_after":cnt1.unwrap_or(0),"frees_live":fl,"frees_after":fa,"bad_answers":bad,"threads":nthreads,"iters":iters})),
                Err(m) => out.emit(json!({"op":"race","cls":kind,"kind":kind,"st":"panic","msg":m,"tag":0,"counted":0,"strong_before":0,"strong_after":0,"frees_live":0,"frees_after":0,"bad_answers":0,"threads":nthreads,"iters":iters})),
            }
        }
    }
    out.finish();
}
