//! C19: the zoneinfo database cache.
//!  * `c19replay`: Engine B.  TLC-generated operation histories of
//!    spec/TzdbCacheSim.tla are replayed on a real
//!    `TimeZoneDatabase::from_dir` over a scratch directory of synthetic TZif
//!    files whose fixed offset encodes (name, version); every returned
//!    version and the path taken (hook events) are compared with the model.
//!  * `c19stress`: Engine A.  N threads issue lookups / resets while a
//!    writer thread replaces files; the hook events (sequence numbers taken
//!    under jiff's locks) are written as a trace for spec/Trace_Cache.tla.

use crate::common::*;
use jiff::tz::TimeZoneDatabase;
use jiff::Timestamp;
use serde_json::{json, Value};
use std::path::{Path, PathBuf};
use std::time::{Duration, SystemTime};

pub const NAMES: [(&str, &str); 3] = [("a", "Zone/Alpha"), ("b", "Zone/Beta_Two"), ("c", "Gamma")];
const TICK: Duration = Duration::from_secs(100);

/// a minimal TZif v2 file: no transitions, one local time type, empty footer
pub fn tzif_fixed(off: i32) -> Vec<u8> {
    let mut b = Vec::new();
    for version in [b'2', b'2'] {
        b.extend_from_slice(b"TZif");
        b.push(version);
        b.extend_from_slice(&[0u8; 15]);
        for cnt in [0u32, 0, 0, 0, 1, 4] {
            b.extend_from_slice(&cnt.to_be_bytes());
        }
        b.extend_from_slice(&off.to_be_bytes());
        b.push(0);
        b.push(0);
        b.extend_from_slice(b"VER\0");
    }
    b.extend_from_slice(b"\n\n");
    b
}

fn code(idx: usize, ver: i64) -> i32 {
    (idx as i32 + 1) * 1000 + ver as i32
}

fn write_version(root: &Path, idx: usize, ver: i64) {
    let path = root.join(NAMES[idx].1);
    std::fs::create_dir_all(path.parent().unwrap()).unwrap();
    let tmp = root.join(format!(".tmp-{idx}-{ver}"));
    std::fs::write(&tmp, tzif_fixed(code(idx, ver))).unwrap();
    // every version has its own mtime (whole seconds: no granularity trouble)
    let f = std::fs::File::options().write(true).open(&tmp).unwrap();
    f.set_modified(SystemTime::UNIX_EPOCH + Duration::from_secs(1_600_000_000 + ver as u64 * 10)).unwrap();
    drop(f);
    std::fs::rename(&tmp, &path).unwrap();
}

/// Concatenated database: the whole file is rewritten from the per-zone versions,
/// with an mtime of its own for every rewrite.
fn write_concat(path: &Path, state: &[i64; 3], stamp: i64) {
    use crate::tzcorpus::ZoneSrc;
    let mut zs: Vec<ZoneSrc> = vec![ZoneSrc { name: "Always".into(), class: "c19".into(), bytes: tzif_fixed(42) }];
    for (idx, v) in state.iter().enumerate() {
        if *v > 0 {
            zs.push(ZoneSrc { name: NAMES[idx].1.to_string(), class: "c19".into(), bytes: tzif_fixed(code(idx, *v)) });
        }
    }
    let refs: Vec<&ZoneSrc> = zs.iter().collect();
    let tmp = path.with_extension(format!("tmp{stamp}"));
    std::fs::write(&tmp, crate::loaders::build_concatenated(&refs)).unwrap();
    let f = std::fs::File::options().write(true).open(&tmp).unwrap();
    f.set_modified(SystemTime::UNIX_EPOCH + Duration::from_secs(1_600_000_000 + stamp as u64 * 10)).unwrap();
    drop(f);
    std::fs::rename(&tmp, path).unwrap();
}

fn name_idx(n: &str) -> usize {
    NAMES.iter().position(|x| x.0 == n).unwrap()
}

fn spell(name: &str, k: usize) -> String {
    match k % 4 {
        0 => name.to_string(),
        1 => name.to_ascii_lowercase(),
        2 => name.to_ascii_uppercase(),
        _ => name.chars().enumerate().map(|(i, c)| if i % 2 == 0 { c.to_ascii_uppercase() } else { c.to_ascii_lowercase() }).collect(),
    }
}

/// version encoded in the zone returned by a lookup (0 = None, -1 = foreign/torn)
fn decode(idx: usize, tz: &Result<jiff::tz::TimeZone, jiff::Error>) -> i64 {
    match tz {
        Err(_) => 0,
        Ok(tz) => {
            let off = tz.to_offset(Timestamp::UNIX_EPOCH).seconds() as i64;
            let base = (idx as i64 + 1) * 1000;
            if off > base && off < base + 1000 && tz.iana_name() == Some(NAMES[idx].1) {
                off - base
            } else {
                -1
            }
        }
    }
}

/// the path the real lookup took, from the hook events of this call
fn how_of(evs: &[jiff::__verif::Event]) -> String {
    let mut how = "none".to_string();
    for e in evs {
        match e.kind {
            "fast" if e.a == 1 && e.b == 1 => how = "fast".into(),
            "names_w" if e.a == 0 => how = "unknown-name".into(),
            "revalidated" | "reloaded" | "inserted" | "gone" => how = e.kind.into(),
            _ => {}
        }
    }
    how
}

pub fn run_replay(a: &Args) {
    let stem = a.opt("stem").unwrap_or_else(|| "c19replay".into());
    let mut out = Out::new(&a.out, &stem, 200_000);
    let file = a.opt("histories").expect("--histories FILE");
    let ttl_ticks: u32 = a.opt("ttl").and_then(|s| s.parse().ok()).unwrap_or(2);
    let text = std::fs::read_to_string(&file).unwrap();
    let scratch = a.out.join("c19-dirs");
    jiff::__verif::set_tracing(true);
    for (hid, line) in text.lines().enumerate() {
        let hist: Vec<Value> = match serde_json::from_str(line) {
            Ok(Value::Array(v)) => v,
            _ => continue,
        };
        let root: PathBuf = scratch.join(format!("h{hid}"));
        let _ = std::fs::remove_dir_all(&root);
        std::fs::create_dir_all(&root).unwrap();
        let mut mism: Vec<Value> = Vec::new();
        let mut steps: Vec<Value> = Vec::new();
        let mut db: Option<TimeZoneDatabase> = None;
        let mut gets = 0usize;
        let concat = a.opt("db").as_deref() == Some("concat");
        let cfile = root.join("tzdata");
        let mut cstate = [0i64; 3];
        for (i, st) in hist.iter().enumerate() {
            let op = st["op"].as_str().unwrap_or("");
            match op {
                "init" if concat => {
                    for (idx, (k, _)) in NAMES.iter().enumerate() {
                        cstate[idx] = st["zones"][*k].as_i64().unwrap_or(0);
                    }
                    write_concat(&cfile, &cstate, 1);
                    let d = TimeZoneDatabase::from_concatenated_path(&cfile).unwrap();
                    d.__verif_set_ttl(TICK * ttl_ticks + TICK / 2);
                    d.reset();
                    let _ = jiff::__verif::take_events();
                    db = Some(d);
                }
                "rewrite" => {
                    let v = st["v"].as_i64().unwrap();
                    for (idx, (k, _)) in NAMES.iter().enumerate() {
                        match st["ch"][*k].as_str().unwrap_or("keep") {
                            "new" => cstate[idx] = v,
                            "drop" => cstate[idx] = 0,
                            _ => {}
                        }
                    }
                    write_concat(&cfile, &cstate, v);
                }
                "removefile" => {
                    let _ = std::fs::remove_file(&cfile);
                    cstate = [0; 3];
                }
                "init" => {
                    for (idx, (k, _)) in NAMES.iter().enumerate() {
                        if st["disk"][*k].as_i64().unwrap_or(0) > 0 {
                            write_version(&root, idx, 1);
                        }
                    }
                    // an always-present file so that the directory is a valid zoneinfo directory
                    std::fs::write(root.join("Always"), tzif_fixed(42)).unwrap();
                    let d = TimeZoneDatabase::from_dir(&root).unwrap();
                    // real ttl = TTL ticks + half a tick: clock reads between steps never sit on the boundary
                    d.__verif_set_ttl(TICK * ttl_ticks + TICK / 2);
                    d.reset();
                    let _ = jiff::__verif::take_events();
                    db = Some(d);
                }
                "get" => {
                    let d = db.as_ref().unwrap();
                    let idx = name_idx(st["n"].as_str().unwrap());
                    let q = spell(NAMES[idx].1, gets + hid);
                    gets += 1;
                    let _ = jiff::__verif::take_events();
                    let r = guard(|| d.get(&q));
                    let evs = jiff::__verif::take_events();
                    let (got, how) = match &r {
                        Ok(r) => (decode(idx, r), how_of(&evs)),
                        Err(_) => (-2, "panic".to_string()),
                    };
                    let unsorted = evs.iter().any(|e| e.kind == "inserted" && e.b == 1);
                    let exp = st["ret"].as_i64().unwrap();
                    let exph = st["how"].as_str().unwrap();
                    steps.push(json!({"i":i,"op":"get","q":q,"got":got,"how":how}));
                    if got != exp || how != exph || unsorted {
                        mism.push(json!({"step":i,"query":q,"expected":exp,"got":got,"expected_how":exph,"got_how":how,"cache_unsorted":unsorted}));
                    }
                }
                "reset" => {
                    let r = guard(|| db.as_ref().unwrap().reset());
                    if r.is_err() {
                        mism.push(json!({"step":i,"op":"reset","got":"panic"}));
                    }
                }
                "avail" => {
                    let d = db.as_ref().unwrap();
                    let r = guard(|| d.available().map(|n| n.as_str().to_string()).collect::<Vec<String>>());
                    match r {
                        Ok(list) => {
                            for (k, real) in NAMES.iter() {
                                let got = list.iter().any(|x| x == real) as i64;
                                let exp = st["names"][*k].as_i64().unwrap_or(0);
                                if got != exp {
                                    mism.push(json!({"step":i,"op":"available","name":k,"expected_listed":exp,"listed":got}));
                                }
                            }
                            steps.push(json!({"i":i,"op":"avail","list":list}));
                        }
                        Err(_) => mism.push(json!({"step":i,"op":"available","got":"panic"})),
                    }
                }
                "replace" | "add" => write_version(&root, name_idx(st["n"].as_str().unwrap()), st["v"].as_i64().unwrap()),
                "remove" => {
                    let _ = std::fs::remove_file(root.join(NAMES[name_idx(st["n"].as_str().unwrap())].1));
                }
                "tick" => jiff::__verif::advance_monotonic(TICK),
                _ => {}
            }
        }
        let cls = if hist.iter().any(|s| s["op"] == "tick") { "with-expiry" } else { "no-expiry" };
        out.emit(json!({"op":"history","cls":cls,"hid":hid,"len":hist.len(),"ok":mism.is_empty(),"mismatches":mism,
                        "history": if hid < 3 || !steps.is_empty() && hid % 200 == 0 { Value::Array(hist.clone()) } else { json!([]) },
                        "observed": if hid < 3 { Value::Array(steps) } else { json!([]) }}));
        let _ = std::fs::remove_dir_all(&root);
    }
    let _ = std::fs::remove_dir_all(&scratch);
    out.finish();
}

// ---------------------------------------------------------------------------
// Engine A: concurrent stress with hook events

use std::sync::{Arc, Barrier, Mutex};

#[derive(Clone)]
struct HEv {
    seq: u64,
    v: Value,
}

pub fn run_stress(a: &Args) {
    let runs = a.opt("runs").and_then(|s| s.parse::<usize>().ok()).unwrap_or(if a.quick() { 6 } else { 60 });
    let nthreads = a.opt("threads").and_then(|s| s.parse::<usize>().ok()).unwrap_or(4);
    let rounds = if a.quick() { 6 } else { 10 };
    let ops_per_round = if a.quick() { 14 } else { 30 };
    let ttl_ticks = 2u32;
    let concat = a.opt("db").as_deref() == Some("concat");
    let mut summary_out = Out::new(&a.out, &a.opt("stem").unwrap_or_else(|| "c19stress".into()), 1_000_000);
    for run in 0..runs {
        let root = a.out.join(format!("c19-stress-{run}"));
        let _ = std::fs::remove_dir_all(&root);
        std::fs::create_dir_all(&root).unwrap();
        let mut rng = Rng::new(a.seed, 1900 + run as u64);
        let mut init = serde_json::Map::new();
        for (idx, (k, _)) in NAMES.iter().enumerate() {
            let present = idx == 0 || rng.chance(2, 3);
            if present {
                write_version(&root, idx, 1);
            }
            init.insert(k.to_string(), json!(if present { 1 } else { 0 }));
        }
        std::fs::write(root.join("Always"), tzif_fixed(42)).unwrap();
        let cfile = root.join("tzdata");
        let mut cstate0 = [0i64; 3];
        for (idx, (k, _)) in NAMES.iter().enumerate() {
            cstate0[idx] = init[*k].as_i64().unwrap_or(0);
        }
        let db = if concat {
            write_concat(&cfile, &cstate0, 1);
            TimeZoneDatabase::from_concatenated_path(&cfile).unwrap()
        } else {
            TimeZoneDatabase::from_dir(&root).unwrap()
        };
        db.__verif_set_ttl(TICK * ttl_ticks + TICK / 2);
        db.reset();
        jiff::__verif::set_tracing(true);
        let _ = jiff::__verif::take_events();
        let hev: Arc<Mutex<Vec<HEv>>> = Arc::new(Mutex::new(Vec::new()));
        // jiff thread id -> model thread number
        let tidmap: Arc<Mutex<std::collections::HashMap<u64, usize>>> = Arc::new(Mutex::new(Default::default()));
        let barrier = Arc::new(Barrier::new(nthreads + 2));
        let mut handles = Vec::new();
        let panicked = Arc::new(Mutex::new(Vec::<String>::new()));
        for t in 0..nthreads {
            let (db, hev, barrier, tidmap, panicked) = (db.clone(), hev.clone(), barrier.clone(), tidmap.clone(), panicked.clone());
            let mut rng = Rng::new(a.seed, 77_000 + (run * 64 + t) as u64);
            handles.push(std::thread::spawn(move || {
                tidmap.lock().unwrap().insert(jiff::__verif::current_thread(), t + 1);
                for _round in 0..rounds {
                    barrier.wait();
                    for k in 0..ops_per_round {
                        // every other run resets rarely, so that entries live long enough to expire,
                        // be revalidated and be reloaded
                        if rng.chance(1, if run % 2 == 0 { 12 } else { 90 }) {
                            // reset: the hook event itself carries the thread
                            if guard(|| db.reset()).is_err() {
                                panicked.lock().unwrap().push("reset panicked".into());
                            }
                            continue;
                        }
                        if rng.chance(1, 9) {
                            // the hook events carry the thread and the names returned
                            if guard(|| db.available().count()).is_err() {
                                panicked.lock().unwrap().push("available() panicked".into());
                            }
                            continue;
                        }
                        let idx = (rng.next() % 3) as usize;
                        let q = spell(NAMES[idx].1, k + t);
                        let s0 = jiff::__verif::next_seq();
                        hev.lock().unwrap().push(HEv { seq: s0, v: json!({"ev":"start","t":t + 1,"n":NAMES[idx].0,"q":q}) });
                        let r = guard(|| db.get(&q));
                        let ver = match &r {
                            Ok(r) => decode(idx, r),
                            Err(m) => {
                                panicked.lock().unwrap().push(format!("get({q}) panicked: {m}"));
                                -2
                            }
                        };
                        let s1 = jiff::__verif::next_seq();
                        hev.lock().unwrap().push(HEv { seq: s1, v: json!({"ev":"ret","t":t + 1,"ver":ver}) });
                    }
                    barrier.wait();
                }
            }));
        }
        // writer thread: file operations with start/end markers
        {
            let (hev, barrier, root) = (hev.clone(), barrier.clone(), root.clone());
            let mut rng = Rng::new(a.seed, 99_000 + run as u64);
            let mut present: Vec<bool> = NAMES.iter().enumerate().map(|(i, (k, _))| init[*k].as_i64() == Some(1) && i < 3).collect();
            let cfile = cfile.clone();
            handles.push(std::thread::spawn(move || {
                let mut ver = 2i64;
                let mut cstate = cstate0;
                let mut have_file = true;
                for _round in 0..rounds {
                    barrier.wait();
                    for _ in 0..3 {
                        std::thread::sleep(Duration::from_micros(rng.range(20, 400) as u64));
                        if concat {
                            // the whole file is rewritten (one zone renewed, dropped or nothing changed), or removed
                            let remove = have_file && rng.chance(1, 20);
                            if !remove {
                                let idx = (rng.next() % 3) as usize;
                                match rng.next() % 8 {
                                    0 => cstate[idx] = 0,
                                    1 | 2 | 3 => {}
                                    _ => cstate[idx] = ver,
                                }
                            }
                            let z = json!({"a": if remove {0} else {cstate[0]}, "b": if remove {0} else {cstate[1]}, "c": if remove {0} else {cstate[2]}});
                            let kind = if remove { "removefile" } else { "rewrite" };
                            let mt = if remove { 0 } else { ver };
                            let s0 = jiff::__verif::next_seq();
                            hev.lock().unwrap().push(HEv { seq: s0, v: json!({"ev":"env_start","kind":kind,"mt":mt,"z":z}) });
                            if remove {
                                let _ = std::fs::remove_file(&cfile);
                                have_file = false;
                            } else {
                                write_concat(&cfile, &cstate, ver);
                                have_file = true;
                                ver += 1;
                            }
                            let s1 = jiff::__verif::next_seq();
                            hev.lock().unwrap().push(HEv { seq: s1, v: json!({"ev":"env_end","kind":kind,"mt":mt,"z":z}) });
                            continue;
                        }
                        let idx = (rng.next() % 3) as usize;
                        let (kind, v) = if present[idx] {
                            if rng.chance(1, 4) { ("remove", 0) } else { ("replace", ver) }
                        } else {
                            ("add", ver)
                        };
                        let s0 = jiff::__verif::next_seq();
                        hev.lock().unwrap().push(HEv { seq: s0, v: json!({"ev":"env_start","kind":kind,"n":NAMES[idx].0,"ver":v}) });
                        if kind == "remove" {
                            let _ = std::fs::remove_file(root.join(NAMES[idx].1));
                            present[idx] = false;
                        } else {
                            write_version(&root, idx, ver);
                            present[idx] = true;
                            ver += 1;
                        }
                        let s1 = jiff::__verif::next_seq();
                        hev.lock().unwrap().push(HEv { seq: s1, v: json!({"ev":"env_end","kind":kind,"n":NAMES[idx].0,"ver":v}) });
                    }
                    barrier.wait();
                }
            }));
        }
        // main: ticks while everybody is parked between rounds
        for round in 0..rounds {
            barrier.wait(); // start of round
            barrier.wait(); // end of round: all workers and the writer are parked
            if round % 2 == 1 || run % 3 == 0 || run % 2 == 1 {
                jiff::__verif::advance_monotonic(TICK);
                let s = jiff::__verif::next_seq();
                hev.lock().unwrap().push(HEv { seq: s, v: json!({"ev":"tick"}) });
            }
        }
        for h in handles {
            let _ = h.join();
        }
        // merge hook events and harness events by sequence number
        let map = tidmap.lock().unwrap().clone();
        let mut all: Vec<HEv> = hev.lock().unwrap().clone();
        for e in jiff::__verif::take_events() {
            let t = map.get(&e.thread).copied().unwrap_or(0);
            let n = NAMES.iter().find(|x| x.1.eq_ignore_ascii_case(&e.query)).map(|x| x.0).unwrap_or("?");
            let v = match e.kind {
                "fast" => json!({"ev":"fast","t":t,"n":n,"cached":e.a,"fresh":e.b}),
                "names_r" => json!({"ev":"names_r","t":t,"n":n,"found":e.a}),
                "names_w" => json!({"ev":"names_w","t":t,"n":n,"found":e.a,"refreshed":e.b}),
                "reset" => json!({"ev":"reset","t":t}),
                "names_reset" => json!({"ev":"names_reset","t":t}),
                "slow_begin" => json!({"ev":"slow_begin","t":t,"n":n}),
                "names_w_begin" => json!({"ev":"names_w_begin","t":t,"n":n}),
                "names_avail_begin" => json!({"ev":"names_avail_begin","t":t}),
                "names_avail" => {
                    let listed: Vec<&str> = e.query.split(',').collect();
                    let mut m = serde_json::Map::new();
                    for (k, real) in NAMES.iter() {
                        m.insert(k.to_string(), json!(listed.iter().any(|x| x == real) as i64));
                    }
                    json!({"ev":"names_avail","t":t,"names":Value::Object(m),"count":e.a,"refreshed":e.b})
                }
                "inserted" => json!({"ev":"slow","t":t,"n":n,"kind":"inserted","unsorted":e.b}),
                k => json!({"ev":"slow","t":t,"n":n,"kind":k}),
            };
            all.push(HEv { seq: e.seq, v });
        }
        all.sort_by_key(|e| e.seq);
        let path = a.out.join(format!("c19trace-{run:03}.ndjson"));
        let mut text = String::new();
        text.push_str(&serde_json::to_string(&json!({"ev":"init","disk":Value::Object(init.clone()),"zones":Value::Object(init.clone())})).unwrap());
        text.push('\n');
        let mut unsorted = false;
        for e in &all {
            if e.v["unsorted"] == json!(1) {
                unsorted = true;
            }
            text.push_str(&serde_json::to_string(&e.v).unwrap());
            text.push('\n');
        }
        std::fs::write(&path, text).unwrap();
        let pan = panicked.lock().unwrap().clone();
        summary_out.emit(json!({"op":"stress_run","cls": "concurrent","run":run,"events":all.len(),"threads":nthreads,
                                "trace":path.to_string_lossy(),"panics":pan,"cache_unsorted":unsorted}));
        let _ = std::fs::remove_dir_all(&root);
    }
    summary_out.finish();
}
