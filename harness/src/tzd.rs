//! Time-zone drivers (C03 instant lookups, C04 civil resolution, C14
//! transition iterators).  Each zone is introduced by a "zone" event that
//! carries the abstract zone produced by the independent reader
//! (tzread.rs); the following events are observations of jiff on that zone.

use crate::common::*;
use crate::tzcorpus::{self, ZoneSrc};
use crate::tzread::AZone;
use jiff::tz::TimeZone;
use jiff::Timestamp;
use serde_json::{json, Value};

pub const TS_MIN: i64 = -377705023201;
pub const TS_MAX: i64 = 253402207200;

pub fn jiff_zone(z: &ZoneSrc) -> Result<TimeZone, String> {
    crate::loaders::load(z)
}

pub fn zone_event(az: &AZone, class: &str) -> Value {
    let mut v = az.to_json();
    let o = v.as_object_mut().unwrap();
    o.insert("op".into(), json!("zone"));
    o.insert("cls".into(), json!(format!("zone-{class}")));
    o.insert("src".into(), json!(az.footer));
    // input-class tag for the known finding D8 (rule transitions that fall
    // outside their own UTC calendar year); not used by the spec
    let xyear = az.rule.as_ref().map(|r| tzcorpus::rule_crosses_year(r)).unwrap_or(false);
    o.insert("xyear".into(), json!(if xyear { 1 } else { 0 }));
    v
}

fn mkts(nanos: i128) -> Option<Timestamp> {
    Timestamp::from_nanosecond(nanos).ok()
}

fn info_event(tz: &TimeZone, ts: Timestamp, cls: &str) -> Value {
    let r = guard(|| {
        let info = tz.to_offset_info(ts);
        let off2 = tz.to_offset(ts);
        let civil = tz.to_datetime(ts);
        json!({"st":"ok","off":info.offset().seconds(),"dst": if info.dst().is_dst() {1} else {0},
               "ab":info.abbreviation(),"off2":off2.seconds(),"civil":jdt(civil)})
    });
    let mut v = match r {
        Ok(v) => v,
        Err(m) => json!({"st":"panic","msg":m}),
    };
    let o = v.as_object_mut().unwrap();
    o.insert("op".into(), json!("info"));
    o.insert("cls".into(), json!(cls));
    o.insert("nye".into(), json!(if tzcorpus::near_new_year(ts.as_second()) { 1 } else { 0 }));
    o.insert("sec".into(), big(ts.as_second() as i128));
    o.insert("ns".into(), json!(ts.subsec_nanosecond()));
    v
}

/// the six probes of the property around an instant T (seconds)
fn around(t: i64) -> [(i128, &'static str); 6] {
    let n = t as i128 * 1_000_000_000;
    [
        (n - 1_000_000_000, "T-1s"),
        (n - 1, "T-1ns"),
        (n - 500_000_000, "T-0.5s"),
        (n, "T"),
        (n + 1, "T+1ns"),
        (n + 1_000_000_000, "T+1s"),
    ]
}

pub struct Corpus {
    pub zones: Vec<ZoneSrc>,
}

pub fn corpus(a: &Args, rng: &mut Rng, want_bundled: bool) -> Corpus {
    let mut zones = Vec::new();
    let only = a.opt("zone");
    let mut sys = tzcorpus::dedup(tzcorpus::system());
    if a.quick() {
        if let Some(n) = a.opt("max-system").and_then(|s| s.parse::<usize>().ok()) {
            // deterministic subsample: keep the interesting ones + a seeded sample
            let keep = [
                "America/New_York", "Europe/Dublin", "Africa/Casablanca", "Australia/Lord_Howe", "Pacific/Apia",
                "Antarctica/Troll", "Europe/London", "Asia/Kolkata", "Europe/Moscow", "America/Nuuk",
                "Pacific/Kiritimati", "Asia/Tehran", "America/St_Johns", "Africa/Monrovia", "Europe/Amsterdam",
                "Pacific/Kwajalein", "America/Sao_Paulo", "Asia/Gaza", "Pacific/Chatham", "Asia/Kathmandu",
                "America/Caracas", "Europe/Lisbon", "Asia/Tokyo", "America/Phoenix", "Africa/Cairo", "Etc/UTC",
                "Pacific/Honolulu", "America/Scoresbysund", "Atlantic/Azores", "Asia/Pyongyang", "Africa/El_Aaiun",
                "America/Godthab", "Australia/Sydney", "Pacific/Auckland", "America/Havana", "Asia/Jerusalem",
            ];
            let mut kept: Vec<ZoneSrc> = Vec::new();
            let mut restv: Vec<ZoneSrc> = Vec::new();
            for z in sys {
                if keep.contains(&z.name.as_str()) {
                    kept.push(z)
                } else {
                    restv.push(z)
                }
            }
            while kept.len() < n && !restv.is_empty() {
                let i = (rng.next() % restv.len() as u64) as usize;
                kept.push(restv.swap_remove(i));
            }
            sys = kept;
        }
    }
    zones.extend(sys);
    if let Some(dir) = a.opt("zones") {
        zones.extend(tzcorpus::tzif_files(&format!("{dir}/slim"), "synthetic-slim", &[]));
        zones.extend(tzcorpus::tzif_files(&format!("{dir}/fat"), "synthetic-fat", &[]));
    }
    if want_bundled || !a.quick() {
        let mut b = tzcorpus::dedup(tzcorpus::bundled());
        if let Some(n) = a.opt("max-bundled").and_then(|s| s.parse::<usize>().ok()) {
            // deterministic subsample (seeded), behind the ones whose slim data ends in an unusual way
            // (America/Nuuk: the last recorded transition changes no offset but coincides with a rule transition)
            let keepb = ["America/Nuuk", "America/Godthab", "Europe/Dublin", "America/New_York", "Africa/Casablanca",
                         "Pacific/Auckland", "America/Sao_Paulo", "Asia/Tokyo"];
            let mut kept = Vec::new();
            let mut i = 0;
            while i < b.len() {
                if keepb.contains(&b[i].name.as_str()) {
                    kept.push(b.swap_remove(i));
                } else {
                    i += 1;
                }
            }
            while kept.len() < n && !b.is_empty() {
                let i = (rng.next() % b.len() as u64) as usize;
                kept.push(b.swap_remove(i));
            }
            b = kept;
        }
        zones.extend(b);
    }
    if !a.quick() || a.opt("right").is_some() {
        let mut r = tzcorpus::dedup(tzcorpus::system_right());
        if a.quick() {
            r.truncate(6);
        }
        zones.extend(r);
    }
    for (i, s) in tzcorpus::POSIX_FIXED.iter().enumerate() {
        zones.push(ZoneSrc { name: format!("posix-fixed-{i}"), class: "posix-string".into(), bytes: s.as_bytes().to_vec() });
    }
    let n_gen = if a.quick() { 60 } else { 2000 };
    for i in 0..n_gen {
        let s = tzcorpus::gen_posix(rng);
        zones.push(ZoneSrc { name: format!("posix-gen-{i}"), class: "posix-string".into(), bytes: s.into_bytes() });
    }
    if let Some(o) = only {
        zones.retain(|z| z.name == o);
    }
    // C18: the selected loader restricts the corpus to what it can serve
    crate::loaders::init(a, &mut zones);
    Corpus { zones }
}

/// seconds at which something may change: explicit transitions plus rule
/// points of the selected years
pub fn change_points(a: &Args, az: &AZone, rng: &mut Rng) -> Vec<(i64, &'static str)> {
    let mut pts: Vec<(i64, &'static str)> = Vec::new();
    for &(t, _) in &az.trans {
        if t > TS_MIN && t < TS_MAX {
            pts.push((t, if t < 0 { "explicit-pre-epoch" } else { "explicit" }));
        }
    }
    if let Some(r) = &az.rule {
        if r.dst.is_some() {
            let last_year = az.trans.last().map(|&(t, _)| 1970 + t.div_euclid(31556952)).unwrap_or(-9999);
            let years: Vec<i64> = if a.quick() {
                let mut ys = vec![last_year, last_year + 1, 2037, 2038, 2039, 2400, 5000, 9998, 9999];
                if az.trans.is_empty() {
                    ys.extend_from_slice(&[-9999, -9998, -1, 0, 1, 1969, 1970, 1971, 2024]);
                }
                ys.push(rng.range(last_year.max(-9999), 9999));
                ys
            } else {
                // every year for sixty years after the data ends and around 2038, every 37th year of the whole
                // range, both ends, and forty seeded years (every year of the range was 400 million events)
                let lo = last_year.max(-9999);
                let mut ys: Vec<i64> = (lo..=(lo + 60).min(9999)).collect();
                ys.extend(2030..=2045);
                ys.extend((lo..=9999).step_by(37));
                ys.extend_from_slice(&[-9999, -9998, -1, 0, 1, 1969, 1970, 1971, 9997, 9998, 9999]);
                for _ in 0..40 {
                    ys.push(rng.range(lo, 9999));
                }
                ys.sort();
                ys.dedup();
                ys
            };
            for y in years {
                if y < last_year.max(-9999) || y > 9999 {
                    continue;
                }
                for p in tzcorpus::rule_points(r, y) {
                    if p > TS_MIN + 2 && p < TS_MAX - 2 {
                        pts.push((p, if p < 0 { "rule-pre-epoch" } else { "rule" }));
                    }
                }
            }
        }
    }
    pts
}

pub fn run_c03(a: &Args) {
    let mut out = Out::new(&a.out, "c03", 60_000);
    let mut rng = Rng::new(a.seed, 3);
    if let Some(p) = a.opt("replay") {
        replay(&mut out, &p);
        out.finish();
        return;
    }
    let c = corpus(a, &mut rng, true);
    let n_rand = if a.quick() { 12 } else { 200 };
    for z in &c.zones {
        let az = match tzcorpus::load(z) {
            Ok(az) => az,
            Err(_) => continue, // not readable by the independent reader: not in scope
        };
        let tz = match jiff_zone(z) {
            Ok(tz) => tz,
            Err(e) => {
                out.soft_cut(45_000);
                out.set_header(vec![zone_event(&az, &z.class)]);
                out.emit(json!({"op":"load","cls":"load-fail","name":z.name,"class":z.class,"msg":e,
                                "posix": if z.class == "posix-string" { String::from_utf8_lossy(&z.bytes).to_string() } else { String::new() }}));
                continue;
            }
        };
        out.soft_cut(45_000);
        out.set_header(vec![zone_event(&az, &z.class)]);
        for e in crate::loaders::lookups(z) {
            out.emit(e);
        }
        for (t, cls) in change_points(a, &az, &mut rng) {
            for (n, tag) in around(t) {
                if let Some(ts) = mkts(n) {
                    let cls2 = if tag == "T-0.5s" || tag == "T-1ns" {
                        if t < 0 { "frac-before-pre-epoch" } else { "frac-before" }
                    } else {
                        cls
                    };
                    out.emit(info_event(&tz, ts, cls2));
                }
            }
        }
        out.emit(info_event(&tz, Timestamp::MIN, "limit"));
        out.emit(info_event(&tz, Timestamp::MAX, "limit"));
        for _ in 0..n_rand {
            let n = rng.range128(TS_MIN as i128 * 1_000_000_000, TS_MAX as i128 * 1_000_000_000);
            out.emit(info_event(&tz, mkts(n).unwrap(), "plain"));
        }
    }
    out.finish();
}

// ---------------------------------------------------------------------------
// C04: civil -> instant

fn jts(r: &Result<Result<Timestamp, jiff::Error>, String>) -> Value {
    match r {
        Ok(Ok(t)) => json!({"st":"ok","rsec":big(t.as_second() as i128),"rns":t.subsec_nanosecond()}),
        Ok(Err(_)) => json!({"st":"err"}),
        Err(m) => json!({"st":"panic","msg":m}),
    }
}

fn dt_from_local(local_sec: i64, ns: i32) -> Option<jiff::civil::DateTime> {
    let days = local_sec.div_euclid(86400);
    let sod = local_sec.rem_euclid(86400);
    let (y, m, d) = tzcorpus::civil_from_days(days);
    if !(-9999..=9999).contains(&y) {
        return None;
    }
    jiff::civil::DateTime::new(y as i16, m as i8, d as i8, (sod / 3600) as i8, (sod % 3600 / 60) as i8, (sod % 60) as i8, ns).ok()
}

fn amb_event(tz: &TimeZone, dt: jiff::civil::DateTime, cls: &str) -> Value {
    use jiff::tz::AmbiguousOffset as AO;
    let r = guard(|| {
        let at = tz.to_ambiguous_timestamp(dt);
        let (kind, b, a) = match at.offset() {
            AO::Unambiguous { offset } => ("u", offset.seconds(), offset.seconds()),
            AO::Gap { before, after } => ("g", before.seconds(), after.seconds()),
            AO::Fold { before, after } => ("f", before.seconds(), after.seconds()),
        };
        let compatible = guard(|| tz.to_ambiguous_timestamp(dt).compatible());
        let earlier = guard(|| tz.to_ambiguous_timestamp(dt).earlier());
        let later = guard(|| tz.to_ambiguous_timestamp(dt).later());
        let reject = guard(|| tz.to_ambiguous_timestamp(dt).unambiguous());
        let tzts = guard(|| tz.to_timestamp(dt));
        let zoned = guard(|| dt.to_zoned(tz.clone()).map(|z| z.timestamp()));
        let shows = match &compatible {
            Ok(Ok(ts)) => guard(|| tz.to_datetime(*ts)).map(jdt).unwrap_or(json!("panic")),
            _ => json!(0),
        };
        json!({"st":"ok","kind":kind,"b":b,"a":a,"compatible":jts(&compatible),"earlier":jts(&earlier),
               "later":jts(&later),"reject":jts(&reject),"tzts":jts(&tzts),"zoned":jts(&zoned),"shows":shows})
    });
    let mut v = match r {
        Ok(v) => v,
        Err(m) => json!({"st":"panic","msg":m}),
    };
    let o = v.as_object_mut().unwrap();
    o.insert("op".into(), json!("amb"));
    o.insert("cls".into(), json!(cls));
    let nye = (dt.month() == 12 && dt.day() >= 22) || (dt.month() == 1 && dt.day() <= 10);
    o.insert("nye".into(), json!(if nye { 1 } else { 0 }));
    o.insert("civil".into(), jdt(dt));
    v
}

/// offsets in force on both sides of every change point, from the
/// independent reader's tables (input selection only)
fn offsets_around(az: &AZone, t: i64) -> (i32, i32) {
    if let Some(i) = az.trans.iter().position(|&(tt, _)| tt == t) {
        let before = if i == 0 { az.types[0].off } else { az.types[az.trans[i - 1].1].off };
        return (before, az.types[az.trans[i].1].off);
    }
    match &az.rule {
        Some(r) => (r.std_off, r.dst.as_ref().map(|d| d.off).unwrap_or(r.std_off)),
        None => (0, 0),
    }
}

pub fn run_c04(a: &Args) {
    let mut out = Out::new(&a.out, "c04", 60_000);
    let mut rng = Rng::new(a.seed, 4);
    let c = corpus(a, &mut rng, true);
    let n_rand = if a.quick() { 10 } else { 200 };
    for z in &c.zones {
        let az = match tzcorpus::load(z) {
            Ok(az) => az,
            Err(_) => continue,
        };
        let tz = match jiff_zone(z) {
            Ok(tz) => tz,
            Err(_) => continue, // reported by the C03 driver
        };
        out.soft_cut(40_000);
        out.set_header(vec![zone_event(&az, &z.class)]);
        for (t, cls) in change_points(a, &az, &mut rng) {
            let (o1, o2) = offsets_around(&az, t);
            let lo = t + o1.min(o2) as i64;
            let hi = t + o1.max(o2) as i64;
            let kind = if o1 < o2 { "gap" } else if o1 > o2 { "fold" } else { "noop" };
            let probes: [(i64, i32, &str); 9] = [
                (lo - 1, 0, "start-1s"), (lo - 1, 999_999_999, "start-1ns"), (lo, 0, "start"), (lo, 1, "start+1ns"),
                ((lo + hi) / 2, 500_000_000, "middle"), (hi - 1, 999_999_999, "end-1ns"), (hi, 0, "end"),
                (hi, 1, "end+1ns"), (hi + 1, 0, "end+1s"),
            ];
            for (ls, ns, _tag) in probes {
                if let Some(dt) = dt_from_local(ls, ns) {
                    let cls2 = format!("{kind}-{}", if cls.starts_with("rule") { "rule" } else { "explicit" });
                    out.emit(amb_event(&tz, dt, &cls2));
                }
            }
        }
        use jiff::civil::DateTime;
        for dt in [DateTime::MIN, DateTime::MAX] {
            out.emit(amb_event(&tz, dt, "limit"));
        }
        for (ls, ns) in [(-377705116800i64 + 1, 0), (-377705116800 + 86400, 0), (-377705116800 + 93599, 1), (-377705116800 + 2 * 86400, 0),
                         (253402300799, 0), (253402300799 - 86400, 999_999_999), (253402300799 - 93599, 0), (253402300799 - 2 * 86400, 5)] {
            if let Some(dt) = dt_from_local(ls, ns) {
                out.emit(amb_event(&tz, dt, "limit"));
            }
        }
        for _ in 0..n_rand {
            let ls = rng.range(-377705116800, 253402300799);
            if let Some(dt) = dt_from_local(ls, rng.range(0, 999_999_999) as i32) {
                out.emit(amb_event(&tz, dt, "plain"));
            }
        }
    }
    out.finish();
}

// ---------------------------------------------------------------------------
// C14: transition iterators

fn iter_event(tz: &TimeZone, start: Timestamp, forward: bool, max_items: usize, cls: &str) -> Value {
    let r = guard(|| {
        let mut items = Vec::new();
        let mut end = "none";
        let mut last: Option<Timestamp> = None;
        let item = |t: &jiff::tz::TimeZoneTransition| {
            json!({"sec":big(t.timestamp().as_second() as i128),"ns":t.timestamp().subsec_nanosecond(),
                   "off":t.offset().seconds(),"dst": if t.dst().is_dst() {1} else {0},"ab":t.abbreviation()})
        };
        if forward {
            for t in tz.following(start) {
                if items.len() >= max_items { end = "limit"; break; }
                if last == Some(t.timestamp()) { end = "stuck"; break; }
                last = Some(t.timestamp());
                items.push(item(&t));
            }
        } else {
            for t in tz.preceding(start) {
                if items.len() >= max_items { end = "limit"; break; }
                if last == Some(t.timestamp()) { end = "stuck"; break; }
                last = Some(t.timestamp());
                items.push(item(&t));
            }
        }
        json!({"st":"ok","items":items,"end":end})
    });
    let mut v = match r {
        Ok(v) => v,
        Err(m) => json!({"st":"panic","msg":m}),
    };
    let o = v.as_object_mut().unwrap();
    o.insert("op".into(), json!("iter"));
    o.insert("cls".into(), json!(cls));
    let mut nye = tzcorpus::near_new_year(start.as_second());
    if let Some(items) = o.get("items").and_then(|i| i.as_array()) {
        for it in items {
            nye = nye || tzcorpus::near_new_year(unbig(&it["sec"]) as i64);
        }
    }
    // a finished iterator: the transition it may have missed cannot be located here
    if o.get("end").and_then(|e| e.as_str()) == Some("none") {
        nye = true;
    }
    o.insert("nye".into(), json!(if nye { 1 } else { 0 }));
    o.insert("dir".into(), json!(if forward { "f" } else { "p" }));
    o.insert("sec".into(), big(start.as_second() as i128));
    o.insert("ns".into(), json!(start.subsec_nanosecond()));
    v
}

pub fn run_c14(a: &Args) {
    let mut out = Out::new(&a.out, "c14", 40_000);
    let mut rng = Rng::new(a.seed, 14);
    let c = corpus(a, &mut rng, true);
    // (a walk over all 16,000 transitions up to year 9999 takes TLC a quarter of an hour per zone)
    let long = if a.quick() { 60 } else { 600 };
    for z in &c.zones {
        let az = match tzcorpus::load(z) {
            Ok(az) => az,
            Err(_) => continue,
        };
        let tz = match jiff_zone(z) {
            Ok(tz) => tz,
            Err(_) => continue,
        };
        out.soft_cut(25_000);
        out.set_header(vec![zone_event(&az, &z.class)]);
        let pts = change_points(a, &az, &mut rng);
        for (pi, &(t, cls)) in pts.iter().enumerate() {
            // the thorough tier: recorded transitions with all seven offsets, every twenty-fourth rule point with
            // three (an iterator event costs TLC 6 to 40 ms; all points x all offsets was 32 million events)
            if !a.quick() && cls.starts_with("rule") && pi % 24 != 0 {
                continue;
            }
            // ... and at most about 80 of the recorded transitions of a zone (the last 30 and a spread of the others)
            if !a.quick() && !cls.starts_with("rule") && az.trans.len() > 80 && pi + 30 < az.trans.len() && pi % (az.trans.len() / 50 + 1) != 0 {
                continue;
            }
            let n = t as i128 * 1_000_000_000;
            let deltas: &[i128] = if cls.starts_with("rule") {
                &[-1, 0, 1]
            } else {
                &[-1_000_000_000, -500_000_000, -1, 0, 1, 500_000_000, 1_000_000_000]
            };
            for &d in deltas {
                if let Some(ts) = mkts(n + d) {
                    let cls2 = if d != 0 && d.abs() < 1_000_000_000 {
                        if t < 0 { "frac-start-pre-epoch" } else { "frac-start" }
                    } else {
                        cls
                    };
                    out.emit(iter_event(&tz, ts, true, 2, cls2));
                    out.emit(iter_event(&tz, ts, false, 2, cls2));
                }
            }
        }
        // long walks: from both ends and across the table/rule hand-over
        out.emit(iter_event(&tz, Timestamp::MIN, true, long, "walk-from-min"));
        out.emit(iter_event(&tz, Timestamp::MAX, false, long, "walk-from-max"));
        out.emit(iter_event(&tz, Timestamp::MIN, false, 3, "limit"));
        out.emit(iter_event(&tz, Timestamp::MAX, true, 3, "limit"));
        if let Some(&(tl, _)) = az.trans.last() {
            if let Some(ts) = mkts((tl as i128 - 40 * 86400 * 365) * 1_000_000_000) {
                out.emit(iter_event(&tz, ts, true, long.min(200), "handover"));
            }
            if let Some(ts) = mkts((tl as i128 + 3 * 86400 * 365) * 1_000_000_000) {
                out.emit(iter_event(&tz, ts, false, long.min(200), "handover"));
            }
        }
        // the last years of the range, to exhaustion
        if let Some(ts) = mkts((TS_MAX as i128 - 9 * 365 * 86400) * 1_000_000_000) {
            out.emit(iter_event(&tz, ts, true, 40, "range-end"));
        }
        if let Some(ts) = mkts((TS_MIN as i128 + 9 * 365 * 86400) * 1_000_000_000) {
            out.emit(iter_event(&tz, ts, false, 40, "range-start"));
        }
        for _ in 0..(if a.quick() { 4 } else { 50 }) {
            let n = rng.range128(TS_MIN as i128 * 1_000_000_000, TS_MAX as i128 * 1_000_000_000);
            out.emit(iter_event(&tz, mkts(n).unwrap(), rng.chance(1, 2), 3, "plain"));
        }
    }
    out.finish();
}

/// Replay: the replay file's cases carry the zone name/class; the zone
/// event is re-derived from the same source.
pub fn replay(_out: &mut Out, _path: &str) {
    // Zone-bound events are replayed by re-running the driver restricted to
    // the zone (see ./check --replay: it passes --zone <name>).
}
