//! C16 driver: strftime / strptime and RFC 2822.
//!
//! Projection only: the driver formats values and parses the text back; what
//! the text and the re-parsed values must be is decided by Strtime.tla.
//!
//! ops
//!   fmt    one value, one format -> text
//!   rt     the same plus the text parsed back into every type
//!   contra a date formatted with a wrong weekday, parsed back
//!   rfc_p  RFC 2822 / RFC 9110 print and re-parse
//!   rfc_m  RFC 2822 text assembled from variant tokens, parsed

use crate::common::*;
use crate::text::codes;
use jiff::civil::{Date, DateTime, Time};
use jiff::fmt::rfc2822;
use jiff::fmt::strtime::BrokenDownTime;
use jiff::tz::{Offset, TimeZone};
use jiff::{Timestamp, Zoned};
use serde_json::{json, Value};

#[derive(Clone)]
pub enum Val {
    Z(Zoned),
    Ts(Timestamp),
    Dt(DateTime),
    D(Date),
    T(Time),
}

fn text_of(v: &Value) -> String {
    v.as_array().map(|a| a.iter().map(|c| c.as_i64().unwrap_or(63) as u8 as char).collect()).unwrap_or_default()
}

impl Val {
    fn json(&self, wdo: i64) -> Value {
        match self {
            Val::Z(z) => {
                let info = z.time_zone().to_offset_info(z.timestamp());
                json!({"k":1,"f":jdt(z.datetime()),"off":z.offset().seconds(),"abbr":codes(info.abbreviation()),
                       "iana":codes(z.time_zone().iana_name().unwrap_or("")),"wdo":wdo})
            }
            Val::Ts(t) => json!({"k":2,"f":jdt(Offset::UTC.to_datetime(*t)),"off":0,"abbr":[],"iana":[],"wdo":wdo}),
            Val::Dt(d) => json!({"k":3,"f":jdt(*d),"off":0,"abbr":[],"iana":[],"wdo":wdo}),
            Val::D(d) => json!({"k":4,"f":[d.year(),d.month(),d.day(),0,0,0,0],"off":0,"abbr":[],"iana":[],"wdo":wdo}),
            Val::T(t) => json!({"k":5,"f":[1970,1,1,t.hour(),t.minute(),t.second(),t.subsec_nanosecond()],"off":0,"abbr":[],"iana":[],"wdo":wdo}),
        }
    }
    fn from_json(v: &Value) -> Option<Val> {
        let f: Vec<i64> = v["f"].as_array()?.iter().map(|x| x.as_i64().unwrap_or(0)).collect();
        let date = Date::new(f[0] as i16, f[1] as i8, f[2] as i8).ok()?;
        let time = Time::new(f[3] as i8, f[4] as i8, f[5] as i8, f[6] as i32).ok()?;
        let dt = DateTime::from_parts(date, time);
        Some(match v["k"].as_i64()? {
            1 => {
                let off = Offset::from_seconds(v["off"].as_i64()? as i32).ok()?;
                let ts = off.to_timestamp(dt).ok()?;
                let name = text_of(&v["iana"]);
                let tz = if name.is_empty() { TimeZone::fixed(off) } else { jiff::tz::db().get(&name).ok()? };
                Val::Z(ts.to_zoned(tz))
            }
            2 => Val::Ts(Offset::UTC.to_timestamp(dt).ok()?),
            3 => Val::Dt(dt),
            4 => Val::D(date),
            _ => Val::T(time),
        })
    }
    fn tm(&self) -> BrokenDownTime {
        match self {
            Val::Z(z) => BrokenDownTime::from(z),
            Val::Ts(t) => BrokenDownTime::from(*t),
            Val::Dt(d) => BrokenDownTime::from(*d),
            Val::D(d) => BrokenDownTime::from(*d),
            Val::T(t) => BrokenDownTime::from(*t),
        }
    }
    fn cls(&self) -> &'static str {
        match self {
            Val::Z(_) => "zoned",
            Val::Ts(_) => "timestamp",
            Val::Dt(_) => "datetime",
            Val::D(_) => "date",
            Val::T(_) => "time",
        }
    }
}

/// text -> codes; Err -> [-1]; panic -> [-2]
fn jout(r: &Result<Result<String, jiff::Error>, String>) -> Value {
    match r {
        Ok(Ok(s)) => codes(s),
        Ok(Err(_)) => json!([-1]),
        Err(_) => json!([-2]),
    }
}
fn sout(r: &Result<Result<String, jiff::Error>, String>) -> String {
    match r {
        Ok(Ok(s)) => s.clone(),
        Ok(Err(e)) => format!("Err({e})"),
        Err(m) => format!("panic: {m}"),
    }
}

fn jz(r: Result<Result<Zoned, jiff::Error>, String>) -> (Value, Value) {
    match r {
        Ok(Ok(z)) => {
            let mut f = jdt(z.datetime());
            f.as_array_mut().unwrap().push(json!(z.offset().seconds()));
            (f, codes(z.time_zone().iana_name().unwrap_or("")))
        }
        Ok(Err(_)) => (json!([]), json!([])),
        Err(_) => (json!([-1]), json!([])),
    }
}
fn jts(r: Result<Result<Timestamp, jiff::Error>, String>) -> Value {
    match r {
        Ok(Ok(t)) => jdt(Offset::UTC.to_datetime(t)),
        Ok(Err(_)) => json!([]),
        Err(_) => json!([-1]),
    }
}
fn jrdt(r: Result<Result<DateTime, jiff::Error>, String>) -> Value {
    match r {
        Ok(Ok(t)) => jdt(t),
        Ok(Err(_)) => json!([]),
        Err(_) => json!([-1]),
    }
}
fn jrd(r: Result<Result<Date, jiff::Error>, String>) -> Value {
    match r {
        Ok(Ok(t)) => jdate(t),
        Ok(Err(_)) => json!([]),
        Err(_) => json!([-1]),
    }
}
fn jrt(r: Result<Result<Time, jiff::Error>, String>) -> Value {
    match r {
        Ok(Ok(t)) => jtime(t),
        Ok(Err(_)) => json!([]),
        Err(_) => json!([-1]),
    }
}

/// Parse `text` with `fmt` into every type, through BrokenDownTime and
/// through the type's own strptime.
fn parse_all(fmt: &str, text: &str) -> Value {
    let tm = guard(|| BrokenDownTime::parse(fmt, text));
    let (z, zname, ts, dt, d, t) = match &tm {
        Ok(Ok(tm)) => {
            let (z, zn) = jz(guard(|| tm.to_zoned()));
            (z, zn, jts(guard(|| tm.to_timestamp())), jrdt(guard(|| tm.to_datetime())), jrd(guard(|| tm.to_date())), jrt(guard(|| tm.to_time())))
        }
        Ok(Err(_)) => (json!([]), json!([]), json!([]), json!([]), json!([]), json!([])),
        Err(_) => (json!([-1]), json!([]), json!([-1]), json!([-1]), json!([-1]), json!([-1])),
    };
    let (az, azn) = jz(guard(|| Zoned::strptime(fmt, text)));
    json!({"z":z,"zname":zname,"ts":ts,"dt":dt,"d":d,"t":t,
           "az":az,"azname":azn,
           "ats":jts(guard(|| Timestamp::strptime(fmt, text))),
           "adt":jrdt(guard(|| DateTime::strptime(fmt, text))),
           "ad":jrd(guard(|| Date::strptime(fmt, text))),
           "at":jrt(guard(|| Time::strptime(fmt, text)))})
}

fn ev_fmt(v: &Val, fmt: &str, cls: &str) -> Value {
    let r = guard(|| v.tm().to_string(fmt));
    json!({"op":"fmt","cls":cls,"v":v.json(0),"fmt":codes(fmt),"sfmt":fmt,"out":jout(&r),"s":sout(&r)})
}

fn ev_rt(v: &Val, fmt: &str, cls: &str) -> Value {
    let r = guard(|| v.tm().to_string(fmt));
    let re = match &r {
        Ok(Ok(text)) => parse_all(fmt, text),
        _ => Value::Null,
    };
    let mut e = json!({"op":"rt","cls":cls,"v":v.json(0),"fmt":codes(fmt),"sfmt":fmt,"out":jout(&r),"s":sout(&r)});
    if !re.is_null() {
        e["re"] = re;
    } else {
        let empty = json!([]);
        e["re"] = json!({"z":empty,"zname":empty,"ts":empty,"dt":empty,"d":empty,"t":empty,"az":empty,"azname":empty,"ats":empty,"adt":empty,"ad":empty,"at":empty});
    }
    // %A cannot read "Tuesday" (KNOWN_FINDINGS D28): mark the events it affects
    let tue = match v {
        Val::T(_) => false,
        Val::Z(z) => z.weekday() == jiff::civil::Weekday::Tuesday,
        Val::Ts(t) => Offset::UTC.to_datetime(*t).weekday() == jiff::civil::Weekday::Tuesday,
        Val::Dt(d) => d.weekday() == jiff::civil::Weekday::Tuesday,
        Val::D(d) => d.weekday() == jiff::civil::Weekday::Tuesday,
    };
    e["tueA"] = json!(if tue && has_directive(fmt, 'A') { 1 } else { 0 });
    e
}

/// Does the format contain the directive `c` (after any flag and width)?
fn has_directive(fmt: &str, c: char) -> bool {
    let b = fmt.as_bytes();
    let mut i = 0;
    while i < b.len() {
        if b[i] == b'%' {
            i += 1;
            while i < b.len() && (b"_-0^#".contains(&b[i]) || b[i].is_ascii_digit()) {
                i += 1;
            }
            if i < b.len() && b[i] as char == c {
                return true;
            }
        }
        i += 1;
    }
    false
}

fn ev_contra(d: Date, shift: i64, wdfmt: &str, rest: &str, wd_first: bool) -> Value {
    let other = d.checked_add(jiff::Span::new().days(shift)).or_else(|_| d.checked_sub(jiff::Span::new().days(7 - shift))).unwrap_or(d);
    let fmt = if wd_first { format!("{wdfmt}{rest}") } else { format!("{rest}{wdfmt}") };
    // the weekday directive printed from another day, the rest from `d`
    let r = guard(|| {
        let a = BrokenDownTime::from(other).to_string(wdfmt)?;
        let b = BrokenDownTime::from(d).to_string(rest)?;
        Ok(if wd_first { format!("{a}{b}") } else { format!("{b}{a}") })
    });
    let re = match &r {
        Ok(Ok(text)) => json!({"d": jrd(guard(|| BrokenDownTime::parse(&fmt, text).and_then(|tm| tm.to_date()))),
                               "ad": jrd(guard(|| Date::strptime(&fmt, text)))}),
        _ => json!({"d":[],"ad":[]}),
    };
    let tue = other.weekday() == jiff::civil::Weekday::Tuesday && wdfmt.contains("%A");
    json!({"op":"contra","cls":"wrong-weekday","v":Val::D(d).json(wd_num(other.weekday())),"fmt":codes(&fmt),"sfmt":fmt,
           "wdfmt":wdfmt,"rest":rest,"wd_first":wd_first,"out":jout(&r),"s":sout(&r),"re":re,"tueA": if tue {1} else {0}})
}

// ---- RFC 2822 ---------------------------------------------------------------

fn jz8(r: Result<Result<Zoned, jiff::Error>, String>) -> Value {
    jz(r).0
}

fn ev_rfc_zoned(z: &Zoned, cls: &str) -> Value {
    let r = guard(|| rfc2822::to_string(z));
    let (re, rets) = match &r {
        Ok(Ok(text)) => (
            jz8(guard(|| rfc2822::parse(text))),
            jts(guard(|| rfc2822::DateTimeParser::new().parse_timestamp(text))),
        ),
        _ => (json!([]), json!([])),
    };
    json!({"op":"rfc_p","cls":cls,"mode":"z","v":Val::Z(z.clone()).json(0),"out":jout(&r),"s":sout(&r),"re":re,"rets":rets})
}
fn ev_rfc_ts(ts: Timestamp, http: bool, cls: &str) -> Value {
    let p = rfc2822::DateTimePrinter::new();
    let r = guard(|| if http { p.timestamp_to_rfc9110_string(&ts) } else { p.timestamp_to_string(&ts) });
    let (re, rets) = match &r {
        Ok(Ok(text)) => (
            jz8(guard(|| rfc2822::parse(text))),
            jts(guard(|| rfc2822::DateTimeParser::new().parse_timestamp(text))),
        ),
        _ => (json!([]), json!([])),
    };
    json!({"op":"rfc_p","cls":cls,"mode": if http {"http"} else {"ts"},"v":Val::Ts(ts).json(0),"out":jout(&r),"s":sout(&r),"re":re,"rets":rets})
}
fn ev_rfc_text(text: &str, cls: &str) -> Value {
    let re = jz8(guard(|| rfc2822::parse(text)));
    let rets = jts(guard(|| rfc2822::DateTimeParser::new().parse_timestamp(text)));
    json!({"op":"rfc_m","cls":cls,"text":codes(text),"s":text,"re":re,"rets":rets})
}

const WD: [&str; 7] = ["Mon", "Tue", "Wed", "Thu", "Fri", "Sat", "Sun"];
const MON: [&str; 12] = ["Jan", "Feb", "Mar", "Apr", "May", "Jun", "Jul", "Aug", "Sep", "Oct", "Nov", "Dec"];

fn recase(s: &str, how: u64) -> String {
    match how % 4 {
        0 => s.to_string(),
        1 => s.to_ascii_lowercase(),
        2 => s.to_ascii_uppercase(),
        _ => s.chars().enumerate().map(|(i, c)| if i % 2 == 0 { c.to_ascii_lowercase() } else { c.to_ascii_uppercase() }).collect(),
    }
}

/// RFC 2822 text for a civil datetime from variant tokens; returns (text, class).
fn rfc_variant(dt: DateTime, off: i32, rng: &mut Rng) -> (String, &'static str) {
    let mut cls = "variant";
    let sp = |rng: &mut Rng| match rng.next() % 6 {
        0 => "  ".to_string(),
        1 => "\t".to_string(),
        2 => " \t ".to_string(),
        _ => " ".to_string(),
    };
    let mut s = String::new();
    if rng.chance(1, 8) {
        s.push_str(&sp(rng));
    }
    let wdi = (wd_num(dt.weekday()) - 1) as usize;
    match rng.next() % 8 {
        0 | 1 => {}
        2 => {
            let k = 1 + (rng.next() % 6) as usize;
            s.push_str(WD[(wdi + k) % 7]);
            s.push(',');
            s.push_str(&sp(rng));
            cls = "wrong-weekday";
        }
        n => {
            s.push_str(&recase(WD[wdi], if n == 3 { rng.next() } else { 0 }));
            s.push(',');
            s.push_str(&sp(rng));
        }
    }
    let mut day = dt.day() as i64;
    let mut month = dt.month() as usize;
    let mut hour = dt.hour() as i64;
    let mut minute = dt.minute() as i64;
    let mut second = dt.second() as i64;
    // out-of-range fields now and then
    if rng.chance(1, 14) {
        cls = "bad-field";
        match rng.next() % 5 {
            0 => day = dt.date().days_in_month() as i64 + 1,
            1 => day = 0,
            2 => hour = 24,
            3 => minute = 60,
            _ => second = 61,
        }
    }
    if rng.chance(1, 2) {
        s.push_str(&format!("{day}"));
    } else {
        s.push_str(&format!("{day:02}"));
    }
    s.push_str(&sp(rng));
    if month > 12 {
        month = 12;
    }
    s.push_str(&recase(MON[month - 1], if rng.chance(1, 4) { rng.next() } else { 0 }));
    s.push_str(&sp(rng));
    let y = dt.year() as i64;
    let form = rng.next() % 4;
    if form == 0 && (1950..=2049).contains(&y) {
        s.push_str(&format!("{:02}", y % 100));
        if cls == "variant" {
            cls = "year-2-digit";
        }
    } else if form == 1 && (1900..=2899).contains(&y) {
        s.push_str(&format!("{:03}", y - 1900));
        if cls == "variant" {
            cls = "year-3-digit";
        }
    } else {
        s.push_str(&format!("{y:04}"));
    }
    s.push_str(&sp(rng));
    s.push_str(&format!("{hour:02}:{minute:02}"));
    if second != 0 || rng.chance(1, 2) {
        s.push_str(&format!(":{second:02}"));
    }
    s.push_str(&sp(rng));
    match rng.next() % 6 {
        0 => {
            let names = ["UT", "GMT", "Z", "EST", "EDT", "CST", "CDT", "MST", "MDT", "PST", "PDT", "A", "M", "N", "Y", "z", "gmt", "est", "XYZ", "ABCDE", "J", "XY", "CEST"];
            s.push_str(names[(rng.next() % names.len() as u64) as usize]);
            if cls == "variant" {
                cls = "obsolete-zone";
            }
        }
        _ => {
            let a = off.abs();
            s.push(if off < 0 { '-' } else { '+' });
            s.push_str(&format!("{:02}{:02}", a / 3600, (a % 3600) / 60));
        }
    }
    if rng.chance(1, 8) {
        s.push_str(&sp(rng));
    }
    (s, cls)
}

// ---- values -----------------------------------------------------------------

const ZONES: [&str; 14] = [
    "America/New_York", "Europe/London", "Australia/Lord_Howe", "Asia/Kolkata", "Pacific/Kiritimati", "America/St_Johns",
    "Africa/Monrovia", "Asia/Kathmandu", "Pacific/Apia", "Europe/Amsterdam", "America/Sao_Paulo", "UTC", "Etc/GMT+12", "Antarctica/Troll",
];

fn fixed_offsets() -> Vec<i32> {
    vec![0, 1, -1, 59, -59, 60, -60, 1800, -1800, -3599, 3599, 3600, -3600, 19800, -12600, 20700, 45900, -34200, 50400, -43200, 93599, -93599, 93540, -93540, -2670, 1172, -18000]
}

fn boundary_dates(quick: bool) -> Vec<Date> {
    // the days around every new year: week numbers, ISO years and day-of-year
    // change there; every (Jan 1 weekday x leap) combination occurs in a 28-year run
    let mut v = Vec::new();
    let mut years: Vec<i16> = (1960..=2072).collect();
    years.extend([-9999, -9998, -401, -400, -101, -100, -99, -5, -4, -1, 0, 1, 2, 4, 99, 100, 101, 400, 999, 1000, 1582, 1600, 1899, 1900, 1901, 2099, 2100, 2400, 9998, 9999]);
    if !quick {
        years.extend((-200..=200).map(|k| k * 49));
        years.extend(2073..=2500);
    }
    for y in years {
        for (m, d) in [(1, 1), (1, 2), (1, 3), (1, 4), (1, 5), (1, 6), (1, 7), (1, 8), (2, 28), (2, 29), (3, 1), (6, 30), (12, 24), (12, 25), (12, 26), (12, 27), (12, 28), (12, 29), (12, 30), (12, 31)] {
            if let Ok(date) = Date::new(y, m, d) {
                v.push(date);
            }
        }
    }
    v
}

fn rand_ts(rng: &mut Rng) -> Timestamp {
    let lo = Timestamp::MIN.as_second();
    let hi = Timestamp::MAX.as_second();
    let s = match rng.next() % 5 {
        0 => rng.range(-200_000, 200_000),
        1 => rng.range(lo, -62_135_596_800),
        2 => rng.range(-2_208_988_800, 4_102_444_800), // 1900..2100
        _ => rng.range(lo, hi),
    };
    let ns = match rng.next() % 4 {
        0 => 0,
        1 => *rng.pick(&[1i64, 10, 500_000_000, 999_999_999, 123_000_000, 120_000, 999_999_000]),
        _ => rng.range(0, 999_999_999),
    };
    let ns = if s < 0 { -ns } else { ns };
    Timestamp::new(s, ns as i32).unwrap_or(Timestamp::UNIX_EPOCH)
}

fn values(rng: &mut Rng, quick: bool) -> Vec<Val> {
    let mut v: Vec<Val> = Vec::new();
    let n = if quick { 260 } else { 6000 };
    let offs = fixed_offsets();
    for i in 0..n {
        let ts = rand_ts(rng);
        match i % 6 {
            0 => v.push(Val::Ts(ts)),
            1 => {
                let name = ZONES[(rng.next() % ZONES.len() as u64) as usize];
                if let Ok(tz) = jiff::tz::db().get(name) {
                    v.push(Val::Z(ts.to_zoned(tz)));
                }
            }
            2 => {
                let off = if rng.chance(1, 2) { *rng.pick(&offs) } else { rng.range(-93599, 93599) as i32 };
                v.push(Val::Z(ts.to_zoned(TimeZone::fixed(Offset::from_seconds(off).unwrap()))));
            }
            3 => v.push(Val::Dt(Offset::UTC.to_datetime(ts))),
            4 => v.push(Val::D(Offset::UTC.to_datetime(ts).date())),
            _ => v.push(Val::T(Offset::UTC.to_datetime(ts).time())),
        }
    }
    for ts in [Timestamp::MIN, Timestamp::MAX, Timestamp::UNIX_EPOCH, Timestamp::new(-1, -500_000_000).unwrap(), Timestamp::new(0, -1).unwrap(), Timestamp::new(-86400, -999_999_999).unwrap()] {
        v.push(Val::Ts(ts));
        v.push(Val::Z(ts.to_zoned(TimeZone::UTC)));
    }
    v.push(Val::Dt(DateTime::MIN));
    v.push(Val::Dt(DateTime::MAX));
    v.push(Val::D(Date::MIN));
    v.push(Val::D(Date::MAX));
    v.push(Val::T(Time::MIN));
    v.push(Val::T(Time::MAX));
    for h in [0, 1, 11, 12, 13, 23] {
        v.push(Val::T(Time::new(h, 0, 0, 0).unwrap()));
        v.push(Val::Dt(DateTime::new(2024, 2, 29, h, 59, 59, 999_999_999).unwrap()));
    }
    v
}

const SPECS: [&str; 46] = [
    "%", "A", "a", "B", "b", "h", "C", "D", "d", "e", "F", "f", ".f", "G", "g", "H", "I", "j", "k", "l", "M", "m", "n", "P", "p", "Q", ":Q", "R", "S", "s", "T",
    "t", "U", "u", "V", "W", "w", "Y", "y", "Z", "z", ":z", ".3f", ".9f", ".0f", "E",
];
const FLAGS: [&str; 6] = ["", "_", "-", "0", "^", "#"];
const WIDTHS: [&str; 8] = ["", "1", "2", "3", "5", "9", "12", "25"];
const NAME_SPECS: [&str; 9] = ["A", "a", "B", "b", "h", "P", "p", "Z", "Q"];

fn one_directive(spec: &str, flag: &str, width: &str) -> Option<String> {
    // jiff pads only numbers: a width on a name is not part of the contract
    if !width.is_empty() && (NAME_SPECS.contains(&spec) || spec == ":Q") {
        return None;
    }
    // the precision of %.Nf is written after the dot
    if spec.starts_with('.') && !width.is_empty() {
        return None;
    }
    Some(format!("%{flag}{width}{spec}"))
}

/// Formats that determine a value (or knowingly do not), for round trips.
const RT_FORMATS: [&str; 64] = [
    "%Y-%m-%d", "%F", "%D", "%m/%d/%y", "%Y-%j", "%Y %j", "%G-W%V-%u", "%G-W%V-%w", "%G %V %a", "%G %V %A", "%g %V %u", "%Y %U %a", "%Y %U %w",
    "%Y %W %u", "%Y %W %A", "%y %U %a", "%A, %B %d, %Y", "%a %b %e %Y", "%e %h %Y", "%d.%m.%Y", "%Y%m%d", "%C%y-%m-%d", "%Y-%m-%d %C",
    "%H:%M:%S", "%T", "%R", "%H:%M", "%H", "%I:%M:%S %p", "%l:%M %P", "%I %p", "%k:%M", "%I:%M", "%H:%M:%S%.f", "%H:%M:%S.%f", "%T.%3f", "%T%.6f",
    "%T.%9f", "%H:%S", "%M:%S", "%H %f", "%S", "%p",
    "%Y-%m-%dT%H:%M:%S%z", "%F %T %:z", "%F %T%.f %z", "%FT%T%.f%:z[%Q]", "%F %T %Q", "%F %T %:Q", "%a, %d %b %Y %H:%M:%S %z", "%A %B %e %Y %l:%M:%S %p %z",
    "%F %T %Z", "%F %T %z %Z", "%s", "%s%.f", "%s.%f", "%s.%3f", "%F %T %z %s", "%Y-%m-%d %H", "%Y %j %H:%M %z", "%G-%V-%u %T %:z", "%Y %U %a %R %z",
    "%F%n%T%t%z", "%%%F%%%T%%%z",
];

fn random_format(rng: &mut Rng) -> String {
    const POOL: [&str; 40] = [
        "Y", "m", "d", "e", "B", "b", "h", "j", "G", "V", "u", "w", "a", "A", "U", "W", "y", "g", "F", "D", "H", "k", "I", "l", "p", "P", "M", "S", "T", "R", "f", ".f",
        "z", ":z", "Q", ":Q", "Y", "H", "M", "S",
    ];
    const SEPS: [&str; 12] = [" ", "-", "/", ":", ",", ", ", "T", "  ", "%n", "%t", "%%", " at "];
    let n = 2 + (rng.next() % 7) as usize;
    let mut s = String::new();
    for i in 0..n {
        let d = POOL[(rng.next() % POOL.len() as u64) as usize];
        let numeric = !["B", "b", "h", "a", "A", "p", "P", "z", ":z", "Q", ":Q", "F", "D", "T", "R", ".f"].contains(&d);
        let flag = if numeric && d != "f" && rng.chance(1, 4) { ["_", "-", "0"][(rng.next() % 3) as usize] } else { "" };
        s.push('%');
        s.push_str(flag);
        if d == "f" && rng.chance(1, 2) {
            s.push_str(&format!("{}", 1 + rng.next() % 9));
        }
        s.push_str(d);
        if i + 1 < n {
            // a zone name would swallow '-', '/', letters; an offset with colons would read ":NN" as its seconds
            const AFTER_ZONE: [&str; 7] = [" ", ",", ", ", "%n", "%t", "%%", "  "];
            if d == ".f" {
                // %.f may print nothing: a blank-matching separator on both sides of it would merge into
                // one run of blanks that the first of them swallows whole
                const AFTER_EMPTY: [&str; 6] = ["-", "/", ":", ",", "T", "%%"];
                s.push_str(AFTER_EMPTY[(rng.next() % AFTER_EMPTY.len() as u64) as usize]);
            } else if ["Q", ":Q", "z", ":z"].contains(&d) {
                s.push_str(AFTER_ZONE[(rng.next() % AFTER_ZONE.len() as u64) as usize]);
            } else {
                s.push_str(SEPS[(rng.next() % SEPS.len() as u64) as usize]);
            }
        }
    }
    s
}

fn run_replay(a: &Args, path: &str) {
    let mut out = Out::new(&a.out, "c16", 4000);
    for e in replay_events(path) {
        let op = e["op"].as_str().unwrap_or("");
        let fmt = e["sfmt"].as_str().unwrap_or("").to_string();
        match op {
            "fmt" | "rt" => {
                if let Some(v) = Val::from_json(&e["v"]) {
                    out.emit(if op == "fmt" { ev_fmt(&v, &fmt, "replay") } else { ev_rt(&v, &fmt, "replay") });
                }
            }
            "contra" => {
                if let Some(Val::D(d)) = Val::from_json(&e["v"]) {
                    let wdo = e["v"]["wdo"].as_i64().unwrap_or(1);
                    let shift = (wdo - wd_num(d.weekday())).rem_euclid(7);
                    out.emit(ev_contra(d, shift, e["wdfmt"].as_str().unwrap_or("%a "), e["rest"].as_str().unwrap_or("%F"), e["wd_first"].as_bool().unwrap_or(true)));
                }
            }
            "rfc_p" => match (e["mode"].as_str().unwrap_or(""), Val::from_json(&e["v"])) {
                ("z", Some(Val::Z(z))) => out.emit(ev_rfc_zoned(&z, "replay")),
                ("ts", Some(Val::Ts(t))) => out.emit(ev_rfc_ts(t, false, "replay")),
                ("http", Some(Val::Ts(t))) => out.emit(ev_rfc_ts(t, true, "replay")),
                _ => {}
            },
            "rfc_m" => out.emit(ev_rfc_text(e["s"].as_str().unwrap_or(""), "replay")),
            _ => {}
        }
    }
    out.finish();
}

pub fn run(a: &Args) {
    if let Some(p) = a.opt("replay") {
        return run_replay(a, &p);
    }
    let mut out = Out::new(&a.out, "c16", 4000);
    let mut rng = Rng::new(a.seed, 16);
    let quick = a.quick();
    let vals = values(&mut rng, quick);
    let bdates = boundary_dates(quick);

    // 1. every directive x flag x width on a few values of every kind
    let mut full: Vec<Val> = Vec::new();
    for want in ["zoned", "timestamp", "datetime", "date", "time"] {
        full.extend(vals.iter().filter(|v| v.cls() == want).take(if quick { 1 } else { 6 }).cloned());
    }
    full.push(Val::Z(Timestamp::new(1_720_000_000, 5_000_000).unwrap().to_zoned(TimeZone::fixed(Offset::from_seconds(-1800).unwrap()))));
    full.push(Val::Dt(DateTime::new(-44, 3, 15, 0, 5, 9, 120_000_000).unwrap()));
    for v in &full {
        for spec in SPECS {
            for flag in FLAGS {
                for width in WIDTHS {
                    if let Some(f) = one_directive(spec, flag, width) {
                        let cls = if !flag.is_empty() || !width.is_empty() { "flag/width" } else { "directive" };
                        out.emit(ev_fmt(v, &f, cls));
                    }
                }
            }
        }
    }
    // 2. every plain directive (and a few flagged ones) on every value and on
    //    the days around every new year
    for v in vals.iter().cloned().chain(bdates.iter().map(|d| Val::D(*d))) {
        let boundary = matches!(v, Val::D(_));
        for spec in SPECS {
            if boundary && !["j", "U", "W", "V", "G", "g", "u", "w", "a", "A", "C", "y", "Y", "D", "F", "d", "e", "m", "B", "b"].contains(&spec) {
                continue;
            }
            out.emit(ev_fmt(&v, &format!("%{spec}"), if boundary { "new-year" } else { v.cls() }));
        }
        for _ in 0..(if quick { 4 } else { 12 }) {
            let spec = *rng.pick(&SPECS);
            let flag = *rng.pick(&FLAGS);
            let width = *rng.pick(&WIDTHS);
            if let Some(f) = one_directive(spec, flag, width) {
                out.emit(ev_fmt(&v, &f, "flag/width"));
            }
        }
    }
    // 3. round trips: listed formats on every value; generated formats
    for (i, v) in vals.iter().enumerate() {
        for f in RT_FORMATS {
            if quick && (i + f.len()) % 3 != 0 {
                continue;
            }
            out.emit(ev_rt(v, f, "round-trip"));
        }
        for _ in 0..(if quick { 6 } else { 30 }) {
            let f = random_format(&mut rng);
            out.emit(ev_rt(v, &f, "generated-format"));
        }
    }
    for (i, d) in bdates.iter().enumerate() {
        for f in ["%G-W%V-%u", "%Y %U %a", "%Y %W %u", "%Y-%j", "%G %V %A", "%Y %U %w", "%g %V %a", "%y %W %a", "%F"] {
            if quick && (i + f.len()) % 2 != 0 {
                continue;
            }
            out.emit(ev_rt(&Val::D(*d), f, "new-year"));
        }
    }
    // 4. contradictions: a wrong weekday next to a date that is already determined
    for (i, d) in bdates.iter().enumerate().filter(|(i, _)| !quick || i % 3 == 0) {
        let shift = 1 + (i as i64 % 6);
        for (w, rest, first) in [("%a ", "%Y-%m-%d", true), ("%A, ", "%B %d, %Y", true), (" %u", "%F", false), ("%w ", "%D", true),
                                 (" %a", "%Y-%j", false), ("%a, ", "%d %b %Y", true), (" %A", "%Y %m %d", false), (" %A", "%Y/%j", false)] {
            out.emit(ev_contra(*d, shift, w, rest, first));
        }
    }
    // 5. RFC 2822
    let lo = -62_167_219_200i64; // 0000-01-01T00:00:00Z
    let hi = 253_402_300_799i64 - 26 * 3600;
    for i in 0..(if quick { 900 } else { 30_000 }) {
        let s = match i % 4 {
            0 => rng.range(lo, hi),
            1 => rng.range(-631_152_000, 2_524_608_000), // 1950..2050
            2 => rng.range(lo - 30 * 86400, lo + 30 * 86400),
            _ => rng.range(-2_208_988_800, 29_000_000_000),
        };
        let ts = Timestamp::from_second(s.clamp(Timestamp::MIN.as_second(), Timestamp::MAX.as_second())).unwrap();
        let ts = if i % 7 == 0 { ts.checked_add(jiff::SignedDuration::from_millis(250)).unwrap_or(ts) } else { ts };
        let off = match i % 5 {
            0 => 0,
            1 => rng.range(-1559, 1559) as i32 * 60,
            2 => *rng.pick(&[-18000, 3600, 19800, -34200, 50400, -43200, 93540, -93540, 60, -60, -1800]),
            3 => rng.range(-93599, 93599) as i32,
            _ => rng.range(-720, 840) as i32 * 60,
        };
        let z = ts.to_zoned(TimeZone::fixed(Offset::from_seconds(off).unwrap()));
        let cls = if z.year() < 0 { "negative-year" } else if off % 60 != 0 { "sub-minute-offset" } else if z.year() < 1000 { "year<1000" } else { "plain" };
        out.emit(ev_rfc_zoned(&z, cls));
        if i % 3 == 0 {
            out.emit(ev_rfc_ts(ts, false, "timestamp"));
            out.emit(ev_rfc_ts(ts, true, "rfc9110"));
        }
        if i % 11 == 0 {
            if let Ok(tz) = jiff::tz::db().get(ZONES[i % ZONES.len()]) {
                out.emit(ev_rfc_zoned(&ts.to_zoned(tz), "iana-zone"));
            }
        }
        if z.year() >= 0 {
            let off_min = off - off % 60;
            for _ in 0..2 {
                let (text, cls) = rfc_variant(z.datetime(), off_min, &mut rng);
                out.emit(ev_rfc_text(&text, cls));
            }
        }
    }
    out.finish();
}

/// jv probe FMT TEXT: parse TEXT with FMT and print what comes back (triage aid).
pub fn probe(a: &Args) {
    let fmt = a.rest.get(0).cloned().unwrap_or_default();
    let text = a.rest.get(1).cloned().unwrap_or_default();
    match BrokenDownTime::parse(&fmt, &text) {
        Ok(tm) => {
            println!("tm = {tm:?}");
            println!("zoned = {:?}", tm.to_zoned().map(|z| z.to_string()));
            println!("ts = {:?}", tm.to_timestamp().map(|z| z.to_string()));
            println!("dt = {:?}", tm.to_datetime().map(|z| z.to_string()));
            println!("date = {:?}", tm.to_date().map(|z| z.to_string()));
            println!("time = {:?}", tm.to_time().map(|z| z.to_string()));
        }
        Err(e) => println!("parse error: {e}"),
    }
    println!("rfc2822 = {:?}", rfc2822::parse(&text).map(|z| z.to_string()));
    println!("zoned = {:?}", text.parse::<Zoned>().map(|z| z.to_string()));
    println!("timestamp = {:?}", text.parse::<Timestamp>().map(|z| z.to_string()));
    println!("span = {:?}", text.parse::<jiff::Span>().map(|z| format!("{z:?}")));
    println!("sdur = {:?}", text.parse::<jiff::SignedDuration>().map(|z| format!("{z:?}")));
}

/// jv probetz STRING: TimeZone::posix on the string (triage aid).
pub fn probetz(a: &Args) {
    let s = a.rest.get(0).cloned().unwrap_or_default();
    let r = guard(|| TimeZone::posix(&s).map(|tz| format!("{tz:?}")));
    println!("{r:?}");
    // further arguments: civil datetimes; print how each resolves and what the instant says
    if let Ok(tz) = TimeZone::posix(&s) {
        for d in a.rest.iter().skip(1) {
            let Ok(dt) = d.parse::<jiff::civil::DateTime>() else { continue };
            let amb = tz.to_ambiguous_zoned(dt);
            println!("{dt}: {:?}", amb.offset());
            if let Ok(z) = amb.compatible() {
                println!("  compatible = {z}  ts={} info={:?}", z.timestamp(), tz.to_offset_info(z.timestamp()));
                println!("  +0s = {:?}", z.checked_add(jiff::Span::new()).map(|x| x.to_string()));
            }
        }
    }
}

/// jv probetzif HEXFILE: both TZif readers on the bytes in the file (hex).
pub fn probetzif(a: &Args) {
    let hexs = std::fs::read_to_string(a.rest.get(0).unwrap()).unwrap();
    let hexs = hexs.trim();
    let data: Vec<u8> = (0..hexs.len() / 2).map(|i| u8::from_str_radix(&hexs[2 * i..2 * i + 2], 16).unwrap()).collect();
    println!("jiff: {:?}", TimeZone::tzif("X/Y", &data).map(|tz| {
        let t = Timestamp::from_second(1_700_000_000).unwrap();
        format!("{:?} {:?}", tz.to_offset_info(t), tz.preceding(t).next())
    }));
    println!("static: {:?}", crate::shared::TzifOwned::parse(None, &data).map(|_| "ok"));
}

/// jv probeiter NAME SECONDS: preceding/following from an instant in the bundled zone, via bytes.
pub fn probeiter(a: &Args) {
    let name = a.rest.get(0).cloned().unwrap_or_default();
    let secs: i64 = a.rest.get(1).and_then(|s| s.parse().ok()).unwrap_or(0);
    let (_, bytes) = jiff_tzdb::get(&name).expect("bundled zone");
    let tz = TimeZone::tzif(&name, bytes).unwrap();
    let ts = Timestamp::from_second(secs).unwrap();
    println!("info at {ts}: {:?}", tz.to_offset_info(ts));
    for t in tz.preceding(ts).take(4) {
        println!("  prev {} {:?} {} {:?}", t.timestamp(), t.offset(), t.abbreviation(), t.dst());
    }
    for t in tz.following(ts).take(3) {
        println!("  next {} {:?} {} {:?}", t.timestamp(), t.offset(), t.abbreviation(), t.dst());
    }
}

/// jv zoneevents NAME...: the `zone` event (abstract zone read by the independent
/// reader) of each system zoneinfo file named, one JSON line each (oracle self-check).
pub fn zoneevents(a: &Args) {
    for name in &a.rest {
        if name.starts_with("--") {
            continue;
        }
        let Ok(bytes) = std::fs::read(format!("/usr/share/zoneinfo/{name}")) else { continue };
        let z = crate::tzcorpus::ZoneSrc { name: name.clone(), class: "system".into(), bytes };
        if let Ok(az) = crate::tzcorpus::load(&z) {
            println!("{}", serde_json::to_string(&crate::tzd::zone_event(&az, "system")).unwrap());
        }
    }
}
