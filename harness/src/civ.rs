//! Civil-type drivers: C08 (arithmetic), C10 (rounding of Timestamp, Time,
//! DateTime, SignedDuration, Offset), C07 (differences of civil types and
//! timestamps).  Zoned variants live in zd.rs.

use crate::common::*;
use jiff::civil::{Date, DateTime, Time};
use jiff::tz::Offset;
use jiff::{RoundMode, SignedDuration, Span, Timestamp, Unit};
use serde_json::{json, Value};

pub const LIM: [(&str, i64); 10] = [
    ("y", 19_998),
    ("mo", 239_976),
    ("w", 1_043_497),
    ("d", 7_304_484),
    ("h", 175_307_616),
    ("mi", 10_518_456_960),
    ("s", 631_107_417_600),
    ("ms", 631_107_417_600_000),
    ("us", 631_107_417_600_000_000),
    ("ns", 9_223_372_036_854_775_807),
];

pub fn jspan(s: &Span) -> Value {
    json!({
        "y": s.get_years(), "mo": s.get_months(), "w": s.get_weeks(), "d": s.get_days(), "h": s.get_hours(),
        "mi": big(s.get_minutes() as i128), "s": big(s.get_seconds() as i128),
        "ms": big(s.get_milliseconds() as i128), "us": big(s.get_microseconds() as i128),
        "ns": big(s.get_nanoseconds() as i128),
    })
}

/// units[i] magnitudes (in LIM order), one sign for all
pub fn mkspan(units: [i64; 10], neg: bool) -> Option<Span> {
    let s = Span::new()
        .try_years(units[0]).ok()?
        .try_months(units[1]).ok()?
        .try_weeks(units[2]).ok()?
        .try_days(units[3]).ok()?
        .try_hours(units[4]).ok()?
        .try_minutes(units[5]).ok()?
        .try_seconds(units[6]).ok()?
        .try_milliseconds(units[7]).ok()?
        .try_microseconds(units[8]).ok()?
        .try_nanoseconds(units[9]).ok()?;
    Some(if neg { -s } else { s })
}

pub fn gen_span(rng: &mut Rng, units_allowed: &[usize]) -> Span {
    loop {
        let mut u = [0i64; 10];
        let n_units = 1 + (rng.next() % 3) as usize;
        for _ in 0..n_units {
            let i = *rng.pick(units_allowed);
            let lim = LIM[i].1;
            u[i] = match rng.next() % 8 {
                0 => lim,
                1 => lim - 1,
                2 => 1,
                3 => {
                    let k = rng.range(1, 62);
                    ((1i128 << k) as i64).min(lim).max(1) + rng.range(-1, 1)
                }
                4 => rng.range(1, 40),
                5 => rng.range(1, 400),
                6 => rng.range(1, lim.min(5_000_000)),
                _ => rng.range(1, lim),
            }
            .clamp(0, lim);
        }
        if let Some(s) = mkspan(u, rng.chance(1, 2)) {
            return s;
        }
    }
}

fn jres_dt<E>(r: Result<Result<DateTime, E>, String>) -> Value {
    match r {
        Ok(Ok(d)) => jdt(d),
        Ok(Err(_)) => json!([]),
        Err(_) => json!([-1]),
    }
}
fn jres_time<E>(r: Result<Result<Time, E>, String>) -> Value {
    match r {
        Ok(Ok(d)) => jtime(d),
        Ok(Err(_)) => json!([]),
        Err(_) => json!([-1]),
    }
}
fn infall<T>(r: Result<T, String>, f: impl Fn(T) -> Value) -> Value {
    match r {
        Ok(v) => f(v),
        Err(_) => json!([-1]),
    }
}

fn date_pool(rng: &mut Rng, n: usize) -> Vec<Date> {
    let mut v = vec![
        Date::MIN, Date::MAX, Date::constant(1970, 1, 1), Date::constant(2024, 2, 29), Date::constant(2023, 1, 31),
        Date::constant(2024, 3, 31), Date::constant(0, 1, 1), Date::constant(-1, 12, 31), Date::constant(0, 2, 29),
        Date::constant(-9999, 1, 31), Date::constant(9999, 12, 1), Date::constant(1900, 2, 28), Date::constant(2000, 2, 29),
        Date::constant(-4, 2, 29), Date::constant(2023, 12, 31), Date::constant(2024, 1, 1), Date::constant(9999, 1, 31),
        Date::constant(-9999, 12, 31),
    ];
    for _ in 0..n {
        let y = rng.range(-9999, 9999) as i16;
        let m = rng.range(1, 12) as i8;
        let d = Date::new(y, m, 1).unwrap();
        let day = match rng.next() % 3 {
            0 => d.days_in_month(),
            1 => rng.range(28, d.days_in_month() as i64) as i8,
            _ => rng.range(1, d.days_in_month() as i64) as i8,
        };
        v.push(Date::new(y, m, day).unwrap());
    }
    v
}

fn time_pool(rng: &mut Rng, n: usize) -> Vec<Time> {
    let mut v = vec![
        Time::MIN, Time::MAX, Time::constant(12, 0, 0, 0), Time::constant(23, 59, 59, 0), Time::constant(0, 0, 0, 1),
        Time::constant(0, 0, 1, 0), Time::constant(23, 0, 0, 0), Time::constant(11, 59, 59, 999_999_999),
        Time::constant(12, 30, 30, 500_000_000), Time::constant(1, 2, 3, 4),
    ];
    for _ in 0..n {
        v.push(Time::new(rng.range(0, 23) as i8, rng.range(0, 59) as i8, rng.range(0, 59) as i8,
                         if rng.chance(1, 3) { 0 } else { rng.range(0, 999_999_999) as i32 }).unwrap());
    }
    v
}

fn dur_pool(rng: &mut Rng, n: usize) -> Vec<SignedDuration> {
    let mut v = vec![
        SignedDuration::ZERO, SignedDuration::MIN, SignedDuration::MAX, SignedDuration::new(0, 1), SignedDuration::new(0, -1),
        SignedDuration::new(86400, 0), SignedDuration::new(-86400, 0), SignedDuration::new(86399, 999_999_999),
        SignedDuration::new(-86399, -999_999_999), SignedDuration::new(631_107_417_600, 0),
        SignedDuration::new(-631_107_417_600, 0), SignedDuration::new(i64::MAX, 0), SignedDuration::new(i64::MIN, 0),
        SignedDuration::from_hours(2_562_048), SignedDuration::from_hours(-2_562_048), SignedDuration::from_hours(25),
        SignedDuration::new(9_223_372_036, 854_775_807), SignedDuration::new(9_223_372_036, 854_775_808),
    ];
    for _ in 0..n {
        let secs = match rng.next() % 5 {
            0 => rng.range(-200_000, 200_000),
            1 => rng.range(-631_107_417_600, 631_107_417_600),
            2 => rng.range(i64::MIN, i64::MAX),
            3 => rng.range(-100, 100) * 86400 + rng.range(-1, 1),
            _ => rng.range(-4_000_000, 4_000_000),
        };
        let ns = rng.range(0, 999_999_999) as i32;
        v.push(SignedDuration::new(secs, if secs < 0 { -ns } else { ns }));
    }
    v
}

fn jdur(d: SignedDuration) -> (Value, i32) {
    (big(d.as_secs() as i128), d.subsec_nanos())
}

// ---------------------------------------------------------------------------
// C08 events

fn date_add(d: Date, s: Span, cls: &str) -> Value {
    let add = guard(|| d.checked_add(s));
    let sub = guard(|| d.checked_sub(s));
    let sat = guard(|| d.saturating_add(s));
    json!({"op":"date_add","cls":cls,"date":jdate(d),"span":jspan(&s),"add":jres_date(add),"sub":jres_date(sub),
           "sat":infall(sat, jdate)})
}

fn dt_add(d: DateTime, s: Span, cls: &str) -> Value {
    let add = guard(|| d.checked_add(s));
    let sub = guard(|| d.checked_sub(s));
    let sat = guard(|| d.saturating_add(s));
    json!({"op":"dt_add","cls":cls,"civil":jdt(d),"span":jspan(&s),"add":jres_dt(add),"sub":jres_dt(sub),
           "sat":infall(sat, jdt)})
}

fn dur_add(d: DateTime, dur: SignedDuration, cls: &str) -> Value {
    let (dsec, dns) = jdur(dur);
    let add = guard(|| d.checked_add(dur));
    let sub = guard(|| d.checked_sub(dur));
    let sat = guard(|| d.saturating_add(dur));
    let dadd = guard(|| d.date().checked_add(dur));
    let dsat = guard(|| d.date().saturating_add(dur));
    let t = d.time();
    let twrap = guard(|| t.wrapping_add(dur));
    let tchk = guard(|| t.checked_add(dur));
    let tsat = guard(|| t.saturating_add(dur));
    let twraps = guard(|| t.wrapping_sub(dur));
    // unsigned std duration with the same magnitude, when representable
    let ud = Some(dur.unsigned_abs());
    let (uadd, utwrap) = match ud {
        Some(u) if !dur.is_negative() => (jres_dt(guard(|| d.checked_add(u))), infall(guard(|| t.wrapping_add(u)), jtime)),
        Some(u) => (jres_dt(guard(|| d.checked_sub(u))), infall(guard(|| t.wrapping_sub(u)), jtime)),
        None => (json!([-2]), json!([-2])),
    };
    json!({"op":"dur_add","cls":cls,"civil":jdt(d),"dsec":dsec,"dns":dns,
           "add":jres_dt(add),"sub":jres_dt(sub),"sat":infall(sat, jdt),
           "dadd":jres_date(dadd),"dsat":infall(dsat, jdate),
           "twrap":infall(twrap, jtime),"tchk":jres_time(tchk),"tsat":infall(tsat, jtime),"twraps":infall(twraps, jtime),
           "uadd":uadd,"utwrap":utwrap})
}

fn time_add(t: Time, s: Span, cls: &str) -> Value {
    let wrap = guard(|| t.wrapping_add(s));
    let wraps = guard(|| t.wrapping_sub(s));
    let chk = guard(|| t.checked_add(s));
    let chks = guard(|| t.checked_sub(s));
    let sat = guard(|| t.saturating_add(s));
    // input-class tag for the known finding D6: the time units of the span
    // (plus the time of day) exceed 64-bit nanoseconds
    let total: i128 = s.get_hours() as i128 * 3_600_000_000_000 + s.get_minutes() as i128 * 60_000_000_000
        + s.get_seconds() as i128 * 1_000_000_000 + s.get_milliseconds() as i128 * 1_000_000
        + s.get_microseconds() as i128 * 1_000 + s.get_nanoseconds() as i128;
    let ovf64 = total.abs() + 86_400_000_000_000 > i64::MAX as i128;
    json!({"op":"time_add","cls":cls,"tod":jtime(t),"span":jspan(&s),"ovf64": if ovf64 {1} else {0},
           "wrap":infall(wrap, jtime),"wraps":infall(wraps, jtime),
           "chk":jres_time(chk),"chks":jres_time(chks),"sat":infall(sat, jtime)})
}

fn series_ev(d: DateTime, s: Span, n: usize, cls: &str) -> Value {
    let r = guard(|| {
        let items: Vec<Value> = d.series(s).take(n).map(jdt).collect();
        let ditems: Vec<Value> = d.date().series(s).take(n).map(jdate).collect();
        let titems: Vec<Value> = d.time().series(s).take(n).map(jtime).collect();
        json!({"st":"ok","items":items,"ditems":ditems,"titems":titems})
    });
    let mut v = match r {
        Ok(v) => v,
        Err(m) => json!({"st":"panic","msg":m}),
    };
    let o = v.as_object_mut().unwrap();
    o.insert("op".into(), json!("series"));
    o.insert("cls".into(), json!(cls));
    o.insert("civil".into(), jdt(d));
    o.insert("span".into(), jspan(&s));
    o.insert("n".into(), json!(n));
    v
}

fn span_class(s: &Span) -> &'static str {
    let mut at_limit = false;
    let vals = [s.get_years() as i64, s.get_months() as i64, s.get_weeks() as i64, s.get_days() as i64, s.get_hours() as i64,
                s.get_minutes(), s.get_seconds(), s.get_milliseconds(), s.get_microseconds(), s.get_nanoseconds()];
    for (i, v) in vals.iter().enumerate() {
        if v.abs() >= LIM[i].1 - 1 {
            at_limit = true;
        }
    }
    if at_limit {
        "span-at-limit"
    } else if s.is_negative() {
        "span-negative"
    } else if vals[5..].iter().any(|v| v.abs() > i32::MAX as i64) {
        "span-wide"
    } else {
        "plain"
    }
}

/// Timestamp +/- span (only hours and smaller units are accepted) and +/- duration. Not part of C08's wording
/// (which speaks about civil types): scope "beyond".
fn ts_add(t: jiff::Timestamp, s: Span, d: SignedDuration, cls: &str) -> Value {
    let j = |r: Result<Result<jiff::Timestamp, jiff::Error>, String>| match r {
        Ok(Ok(t)) => json!({"st":"ok","rsec":big(t.as_second() as i128),"rns":t.subsec_nanosecond()}),
        Ok(Err(_)) => json!({"st":"err","rsec":big(0),"rns":0}),
        Err(_) => json!({"st":"panic","rsec":big(0),"rns":0}),
    };
    let (dsec, dns) = jdur(d);
    json!({"op":"ts_add","cls":cls,"scope":"beyond","sec":big(t.as_second() as i128),"ns":t.subsec_nanosecond(),"span":jspan(&s),
           "dsec":dsec,"dns":dns,
           "add":j(guard(|| t.checked_add(s))),"sub":j(guard(|| t.checked_sub(s))),"sat":j(guard(|| t.saturating_add(s))),
           "dadd":j(guard(|| t.checked_add(d))),"dsub":j(guard(|| t.checked_sub(d))),"dsat":j(guard(|| t.saturating_add(d)))})
}

/// Time::with(): any combination of its setters (scope "beyond": no listed property mentions the builders).
/// set[i] = 1 when field i (hour, minute, second, millisecond, microsecond, nanosecond, subsec_nanosecond) is set.
fn twith(rng: &mut Rng) -> Value {
    let o = Time::new(rng.range(0, 23) as i8, rng.range(0, 59) as i8, rng.range(0, 59) as i8, rng.range(0, 999_999_999) as i32).unwrap();
    let mut set = [0i64; 7];
    let mut val = [0i64; 7];
    for i in 0..7 {
        if rng.chance(1, 3) {
            set[i] = 1;
            let hi = [23i64, 59, 59, 999, 999, 999, 999_999_999][i];
            val[i] = match rng.next() % 6 {
                0 => hi,
                1 => 0,
                2 => if i < 6 { hi + 1 } else { hi + 1 },
                3 => -1,
                _ => rng.range(0, hi),
            };
            // the setters take i8 / i16 / i32: stay inside those types
            val[i] = val[i].clamp(-1, if i < 3 { 127 } else if i < 6 { 1000 } else { 1_000_000_000 });
        }
    }
    let r = guard(|| {
        let mut w = o.with();
        if set[0] == 1 { w = w.hour(val[0] as i8); }
        if set[1] == 1 { w = w.minute(val[1] as i8); }
        if set[2] == 1 { w = w.second(val[2] as i8); }
        if set[3] == 1 { w = w.millisecond(val[3] as i16); }
        if set[4] == 1 { w = w.microsecond(val[4] as i16); }
        if set[5] == 1 { w = w.nanosecond(val[5] as i16); }
        if set[6] == 1 { w = w.subsec_nanosecond(val[6] as i32); }
        w.build()
    });
    let (st, res) = match r {
        Ok(Ok(t)) => ("ok", jtime(t)),
        Ok(Err(_)) => ("err", json!([])),
        Err(_) => ("panic", json!([])),
    };
    json!({"op":"twith","cls":"builder","scope":"beyond","o":jtime(o),"set":set,"val":val,"st":st,"res":res})
}

pub fn run_c08(a: &Args) {
    let mut out = Out::new(&a.out, "c08", 12_000);
    let mut rng = Rng::new(a.seed, 8);
    let quick = a.quick();
    let all: Vec<usize> = (0..10).collect();
    let cal: Vec<usize> = vec![0, 1, 2, 3];
    let tim: Vec<usize> = vec![4, 5, 6, 7, 8, 9];
    let dates = date_pool(&mut rng, if quick { 400 } else { 3000 });
    let times = time_pool(&mut rng, if quick { 40 } else { 400 });
    let per = if quick { 60 } else { 300 };

    // month-end clamping grid: every (month end / 29..31) x months -14..14 x years {0, +-1, +-4}
    for &d in &dates {
        if d.day() >= 28 || d == Date::MIN {
            for mo in -14i64..=14 {
                for y in [0i64, 1, -1, 4] {
                    let mut u = [0i64; 10];
                    u[0] = y.abs();
                    u[1] = mo.abs();
                    if (y < 0) != (mo < 0) && y != 0 && mo != 0 {
                        continue;
                    }
                    if let Some(s) = mkspan(u, y < 0 || mo < 0) {
                        out.emit(date_add(d, s, "month-clamp"));
                    }
                }
            }
        }
    }
    for (i, &d) in dates.iter().enumerate() {
        let t = times[i % times.len()];
        let dt = DateTime::from_parts(d, t);
        for k in 0..per {
            let s = match k % 4 {
                0 => gen_span(&mut rng, &cal),
                1 => gen_span(&mut rng, &tim),
                _ => gen_span(&mut rng, &all),
            };
            let cls = span_class(&s);
            match k % 3 {
                0 => out.emit(date_add(d, s, cls)),
                _ => out.emit(dt_add(dt, s, cls)),
            }
        }
    }
    // durations
    let durs = dur_pool(&mut rng, if quick { 300 } else { 5000 });
    for (i, &dur) in durs.iter().enumerate() {
        for j in 0..(if quick { 12 } else { 40 }) {
            let d = dates[(i * 7 + j * 13) % dates.len()];
            let t = times[(i + j * 3) % times.len()];
            let cls = if dur.as_secs().unsigned_abs() > 631_107_417_600 { "dur-huge" } else if dur.is_negative() { "dur-negative" } else { "plain" };
            out.emit(dur_add(DateTime::from_parts(d, t), dur, cls));
        }
    }
    // clock time x spans (time units at every magnitude; calendar units ignored / refused)
    for (i, &t) in times.iter().enumerate() {
        for k in 0..(if quick { 400 } else { 3000 }) {
            let s = if k % 7 == 0 { gen_span(&mut rng, &all) } else { gen_span(&mut rng, &tim) };
            let cls = span_class(&s);
            out.emit(time_add(t, s, cls));
            let _ = i;
        }
        // hour thresholds around the 64-bit nanosecond boundary
        for h in [2_562_047i64, 2_562_048, 2_562_049, 5_124_095, 5_124_096, 175_307_616, 175_307_615, 24, 25, 48] {
            for neg in [false, true] {
                let mut u = [0i64; 10];
                u[4] = h;
                out.emit(time_add(t, mkspan(u, neg).unwrap(), "hour-threshold"));
            }
        }
    }
    // series
    for i in 0..(if quick { 400 } else { 5000 }) {
        let d = dates[i % dates.len()];
        let t = times[i % times.len()];
        let s = match i % 3 {
            0 => gen_span(&mut rng, &[1, 3]),
            1 => gen_span(&mut rng, &[4, 5, 6]),
            _ => gen_span(&mut rng, &all),
        };
        out.emit(series_ev(DateTime::from_parts(d, t), s, 6, "series"));
    }
    for _ in 0..(if quick { 3000 } else { 60_000 }) {
        out.emit(twith(&mut rng));
    }
    // Timestamp arithmetic (scope beyond)
    for k in 0..(if quick { 3000 } else { 60_000 }) {
        let ns = match k % 4 {
            0 => rng.range128(jiff::Timestamp::MIN.as_nanosecond(), jiff::Timestamp::MAX.as_nanosecond()),
            1 => rng.range128(-1_000_000_000_000, 1_000_000_000_000),
            2 => jiff::Timestamp::MAX.as_nanosecond() - rng.range128(0, 100_000_000_000_000),
            _ => jiff::Timestamp::MIN.as_nanosecond() + rng.range128(0, 100_000_000_000_000),
        };
        let t = jiff::Timestamp::from_nanosecond(ns).unwrap();
        let sp = if k % 3 == 0 { gen_span(&mut rng, &all) } else { gen_span(&mut rng, &tim) };
        let d = match k % 5 {
            0 => SignedDuration::MAX,
            1 => SignedDuration::MIN,
            _ => SignedDuration::new(rng.range(-400_000_000_000, 400_000_000_000), rng.range(0, 999_999_999) as i32),
        };
        let d = if d.as_secs() < 0 && d.subsec_nanos() > 0 { -d } else { d };
        out.emit(ts_add(t, sp, d, if k % 3 == 0 { "any-units" } else { "time-units" }));
    }
    out.finish();
}

// ---------------------------------------------------------------------------
// C10 events (non-zoned)

pub const MODES: [(RoundMode, &str); 9] = [
    (RoundMode::Ceil, "ceil"), (RoundMode::Floor, "floor"), (RoundMode::Expand, "expand"), (RoundMode::Trunc, "trunc"),
    (RoundMode::HalfCeil, "half-ceil"), (RoundMode::HalfFloor, "half-floor"), (RoundMode::HalfExpand, "half-expand"),
    (RoundMode::HalfTrunc, "half-trunc"), (RoundMode::HalfEven, "half-even"),
];
pub const UNITS: [(Unit, &str, i128); 10] = [
    (Unit::Nanosecond, "ns", 1), (Unit::Microsecond, "us", 1_000), (Unit::Millisecond, "ms", 1_000_000),
    (Unit::Second, "s", 1_000_000_000), (Unit::Minute, "mi", 60_000_000_000), (Unit::Hour, "h", 3_600_000_000_000),
    (Unit::Day, "d", 86_400_000_000_000), (Unit::Week, "w", 0), (Unit::Month, "mo", 0), (Unit::Year, "y", 0),
];

/// floor(x / inc) computed from the INPUT value (never from jiff's result),
/// so that the spec can locate the two neighbouring multiples by
/// multiplication only
fn mf(x_ns: i128, inc_ns: i128) -> Value {
    if inc_ns <= 0 {
        big(0)
    } else {
        big(x_ns.div_euclid(inc_ns))
    }
}
/// quotient and remainder of `max` by k (k > 0), so the spec can decide
/// divisibility by multiplication
fn divwit(max: i128, k: i64) -> (Value, Value) {
    if k <= 0 {
        (big(0), big(0))
    } else {
        (big(max / k as i128), big(max % k as i128))
    }
}

fn tod_ns(t: Time) -> i128 {
    ((t.hour() as i128 * 60 + t.minute() as i128) * 60 + t.second() as i128) * 1_000_000_000 + t.subsec_nanosecond() as i128
}
fn inc_ns(uns: i128, k: i64) -> i128 {
    if k <= 0 { 0 } else { uns.saturating_mul(k as i128) }
}

fn round_ts(ts: Timestamp, ui: usize, k: i64, mi: usize, cls: &str) -> Value {
    let (unit, uname, uns) = UNITS[ui];
    // the projection of the result is inside the guard too: an out-of-range
    // value panics in its accessors when debug assertions are on
    let r = guard(|| {
        ts.round(jiff::TimestampRound::new().smallest(unit).increment(k).mode(MODES[mi].0))
            .map(|t| (t.as_second(), t.subsec_nanosecond()))
    });
    let (st, rsec, rns) = match &r {
        Ok(Ok((s, n))) => ("ok", big(*s as i128), *n),
        Ok(Err(_)) => ("err", big(0), 0),
        Err(_) => ("panic", big(0), 0),
    };
    let (dq, dr) = divwit(86_400_000_000_000 / uns.max(1), k);
    json!({"op":"round_ts","cls":cls,"sec":big(ts.as_second() as i128),"ns":ts.subsec_nanosecond(),"unit":uname,"k":big(k as i128),
           "mode":MODES[mi].1,"st":st,"rsec":rsec,"rns":rns,"mf":mf(ts.as_nanosecond(), inc_ns(uns, k)),"dq":dq,"dr":dr})
}

fn round_sd(d: SignedDuration, ui: usize, k: i64, mi: usize, cls: &str) -> Value {
    let (unit, uname, uns) = UNITS[ui];
    let r = guard(|| d.round(jiff::SignedDurationRound::new().smallest(unit).increment(k).mode(MODES[mi].0)));
    let (st, rsec, rns) = match &r {
        Ok(Ok(t)) => ("ok", big(t.as_secs() as i128), t.subsec_nanos()),
        Ok(Err(_)) => ("err", big(0), 0),
        Err(_) => ("panic", big(0), 0),
    };
    json!({"op":"round_sd","cls":cls,"sec":big(d.as_secs() as i128),"ns":d.subsec_nanos(),"unit":uname,"k":big(k as i128),
           "mode":MODES[mi].1,"st":st,"rsec":rsec,"rns":rns,"mf":mf(d.as_nanos(), inc_ns(uns, k))})
}

fn round_off(o: i32, ui: usize, k: i64, mi: usize, cls: &str) -> Value {
    let (unit, uname, uns) = UNITS[ui];
    let off = Offset::from_seconds(o).unwrap();
    let r = guard(|| off.round(jiff::tz::OffsetRound::new().smallest(unit).increment(k).mode(MODES[mi].0)));
    let (st, res) = match &r {
        Ok(Ok(t)) => ("ok", t.seconds()),
        Ok(Err(_)) => ("err", 0),
        Err(_) => ("panic", 0),
    };
    json!({"op":"round_off","cls":cls,"off":o,"unit":uname,"k":big(k as i128),"mode":MODES[mi].1,"st":st,"res":res,
           "mf":mf(o as i128 * 1_000_000_000, inc_ns(uns, k))})
}

fn round_time(t: Time, ui: usize, k: i64, mi: usize, cls: &str) -> Value {
    let (unit, uname, uns) = UNITS[ui];
    let r = guard(|| t.round(jiff::civil::TimeRound::new().smallest(unit).increment(k).mode(MODES[mi].0)));
    let (st, res) = match &r {
        Ok(Ok(x)) => ("ok", jtime(*x)),
        Ok(Err(_)) => ("err", json!([])),
        Err(_) => ("panic", json!([-1])),
    };
    json!({"op":"round_time","cls":cls,"tod":jtime(t),"unit":uname,"k":big(k as i128),"mode":MODES[mi].1,"st":st,"res":res,
           "mf":mf(tod_ns(t), inc_ns(uns, k))})
}

fn round_dt(d: DateTime, ui: usize, k: i64, mi: usize, cls: &str) -> Value {
    let (unit, uname, uns) = UNITS[ui];
    let r = guard(|| d.round(jiff::civil::DateTimeRound::new().smallest(unit).increment(k).mode(MODES[mi].0)));
    let (st, res) = match &r {
        Ok(Ok(x)) => ("ok", jdt(*x)),
        Ok(Err(_)) => ("err", json!([])),
        Err(_) => ("panic", json!([-1])),
    };
    json!({"op":"round_dt","cls":cls,"civil":jdt(d),"unit":uname,"k":big(k as i128),"mode":MODES[mi].1,"st":st,"res":res,
           "mf":mf(tod_ns(d.time()), inc_ns(uns, k))})
}

const DIVS_1000: &[i64] = &[1, 2, 4, 5, 8, 10, 20, 25, 40, 50, 100, 125, 200, 250, 500];
const DIVS_60: &[i64] = &[1, 2, 3, 4, 5, 6, 10, 12, 15, 20, 30];
const DIVS_24: &[i64] = &[1, 2, 3, 4, 6, 8, 12];
const ILLEGAL: &[i64] = &[0, -1, 7, 9, 11, 13, 24, 60, 1000, 999, 61, 25, 48, 86400, 1440, i64::MAX, i64::MIN, 3600, 43200, 720];

fn legal_small(ui: usize) -> &'static [i64] {
    match ui {
        0..=2 => DIVS_1000,
        3 | 4 => DIVS_60,
        5 => DIVS_24,
        _ => &[1],
    }
}

/// interesting sub-day values for (unit, k): multiples, midpoints, +-1ns around both
fn tod_values(rng: &mut Rng, inc: i128) -> Vec<i128> {
    let day = 86_400_000_000_000i128;
    let mut v = Vec::new();
    if inc <= 0 || inc > day {
        for _ in 0..3 {
            v.push(rng.range128(0, day - 1));
        }
        return v;
    }
    let n = day / inc;
    for _ in 0..2 {
        let q = match rng.next() % 4 {
            0 => 0,
            1 => n - 1,
            _ => rng.range128(0, n - 1),
        };
        let base = q * inc;
        for d in [0i128, 1, -1, inc / 2, inc / 2 - 1, inc / 2 + 1, inc - 1] {
            let x = base + d;
            if x >= 0 && x < day {
                v.push(x);
            }
        }
    }
    v.push(day - 1);
    v.push(rng.range128(0, day - 1));
    v
}

fn time_from_ns(n: i128) -> Time {
    let s = (n / 1_000_000_000) as i64;
    Time::new((s / 3600) as i8, (s % 3600 / 60) as i8, (s % 60) as i8, (n % 1_000_000_000) as i32).unwrap()
}

pub fn run_c10(a: &Args) {
    let mut out = Out::new(&a.out, "c10", 12_000);
    let mut rng = Rng::new(a.seed, 10);
    let quick = a.quick();
    let day = 86_400_000_000_000i128;
    let dates = {
        let mut d = vec![
            Date::constant(0, 6, 15), Date::constant(-1, 6, 15), Date::constant(-9999, 1, 1), Date::constant(9999, 12, 31),
            Date::constant(9999, 12, 30), Date::constant(1969, 12, 31), Date::constant(1970, 1, 1), Date::constant(2024, 2, 29),
            Date::constant(-4, 2, 28), Date::constant(0, 12, 31), Date::constant(0, 1, 1), Date::constant(1, 1, 1),
            Date::constant(-1, 12, 31), Date::constant(2024, 12, 31), Date::constant(-2000, 7, 4),
        ];
        d.extend(date_pool(&mut rng, if quick { 30 } else { 500 }));
        d
    };
    let reps = if quick { 3 } else { 12 };
    for _ in 0..reps {
        for ui in 0..6usize {
            let uns = UNITS[ui].2;
            for &k in legal_small(ui) {
                let inc = uns * k as i128;
                for mi in 0..9 {
                    for x in tod_values(&mut rng, inc) {
                        let t = time_from_ns(x);
                        let cls = if x % inc == 0 { "exact-multiple" } else if inc % 2 == 0 && x % inc == inc / 2 { "tie" } else { "near-boundary" };
                        out.emit(round_time(t, ui, k, mi, cls));
                        let d = *rng.pick(&dates);
                        let cls2 = if d.year() <= 0 { "year<=0" } else if d == Date::MAX { "limit" } else { cls };
                        out.emit(round_dt(DateTime::from_parts(d, t), ui, k, mi, cls2));
                    }
                }
            }
        }
    }
    // day rounding of datetimes, every mode, around noon and at the limits
    for &d in &dates {
        for mi in 0..9 {
            for x in [0i128, 1, day / 2 - 1, day / 2, day / 2 + 1, day - 1, rng.range128(0, day - 1)] {
                let cls = if d.year() <= 0 { "year<=0" } else { "day-unit" };
                out.emit(round_dt(DateTime::from_parts(d, time_from_ns(x)), 6, 1, mi, cls));
            }
        }
    }
    // illegal increments and unsupported units must be refused
    for ui in 0..10usize {
        for &k in ILLEGAL.iter().chain(&[2i64, 1]) {
            let mi = (rng.next() % 9) as usize;
            let t = time_from_ns(rng.range128(0, day - 1));
            out.emit(round_time(t, ui, k, mi, "increment-legality"));
            out.emit(round_dt(DateTime::from_parts(*rng.pick(&dates), t), ui, k, mi, "increment-legality"));
            let ts = Timestamp::from_nanosecond(rng.range128(-4_000_000_000_000_000_000, 4_000_000_000_000_000_000)).unwrap();
            out.emit(round_ts(ts, ui, k, mi, "increment-legality"));
            out.emit(round_sd(SignedDuration::new(rng.range(-1_000_000, 1_000_000), 0), ui, k, mi, "increment-legality"));
            out.emit(round_off(rng.range(-93599, 93599) as i32, ui, k, mi, "increment-legality"));
        }
    }
    // timestamps: increments dividing 24h, both signs, limits
    let ts_incs: &[(usize, i64)] = &[
        (0, 1), (0, 2), (0, 1000), (0, 500_000_000), (0, 1_000_000_000), (0, 86_400_000_000_000), (0, 43_200_000_000_000),
        (0, 128), (0, 65536), (1, 1), (1, 250), (1, 86_400_000_000), (2, 1), (2, 4), (2, 86_400_000), (2, 3),
        (3, 1), (3, 30), (3, 86400), (3, 7), (3, 43200), (4, 1), (4, 15), (4, 1440), (4, 90), (4, 7), (5, 1), (5, 6), (5, 12), (5, 24), (5, 5), (5, 48),
    ];
    let lo = Timestamp::MIN.as_nanosecond();
    let hi = Timestamp::MAX.as_nanosecond();
    for &(ui, k) in ts_incs {
        let inc = UNITS[ui].2 * k as i128;
        for mi in 0..9 {
            let mut xs: Vec<i128> = vec![lo, lo + 1, hi, hi - 1, 0, 1, -1, inc / 2, -inc / 2, inc / 2 + 1, -inc / 2 - 1, -inc, inc];
            for _ in 0..(if quick { 6 } else { 60 }) {
                let q = rng.range128(lo / inc + 1, hi / inc - 1);
                let base = q * inc;
                for d in [0i128, 1, -1, inc / 2, inc / 2 + 1, inc / 2 - 1] {
                    xs.push(base + d);
                }
            }
            for x in xs {
                if let Ok(ts) = Timestamp::from_nanosecond(x.clamp(lo, hi)) {
                    let cls = if x <= lo + 1 || x >= hi - 1 { "limit" } else if x < 0 { "negative" } else if inc % 2 == 0 && x.rem_euclid(inc) == inc / 2 { "tie" } else { "plain" };
                    out.emit(round_ts(ts, ui, k, mi, cls));
                }
            }
        }
    }
    // signed durations (any magnitude) and offsets
    let sds = dur_pool(&mut rng, if quick { 60 } else { 1500 });
    for &d in &sds {
        for _ in 0..(if quick { 6 } else { 20 }) {
            let ui = (rng.next() % 6) as usize;
            let k = *rng.pick(legal_small(ui));
            let mi = (rng.next() % 9) as usize;
            let cls = if d.as_secs().unsigned_abs() > (1u64 << 62) { "limit" } else if d.is_negative() { "negative" } else { "plain" };
            out.emit(round_sd(d, ui, k, mi, cls));
        }
    }
    for ui in 0..6usize {
        for &k in legal_small(ui) {
            let inc = UNITS[ui].2 * k as i128;
            for mi in 0..9 {
                for sign in [1i128, -1] {
                    let q = rng.range128(0, 1_000_000);
                    for d in [0i128, inc / 2, inc / 2 + 1, inc / 2 - 1, 1, inc - 1] {
                        let x = sign * (q * inc + d);
                        let sd = SignedDuration::new((x / 1_000_000_000) as i64, (x % 1_000_000_000) as i32);
                        let cls = if inc % 2 == 0 && d == inc / 2 { "tie" } else if sign < 0 { "negative" } else { "plain" };
                        out.emit(round_sd(sd, ui, k, mi, cls));
                    }
                }
            }
        }
    }
    for ui in 3..6usize {
        for &k in legal_small(ui) {
            for mi in 0..9 {
                let inc_s = (UNITS[ui].2 / 1_000_000_000) as i64 * k;
                let mut offs: Vec<i32> = vec![93599, -93599, 0, 1, -1, 93598, -93598, 90000, -90000];
                for _ in 0..4 {
                    let q = rng.range(-93599 / inc_s, 93599 / inc_s);
                    for d in [0, inc_s / 2, inc_s / 2 + 1, -inc_s / 2, -(inc_s / 2) - 1] {
                        offs.push((q * inc_s + d).clamp(-93599, 93599) as i32);
                    }
                }
                for o in offs {
                    out.emit(round_off(o, ui, k, mi, if o < 0 { "negative" } else if o.abs() > 86400 { "limit" } else { "plain" }));
                }
            }
        }
    }
    out.finish();
}

// ---------------------------------------------------------------------------
// C07: differences of civil types and timestamps

fn jspan_res(r: &Result<Result<Span, jiff::Error>, String>) -> (&'static str, Value) {
    match r {
        Ok(Ok(s)) => ("ok", jspan(s)),
        Ok(Err(_)) => ("err", jspan(&Span::new())),
        Err(_) => ("panic", jspan(&Span::new())),
    }
}

fn until_date(a: Date, b: Date, ui: usize, cls: &str) -> Value {
    let u = UNITS[ui].0;
    let r = guard(|| a.until((u, b)));
    let rs = guard(|| a.since((u, b)));
    let d = guard(|| a.duration_until(b));
    let (st, span) = jspan_res(&r);
    let (sst, since) = jspan_res(&rs);
    let (dsec, dns) = d.map(jdur).unwrap_or((big(0), -1));
    json!({"op":"until_date","cls":cls,"a":jdate(a),"b":jdate(b),"largest":UNITS[ui].1,"st":st,"span":span,"sst":sst,"since":since,
           "dsec":dsec,"dns":dns})
}
fn until_dt(a: DateTime, b: DateTime, ui: usize, cls: &str) -> Value {
    let u = UNITS[ui].0;
    let r = guard(|| a.until((u, b)));
    let rs = guard(|| a.since((u, b)));
    let d = guard(|| a.duration_until(b));
    let (st, span) = jspan_res(&r);
    let (sst, since) = jspan_res(&rs);
    let (dsec, dns) = d.map(jdur).unwrap_or((big(0), -1));
    json!({"op":"until_dt","cls":cls,"a":jdt(a),"b":jdt(b),"largest":UNITS[ui].1,"st":st,"span":span,"sst":sst,"since":since,
           "dsec":dsec,"dns":dns})
}
fn until_time(a: Time, b: Time, ui: usize, cls: &str) -> Value {
    let u = UNITS[ui].0;
    let r = guard(|| a.until((u, b)));
    let rs = guard(|| a.since((u, b)));
    let d = guard(|| a.duration_until(b));
    let (st, span) = jspan_res(&r);
    let (sst, since) = jspan_res(&rs);
    let (dsec, dns) = d.map(jdur).unwrap_or((big(0), -1));
    json!({"op":"until_time","cls":cls,"a":jtime(a),"b":jtime(b),"largest":UNITS[ui].1,"st":st,"span":span,"sst":sst,"since":since,
           "dsec":dsec,"dns":dns})
}
fn until_ts(a: Timestamp, b: Timestamp, ui: usize, cls: &str) -> Value {
    let u = UNITS[ui].0;
    let r = guard(|| a.until((u, b)));
    let rs = guard(|| a.since((u, b)));
    let d = guard(|| a.duration_until(b));
    let (st, span) = jspan_res(&r);
    let (sst, since) = jspan_res(&rs);
    let (dsec, dns) = d.map(jdur).unwrap_or((big(0), -1));
    json!({"op":"until_ts","cls":cls,"asec":big(a.as_second() as i128),"ans":a.subsec_nanosecond(),
           "bsec":big(b.as_second() as i128),"bns":b.subsec_nanosecond(),"largest":UNITS[ui].1,"st":st,"span":span,
           "sst":sst,"since":since,"dsec":dsec,"dns":dns})
}

pub fn run_c07(a: &Args) {
    let mut out = Out::new(&a.out, "c07", 12_000);
    let mut rng = Rng::new(a.seed, 7);
    let quick = a.quick();
    let dates = date_pool(&mut rng, if quick { 250 } else { 4000 });
    let times = time_pool(&mut rng, if quick { 60 } else { 600 });
    // (1) dates: structured neighbourhood pairs: b = a shifted by (years, months, days) around month ends
    for &d in &dates {
        for _ in 0..(if quick { 10 } else { 40 }) {
            let ry = rng.range(-19998, 19998);
            let dy = *rng.pick(&[0i64, 0, 1, -1, 4, -4, 100, ry]);
            let dm = rng.range(-14, 14);
            let rd = rng.range(-400, 400);
            let dd = *rng.pick(&[0i64, 1, -1, 2, -2, 3, -3, 27, 28, 29, 30, 31, -28, -30, -31, rd]);
            let y2 = (d.year() as i64 + dy).clamp(-9999, 9999);
            let mtot = (d.month() as i64 - 1) + dm;
            let y2 = (y2 + mtot.div_euclid(12)).clamp(-9999, 9999) as i16;
            let m2 = (mtot.rem_euclid(12) + 1) as i8;
            let base = Date::new(y2, m2, 1).unwrap();
            let day2 = ((d.day() as i64 + dd).rem_euclid(31) + 1).min(base.days_in_month() as i64) as i8;
            let b = Date::new(y2, m2, day2).unwrap();
            for ui in 6..10usize {
                let cls = if d.day() >= 28 || b.day() >= 28 { "month-end" } else if b < d { "negative" } else { "plain" };
                out.emit(until_date(d, b, ui, cls));
            }
            // datetimes: equal / crossing times of day
            let ta = *rng.pick(&times);
            let tb = match rng.next() % 4 {
                0 => ta,
                1 => Time::MIN,
                2 => Time::MAX,
                _ => *rng.pick(&times),
            };
            let (da, db) = (DateTime::from_parts(d, ta), DateTime::from_parts(b, tb));
            for ui in [9usize, 8, 7, 6, 5, (rng.next() % 5) as usize] {
                let cls = if (tb < ta) != (db < da) && ta != tb { "time-crossing" } else if db < da { "negative" } else { "plain" };
                out.emit(until_dt(da, db, ui, cls));
            }
        }
    }
    // limits
    for (x, y) in [(Date::MIN, Date::MAX), (Date::MAX, Date::MIN), (Date::MIN, Date::MIN), (Date::constant(-9999, 1, 31), Date::constant(9999, 2, 28))] {
        for ui in 0..10usize {
            out.emit(until_date(x, y, ui, "limit"));
            out.emit(until_dt(DateTime::from_parts(x, Time::MAX), DateTime::from_parts(y, Time::MIN), ui, "limit"));
            out.emit(until_dt(DateTime::from_parts(x, Time::MIN), DateTime::from_parts(y, Time::MAX), ui, "limit"));
        }
    }
    // (2) times
    for (i, &ta) in times.iter().enumerate() {
        for j in 0..(if quick { 12 } else { 60 }) {
            let tb = times[(i * 5 + j * 7 + 1) % times.len()];
            for ui in [5usize, 4, 3, (rng.next() % 3) as usize, 6 + (rng.next() % 4) as usize] {
                out.emit(until_time(ta, tb, ui, if tb < ta { "negative" } else { "plain" }));
            }
        }
    }
    // (3) timestamps
    let lo = Timestamp::MIN.as_nanosecond();
    let hi = Timestamp::MAX.as_nanosecond();
    let mut tss = vec![Timestamp::MIN, Timestamp::MAX, Timestamp::UNIX_EPOCH, Timestamp::new(0, -1).unwrap(), Timestamp::new(-1, -999_999_999).unwrap()];
    for _ in 0..(if quick { 120 } else { 2000 }) {
        tss.push(Timestamp::from_nanosecond(match rng.next() % 3 {
            0 => rng.range128(-4_000_000_000_000_000_000, 4_000_000_000_000_000_000),
            1 => rng.range128(-200_000_000_000_000, 200_000_000_000_000),
            _ => rng.range128(lo, hi),
        }).unwrap());
    }
    for (i, &ta) in tss.iter().enumerate() {
        for j in 0..(if quick { 8 } else { 30 }) {
            let tb = tss[(i * 3 + j * 11 + 1) % tss.len()];
            for ui in [5usize, 3, (rng.next() % 6) as usize, 0, 6] {
                let cls = if i < 5 || (i * 3 + j * 11 + 1) % tss.len() < 5 { "limit" } else if tb < ta { "negative" } else { "plain" };
                out.emit(until_ts(ta, tb, ui, cls));
            }
        }
    }
    out.finish();
}
