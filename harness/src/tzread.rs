//! Independent readers of TZif (RFC 8536) files and POSIX TZ strings.
//! Written from the RFC / POSIX / tzfile(5) texts, shares no code with
//! jiff.  They produce the *abstract zone* of spec/TzLookup.tla; the lookup
//! semantics live in the spec, not here.  Validated against `zdump -v`
//! by the oracle self-check of ./check (a disagreement there is a tool
//! error, never a verdict about jiff).

use serde_json::{json, Value};

#[derive(Clone, Debug, PartialEq)]
pub struct LocalType {
    pub off: i32,
    pub dst: bool,
    pub abbr: String,
}

#[derive(Clone, Debug, PartialEq)]
pub struct DaySpec {
    pub k: char, // 'J' | 'N' | 'M'
    pub a: i32,  // J: 1..=365, N: 0..=365, M: month
    pub b: i32,  // M: week 1..=5
    pub c: i32,  // M: weekday 0..=6 (0 = Sunday)
    pub t: i32,  // seconds after local midnight, may be negative / > 24h
}

#[derive(Clone, Debug, PartialEq)]
pub struct Dst {
    pub off: i32,
    pub abbr: String,
    pub start: DaySpec,
    pub end: DaySpec,
}

#[derive(Clone, Debug, PartialEq)]
pub struct Rule {
    pub std_off: i32,
    pub std_abbr: String,
    pub dst: Option<Dst>,
}

#[derive(Clone, Debug)]
pub struct AZone {
    pub name: String,
    pub types: Vec<LocalType>,
    /// (unix second, 0-based type index)
    pub trans: Vec<(i64, usize)>,
    pub rule: Option<Rule>,
    pub footer: String,
    pub version: u8,
    pub leaps: usize,
}

fn be32(b: &[u8]) -> i64 {
    i32::from_be_bytes([b[0], b[1], b[2], b[3]]) as i64
}
fn be64(b: &[u8]) -> i64 {
    i64::from_be_bytes([b[0], b[1], b[2], b[3], b[4], b[5], b[6], b[7]])
}
fn ube32(b: &[u8]) -> usize {
    u32::from_be_bytes([b[0], b[1], b[2], b[3]]) as usize
}

struct Hdr {
    version: u8,
    isutcnt: usize,
    isstdcnt: usize,
    leapcnt: usize,
    timecnt: usize,
    typecnt: usize,
    charcnt: usize,
}

fn header(b: &[u8]) -> Result<Hdr, String> {
    if b.len() < 44 || &b[0..4] != b"TZif" {
        return Err("no TZif magic".into());
    }
    Ok(Hdr {
        version: b[4],
        isutcnt: ube32(&b[20..]),
        isstdcnt: ube32(&b[24..]),
        leapcnt: ube32(&b[28..]),
        timecnt: ube32(&b[32..]),
        typecnt: ube32(&b[36..]),
        charcnt: ube32(&b[40..]),
    })
}

fn block_len(h: &Hdr, ts: usize) -> usize {
    h.timecnt * ts + h.timecnt + h.typecnt * 6 + h.charcnt + h.leapcnt * (ts + 4) + h.isstdcnt + h.isutcnt
}

fn block(b: &[u8], h: &Hdr, ts: usize) -> Result<(Vec<(i64, usize)>, Vec<LocalType>), String> {
    if b.len() < block_len(h, ts) {
        return Err("short block".into());
    }
    let mut p = 0;
    let mut times = Vec::new();
    for i in 0..h.timecnt {
        let c = &b[p + i * ts..];
        times.push(if ts == 4 { be32(c) } else { be64(c) });
    }
    p += h.timecnt * ts;
    let idx: Vec<usize> = b[p..p + h.timecnt].iter().map(|&x| x as usize).collect();
    p += h.timecnt;
    let mut raw = Vec::new();
    for i in 0..h.typecnt {
        let c = &b[p + i * 6..];
        raw.push((be32(c) as i32, c[4] != 0, c[5] as usize));
    }
    p += h.typecnt * 6;
    let chars = &b[p..p + h.charcnt];
    let mut types = Vec::new();
    for (off, dst, ai) in raw {
        if ai >= chars.len() {
            return Err("abbr index".into());
        }
        let end = chars[ai..].iter().position(|&c| c == 0).ok_or("abbr nul")? + ai;
        types.push(LocalType { off, dst, abbr: String::from_utf8_lossy(&chars[ai..end]).to_string() });
    }
    for &i in &idx {
        if i >= types.len() {
            return Err("type index".into());
        }
    }
    Ok((times.into_iter().zip(idx).collect(), types))
}

pub fn read_tzif(name: &str, b: &[u8]) -> Result<AZone, String> {
    let h1 = header(b)?;
    let l1 = block_len(&h1, 4);
    if h1.version == 0 {
        let (trans, types) = block(&b[44..], &h1, 4)?;
        return Ok(AZone { name: name.into(), types, trans, rule: None, footer: String::new(), version: 1, leaps: h1.leapcnt });
    }
    let b2 = b.get(44 + l1..).ok_or("no v2 header")?;
    let h2 = header(b2)?;
    let (trans, types) = block(&b2[44..], &h2, 8)?;
    let rest = &b2[44 + block_len(&h2, 8)..];
    if rest.first() != Some(&b'\n') {
        return Err("footer start".into());
    }
    let end = rest[1..].iter().position(|&c| c == b'\n').ok_or("footer end")?;
    let footer = String::from_utf8_lossy(&rest[1..1 + end]).to_string();
    let rule = if footer.is_empty() { None } else { Some(parse_posix(&footer)?) };
    Ok(AZone { name: name.into(), types, trans, rule, footer, version: h2.version, leaps: h2.leapcnt })
}

// ---------------------------------------------------------------------------
// POSIX TZ strings (POSIX.1-2017 8.3 with the RFC 8536 3.3.1 extension of
// the time field to -167..=167 hours)

struct P<'a> {
    s: &'a [u8],
    i: usize,
}

impl<'a> P<'a> {
    fn peek(&self) -> Option<u8> {
        self.s.get(self.i).copied()
    }
    fn eat(&mut self, c: u8) -> bool {
        if self.peek() == Some(c) {
            self.i += 1;
            true
        } else {
            false
        }
    }
    fn name(&mut self) -> Result<String, String> {
        let start = self.i;
        if self.eat(b'<') {
            while let Some(c) = self.peek() {
                if c == b'>' {
                    let n = String::from_utf8_lossy(&self.s[start + 1..self.i]).to_string();
                    self.i += 1;
                    if n.len() < 3 {
                        return Err("short quoted name".into());
                    }
                    return Ok(n);
                }
                if !(c.is_ascii_alphanumeric() || c == b'+' || c == b'-') {
                    return Err("bad char in quoted name".into());
                }
                self.i += 1;
            }
            Err("unterminated name".into())
        } else {
            while let Some(c) = self.peek() {
                if c.is_ascii_alphabetic() {
                    self.i += 1;
                } else {
                    break;
                }
            }
            if self.i - start < 3 {
                return Err("short name".into());
            }
            Ok(String::from_utf8_lossy(&self.s[start..self.i]).to_string())
        }
    }
    fn num(&mut self, maxdigits: usize) -> Result<i32, String> {
        let start = self.i;
        while let Some(c) = self.peek() {
            if c.is_ascii_digit() && self.i - start < maxdigits {
                self.i += 1;
            } else {
                break;
            }
        }
        if self.i == start {
            return Err("number expected".into());
        }
        Ok(std::str::from_utf8(&self.s[start..self.i]).unwrap().parse().unwrap())
    }
    /// [+-]h[h[h]][:mm[:ss]] -> seconds; `maxh` bounds the hours
    fn hms(&mut self, maxh: i32, maxhd: usize) -> Result<i32, String> {
        let neg = if self.eat(b'-') {
            true
        } else {
            self.eat(b'+');
            false
        };
        let h = self.num(maxhd)?;
        if h > maxh {
            return Err("hours".into());
        }
        let mut secs = h * 3600;
        if self.eat(b':') {
            let m = self.num(2)?;
            if m > 59 {
                return Err("minutes".into());
            }
            secs += m * 60;
            if self.eat(b':') {
                let s = self.num(2)?;
                if s > 59 {
                    return Err("seconds".into());
                }
                secs += s;
            }
        }
        Ok(if neg { -secs } else { secs })
    }
    fn dayspec(&mut self) -> Result<DaySpec, String> {
        let mut d = if self.eat(b'J') {
            let n = self.num(3)?;
            if !(1..=365).contains(&n) {
                return Err("Jn".into());
            }
            DaySpec { k: 'J', a: n, b: 0, c: 0, t: 7200 }
        } else if self.eat(b'M') {
            let m = self.num(2)?;
            if !self.eat(b'.') {
                return Err("M.".into());
            }
            let w = self.num(1)?;
            if !self.eat(b'.') {
                return Err("M..".into());
            }
            let wd = self.num(1)?;
            if !(1..=12).contains(&m) || !(1..=5).contains(&w) || !(0..=6).contains(&wd) {
                return Err("Mm.w.d".into());
            }
            DaySpec { k: 'M', a: m, b: w, c: wd, t: 7200 }
        } else {
            let n = self.num(3)?;
            if !(0..=365).contains(&n) {
                return Err("n".into());
            }
            DaySpec { k: 'N', a: n, b: 0, c: 0, t: 7200 }
        };
        if self.eat(b'/') {
            d.t = self.hms(167, 3)?;
        }
        Ok(d)
    }
}

pub fn parse_posix(s: &str) -> Result<Rule, String> {
    let mut p = P { s: s.as_bytes(), i: 0 };
    let std_abbr = p.name()?;
    // POSIX offsets are positive WEST of Greenwich
    let std_off = -p.hms(24, 2)?;
    if p.peek().is_none() {
        return Ok(Rule { std_off, std_abbr, dst: None });
    }
    let dst_abbr = p.name()?;
    let mut dst_off = std_off + 3600;
    if let Some(c) = p.peek() {
        if c != b',' {
            dst_off = -p.hms(24, 2)?;
        }
    }
    if !p.eat(b',') {
        return Err("DST without rule".into());
    }
    let start = p.dayspec()?;
    if !p.eat(b',') {
        return Err("rule end expected".into());
    }
    let end = p.dayspec()?;
    if p.peek().is_some() {
        return Err("trailing data".into());
    }
    Ok(Rule { std_off, std_abbr, dst: Some(Dst { off: dst_off, abbr: dst_abbr, start, end }) })
}

// ---------------------------------------------------------------------------
// JSON projection for the spec

// instants outside this window are never probed; clamping keeps the day
// number inside TLC's integers and preserves order
const CLAMP_LO: i64 = -377_705_116_800 - 86_400;
const CLAMP_HI: i64 = 253_402_300_799 + 86_400;

fn jdayspec(d: &DaySpec) -> Value {
    json!({"k": d.k.to_string(), "a": d.a, "b": d.b, "c": d.c, "t": d.t})
}

pub fn jrule(r: &Option<Rule>) -> Value {
    // always the same record shape (TLC cannot compare a record with 0)
    let dummy = DaySpec { k: 'N', a: 0, b: 0, c: 0, t: 0 };
    match r {
        None => json!({"has": 0, "std": [0, ""], "hasdst": 0,
                       "dst": {"off": 0, "ab": "", "start": jdayspec(&dummy), "end": jdayspec(&dummy)}}),
        Some(r) => {
            let (hasdst, dst) = match &r.dst {
                None => (0, json!({"off": 0, "ab": "", "start": jdayspec(&dummy), "end": jdayspec(&dummy)})),
                Some(d) => (1, json!({"off": d.off, "ab": d.abbr, "start": jdayspec(&d.start), "end": jdayspec(&d.end)})),
            };
            json!({"has": 1, "std": [r.std_off, r.std_abbr], "hasdst": hasdst, "dst": dst})
        }
    }
}

impl AZone {
    pub fn to_json(&self) -> Value {
        let types: Vec<Value> =
            self.types.iter().map(|t| json!([t.off, if t.dst { 1 } else { 0 }, t.abbr])).collect();
        let trans: Vec<Value> = self
            .trans
            .iter()
            .map(|&(t, ty)| {
                let t = t.clamp(CLAMP_LO, CLAMP_HI);
                json!([t.div_euclid(86400), t.rem_euclid(86400), ty + 1])
            })
            .collect();
        json!({"name": self.name, "types": types, "trans": trans, "rule": jrule(&self.rule)})
    }
    pub fn posix(name: &str, s: &str) -> Result<AZone, String> {
        let r = parse_posix(s)?;
        Ok(AZone { name: name.into(), types: vec![], trans: vec![], rule: Some(r), footer: s.into(), version: 0, leaps: 0 })
    }
    pub fn fixed(name: &str, off: i32, abbr: &str) -> AZone {
        AZone {
            name: name.into(),
            types: vec![LocalType { off, dst: false, abbr: abbr.into() }],
            trans: vec![],
            rule: None,
            footer: String::new(),
            version: 0,
            leaps: 0,
        }
    }
}
