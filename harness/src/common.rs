//! Shared plumbing for all drivers: deterministic PRNG, sharded NDJSON
//! output with coverage-class accounting, big-integer limb encoding, and
//! panic capture.  Nothing in here computes an answer a property is about.

use serde_json::{json, Map, Value};
use std::collections::BTreeMap;
use std::fs::File;
use std::io::{BufWriter, Write};
use std::path::{Path, PathBuf};

/// splitmix64; all random choices derive from VERIF_SEED.
#[derive(Clone)]
pub struct Rng(pub u64);

impl Rng {
    pub fn new(seed: u64, stream: u64) -> Rng {
        let mut r = Rng(seed ^ stream.wrapping_mul(0x9E3779B97F4A7C15));
        r.next();
        r
    }
    pub fn next(&mut self) -> u64 {
        self.0 = self.0.wrapping_add(0x9E3779B97F4A7C15);
        let mut z = self.0;
        z = (z ^ (z >> 30)).wrapping_mul(0xBF58476D1CE4E5B9);
        z = (z ^ (z >> 27)).wrapping_mul(0x94D049BB133111EB);
        z ^ (z >> 31)
    }
    /// uniform in lo..=hi
    pub fn range(&mut self, lo: i64, hi: i64) -> i64 {
        assert!(lo <= hi);
        let span = (hi as i128 - lo as i128 + 1) as u128;
        let v = ((self.next() as u128) << 64 | self.next() as u128) % span;
        (lo as i128 + v as i128) as i64
    }
    pub fn range128(&mut self, lo: i128, hi: i128) -> i128 {
        assert!(lo <= hi);
        let span = (hi - lo) as u128 + 1;
        let v = ((self.next() as u128) << 64 | self.next() as u128) % span;
        lo + v as i128
    }
    pub fn pick<'a, T>(&mut self, xs: &'a [T]) -> &'a T {
        &xs[(self.next() % xs.len() as u64) as usize]
    }
    pub fn chance(&mut self, num: u64, den: u64) -> bool {
        self.next() % den < num
    }
}

/// Encode an integer for TLC (32-bit ints): small values stay plain JSON
/// numbers; anything else becomes sign + little-endian base-10^4 limbs.
/// `big` ALWAYS uses the limb form, so a field has one shape.
pub fn big(v: i128) -> Value {
    let s = if v > 0 {
        1
    } else if v < 0 {
        -1
    } else {
        0
    };
    let mut m = v.unsigned_abs();
    let mut limbs = Vec::new();
    while m > 0 {
        limbs.push(Value::from((m % 10_000) as u64));
        m /= 10_000;
    }
    json!({"s": s, "m": limbs})
}

pub fn unbig(v: &Value) -> i128 {
    let s = v["s"].as_i64().unwrap() as i128;
    let mut acc: i128 = 0;
    for l in v["m"].as_array().unwrap().iter().rev() {
        acc = acc * 10_000 + l.as_i64().unwrap() as i128;
    }
    s * acc
}

/// Run `f`, turning a panic into Err(message).
pub fn guard<T>(f: impl FnOnce() -> T) -> Result<T, String> {
    match std::panic::catch_unwind(std::panic::AssertUnwindSafe(f)) {
        Ok(v) => Ok(v),
        Err(e) => {
            let msg = if let Some(s) = e.downcast_ref::<&str>() {
                s.to_string()
            } else if let Some(s) = e.downcast_ref::<String>() {
                s.clone()
            } else {
                "non-string panic".to_string()
            };
            Err(msg)
        }
    }
}

pub static LAST_PANIC: std::sync::Mutex<String> = std::sync::Mutex::new(String::new());

/// Panics inside jiff are data (caught by `guard`); keep the terminal quiet
/// but remember the last one so that a panic of the harness itself is shown.
pub fn silence_panics() {
    std::panic::set_hook(Box::new(|info| {
        if let Ok(mut g) = LAST_PANIC.lock() {
            *g = format!("{info}");
        }
        if std::env::var("JV_DEBUG").is_ok() {
            eprintln!("[panic] {info}\n{}", std::backtrace::Backtrace::force_capture());
        }
    }));
}

/// "ok" / "err" / "panic" status of a guarded fallible call, plus value.
pub fn status<T, E>(r: &Result<Result<T, E>, String>) -> &'static str {
    match r {
        Ok(Ok(_)) => "ok",
        Ok(Err(_)) => "err",
        Err(_) => "panic",
    }
}

pub struct Out {
    dir: PathBuf,
    stem: String,
    shard_size: usize,
    shard_idx: usize,
    in_shard: usize,
    w: Option<BufWriter<File>>,
    pub total: u64,
    classes: BTreeMap<String, u64>,
    samples: BTreeMap<String, Value>,
    pub files: Vec<String>,
    nontrivial_distinct: std::collections::HashSet<u64>,
    /// applied to every event before it is written (drivers use it to tag events)
    pub post: Option<fn(&mut Value)>,
    /// context events (e.g. the zone a run of events refers to): written again at the start of every new shard,
    /// so that a shard is always self-contained however many events a context produces
    header: Vec<String>,
}

impl Out {
    pub fn new(dir: &Path, stem: &str, shard_size: usize) -> Out {
        std::fs::create_dir_all(dir).unwrap();
        Out {
            dir: dir.to_path_buf(),
            stem: stem.to_string(),
            shard_size,
            shard_idx: 0,
            in_shard: 0,
            w: None,
            total: 0,
            classes: BTreeMap::new(),
            samples: BTreeMap::new(),
            files: Vec::new(),
            nontrivial_distinct: std::collections::HashSet::new(),
            post: None,
            header: Vec::new(),
        }
    }

    /// Emit context events now and repeat them at the start of every shard opened until the next call.
    pub fn set_header(&mut self, evs: Vec<Value>) {
        self.header.clear();
        for e in &evs {
            self.emit(e.clone());
        }
        // (serialized after `post` ran on them: emit() stores the last serialization)
        self.header = evs
            .into_iter()
            .map(|mut e| {
                if let Some(f) = self.post {
                    f(&mut e);
                }
                serde_json::to_string(&e).unwrap()
            })
            .collect();
    }

    /// Emit one event.  `ev` must be an object with "op" and "cls".
    /// Events whose class is not "plain" count as non-trivial; distinctness
    /// is by a hash of the whole serialized event.
    pub fn emit(&mut self, mut ev: Value) {
        if let Some(f) = self.post {
            f(&mut ev);
        }
        if self.w.is_none() || self.in_shard >= self.shard_size {
            if let Some(mut w) = self.w.take() {
                w.flush().unwrap();
            }
            let name = format!("{}-{:04}.ndjson", self.stem, self.shard_idx);
            self.shard_idx += 1;
            self.in_shard = 0;
            let p = self.dir.join(&name);
            self.files.push(p.to_string_lossy().to_string());
            self.w = Some(BufWriter::with_capacity(1 << 20, File::create(p).unwrap()));
            // a shard that opens in the middle of a context starts with that context
            let w = self.w.as_mut().unwrap();
            for h in &self.header {
                w.write_all(h.as_bytes()).unwrap();
                w.write_all(b"\n").unwrap();
                self.in_shard += 1;
            }
        }
        let cls = ev["cls"].as_str().unwrap_or("plain").to_string();
        let s = serde_json::to_string(&ev).unwrap();
        if cls != "plain" {
            use std::hash::{Hash, Hasher};
            let mut h = std::collections::hash_map::DefaultHasher::new();
            s.hash(&mut h);
            self.nontrivial_distinct.insert(h.finish());
        }
        *self.classes.entry(cls.clone()).or_insert(0) += 1;
        if !self.samples.contains_key(&cls) {
            self.samples.insert(cls, ev);
        }
        let w = self.w.as_mut().unwrap();
        w.write_all(s.as_bytes()).unwrap();
        w.write_all(b"\n").unwrap();
        self.in_shard += 1;
        self.total += 1;
    }

    /// Start a new shard if the current one already holds `limit` events
    /// (used at zone boundaries: a zone's events never straddle shards).
    pub fn soft_cut(&mut self, limit: usize) {
        if self.in_shard >= limit {
            self.in_shard = self.shard_size;
        }
    }

    /// Force the next event into a new shard (e.g. per zone file).
    pub fn cut(&mut self) {
        self.in_shard = self.shard_size;
    }

    pub fn finish(mut self) {
        if let Some(mut w) = self.w.take() {
            w.flush().unwrap();
        }
        let mut m = Map::new();
        m.insert("stem".into(), json!(self.stem));
        m.insert("events".into(), json!(self.total));
        m.insert("files".into(), json!(self.files));
        m.insert("classes".into(), json!(self.classes));
        m.insert(
            "distinct_nontrivial".into(),
            json!(self.nontrivial_distinct.len()),
        );
        m.insert("samples".into(), json!(self.samples));
        let p = self.dir.join(format!("{}.summary.json", self.stem));
        std::fs::write(p, serde_json::to_string(&Value::Object(m)).unwrap()).unwrap();
    }
}

#[derive(Clone)]
pub struct Args {
    pub tier: String,
    pub seed: u64,
    pub out: PathBuf,
    pub rest: Vec<String>,
}

impl Args {
    pub fn quick(&self) -> bool {
        self.tier != "thorough"
    }
    pub fn opt(&self, name: &str) -> Option<String> {
        let key = format!("--{}", name);
        let mut it = self.rest.iter();
        while let Some(a) = it.next() {
            if *a == key {
                return it.next().cloned();
            }
        }
        None
    }
}

// ---------------------------------------------------------------------
// value encodings shared by drivers (projection only)

use jiff::civil::{Date, DateTime, Time, Weekday};

pub fn wd_num(w: Weekday) -> i64 {
    w.to_monday_one_offset() as i64
}
pub fn wd_from(n: i64) -> Weekday {
    Weekday::from_monday_one_offset(n as i8).unwrap()
}
pub fn jdate(d: Date) -> Value {
    json!([d.year(), d.month(), d.day()])
}
pub fn jtime(t: Time) -> Value {
    json!([t.hour(), t.minute(), t.second(), t.subsec_nanosecond()])
}
pub fn jdt(dt: DateTime) -> Value {
    json!([
        dt.year(),
        dt.month(),
        dt.day(),
        dt.hour(),
        dt.minute(),
        dt.second(),
        dt.subsec_nanosecond()
    ])
}
/// Ok(date) -> [y,m,d]; Err -> []; panic -> [-1].  Always a sequence: TLC
/// refuses to compare values of different shapes.
pub fn jres_date<E>(r: Result<Result<Date, E>, String>) -> Value {
    match r {
        Ok(Ok(d)) => jdate(d),
        Ok(Err(_)) => json!([]),
        Err(_) => json!([-1]),
    }
}

/// The recorded cases of a replay file written by ./check.
pub fn replay_events(path: &str) -> Vec<Value> {
    let v: Value = serde_json::from_str(&std::fs::read_to_string(path).unwrap()).unwrap();
    v["cases"]
        .as_array()
        .map(|a| a.iter().map(|c| c["event"].clone()).filter(|e| !e.is_null()).collect())
        .unwrap_or_default()
}
pub fn gi(e: &Value, k: &str) -> i64 {
    e[k].as_i64().unwrap_or(0)
}
