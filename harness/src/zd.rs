//! Zoned drivers: C06 (arithmetic / start of day), C13 (operation
//! histories: well-formedness of every Zoned, Eq/Ord/Hash, zone changes),
//! zoned clauses of C07 (until/since) and C10 (round).

use crate::civ::{gen_span, jspan, mkspan, MODES, UNITS};
use crate::common::*;
use crate::tzcorpus::{self, ZoneSrc};
use crate::tzd::{change_points, jiff_zone, zone_event, TS_MAX, TS_MIN};
use crate::tzread::AZone;
use jiff::tz::TimeZone;
use jiff::{SignedDuration, Span, Timestamp, Zoned};
use serde_json::{json, Value};
use std::hash::{Hash, Hasher};

pub fn zres(r: &Result<Result<Zoned, jiff::Error>, String>) -> Value {
    match r {
        Ok(Ok(z)) => {
            let p = guard(|| {
                json!({"st":"ok","sec":big(z.timestamp().as_second() as i128),"ns":z.timestamp().subsec_nanosecond(),
                       "off":z.offset().seconds(),"civil":jdt(z.datetime())})
            });
            p.unwrap_or(json!({"st":"panic"}))
        }
        Ok(Err(_)) => json!({"st":"err"}),
        Err(m) => json!({"st":"panic","msg":m}),
    }
}
pub fn zval(z: &Zoned) -> Value {
    zres(&Ok(Ok(z.clone())))
}

const KEEP: &[&str] = &[
    "America/New_York", "Europe/Dublin", "Africa/Casablanca", "Australia/Lord_Howe", "Pacific/Apia", "Antarctica/Troll",
    "Europe/London", "Asia/Kolkata", "America/Sao_Paulo", "America/Nuuk", "Pacific/Kiritimati", "Asia/Tehran",
    "America/St_Johns", "Africa/Monrovia", "Pacific/Kwajalein", "Asia/Gaza", "Pacific/Chatham", "Asia/Kathmandu",
    "Africa/Cairo", "Etc/UTC", "America/Havana", "Asia/Beirut", "America/Santiago", "Asia/Amman", "Europe/Amsterdam",
    "America/Asuncion", "Australia/Sydney", "America/Scoresbysund", "Europe/Moscow", "Asia/Tokyo",
    "Pacific/Guam", "Antarctica/Casey",
];

fn zones(a: &Args, rng: &mut Rng, all_system: bool) -> Vec<ZoneSrc> {
    let mut all = tzcorpus::dedup(tzcorpus::system());
    let mut out: Vec<ZoneSrc> = Vec::new();
    let want = if a.quick() && !all_system { 46 } else { 10_000 };
    let mut rest = Vec::new();
    for z in all.drain(..) {
        if KEEP.contains(&z.name.as_str()) {
            out.push(z)
        } else {
            rest.push(z)
        }
    }
    while out.len() < want && !rest.is_empty() {
        let i = (rng.next() % rest.len() as u64) as usize;
        out.push(rest.swap_remove(i));
    }
    if let Some(dir) = a.opt("zones") {
        out.extend(tzcorpus::tzif_files(&format!("{dir}/slim"), "synthetic-slim", &[]));
    }
    for (i, s) in tzcorpus::POSIX_FIXED.iter().enumerate().filter(|(i, _)| !a.quick() || *i < 8 || tzcorpus::QUICK_FIXED.contains(i)) {
        out.push(ZoneSrc { name: format!("posix-fixed-{i}"), class: "posix-string".into(), bytes: s.as_bytes().to_vec() });
    }
    if let Some(o) = a.opt("zone") {
        out.retain(|z| z.name == o);
    }
    out
}

fn zone_slot(az: &AZone, class: &str, slot: i64) -> Value {
    let mut v = zone_event(az, class);
    v.as_object_mut().unwrap().insert("slot".into(), json!(slot));
    v
}

fn mkts(n: i128) -> Option<Timestamp> {
    Timestamp::from_nanosecond(n).ok()
}

/// instants biased to transitions: within +-2 days of change points, month
/// ends, Feb 29, range limits
fn instants(a: &Args, az: &AZone, rng: &mut Rng, n: usize) -> Vec<(Timestamp, &'static str)> {
    let pts = change_points(a, az, rng);
    let mut v: Vec<(Timestamp, &'static str)> = Vec::new();
    let pick_pts: Vec<i64> = if pts.len() > 40 {
        let mut p: Vec<i64> = pts.iter().rev().take(24).map(|x| x.0).collect();
        for _ in 0..16 {
            p.push(pts[(rng.next() % pts.len() as u64) as usize].0);
        }
        p
    } else {
        pts.iter().map(|x| x.0).collect()
    };
    for t in pick_pts {
        for d in [-1i128, 0, 1, -1800_000_000_000, 1800_000_000_000, 3600_000_000_000, -3600_000_000_000, -86_400_000_000_000,
                  86_400_000_000_000, -90_000_000_000_000, 40_000_000_000_000, 172_800_000_000_000, -172_800_000_000_000] {
            if let Some(ts) = mkts(t as i128 * 1_000_000_000 + d) {
                v.push((ts, "near-transition"));
            }
        }
    }
    for (y, m, d) in [(2024i64, 1i64, 31i64), (2024, 2, 29), (2023, 12, 31), (2024, 3, 31), (1999, 12, 31), (2038, 1, 19), (0, 2, 29), (-1, 12, 31)] {
        let s = tzcorpus::days_from_civil(y, m, d) * 86400 + rng.range(0, 86399);
        if let Some(ts) = mkts(s as i128 * 1_000_000_000 + rng.range(0, 999_999_999) as i128) {
            v.push((ts, "month-end"));
        }
    }
    v.push((Timestamp::MIN, "limit"));
    v.push((Timestamp::MAX, "limit"));
    v.push((mkts((TS_MIN as i128 + 100_000) * 1_000_000_000).unwrap(), "limit"));
    v.push((mkts((TS_MAX as i128 - 100_000) * 1_000_000_000).unwrap(), "limit"));
    while v.len() > n {
        let i = (rng.next() % v.len() as u64) as usize;
        v.swap_remove(i);
    }
    for _ in 0..(n / 6).max(2) {
        v.push((mkts(rng.range128(TS_MIN as i128 * 1_000_000_000, TS_MAX as i128 * 1_000_000_000)).unwrap(), "plain"));
    }
    v
}

fn z_add(tz: &TimeZone, ts: Timestamp, s: Span, cls: &str) -> Value {
    let z = Zoned::new(ts, tz.clone());
    let add = guard(|| z.checked_add(s));
    let sub = guard(|| z.checked_sub(s));
    let sat = guard(|| Ok::<Zoned, jiff::Error>(z.saturating_add(s)));
    json!({"op":"z_add","cls":cls,"zi":1,"z":zval(&z),"span":jspan(&s),"add":zres(&add),"sub":zres(&sub),"sat":zres(&sat)})
}
fn z_dur(tz: &TimeZone, ts: Timestamp, d: SignedDuration, cls: &str) -> Value {
    let z = Zoned::new(ts, tz.clone());
    let add = guard(|| z.checked_add(d));
    let sub = guard(|| z.checked_sub(d));
    json!({"op":"z_dur","cls":cls,"zi":1,"z":zval(&z),"dsec":big(d.as_secs() as i128),"dns":d.subsec_nanos(),
           "add":zres(&add),"sub":zres(&sub)})
}
fn z_day(tz: &TimeZone, ts: Timestamp, cls: &str) -> Value {
    let z = Zoned::new(ts, tz.clone());
    json!({"op":"z_day","cls":cls,"zi":1,"z":zval(&z),"sod":zres(&guard(|| z.start_of_day())),"eod":zres(&guard(|| z.end_of_day())),
           "tom":zres(&guard(|| z.tomorrow())),"yes":zres(&guard(|| z.yesterday()))})
}
fn z_until(tz: &TimeZone, a: Timestamp, b: Timestamp, ui: usize, cls: &str) -> Value {
    let (za, zb) = (Zoned::new(a, tz.clone()), Zoned::new(b, tz.clone()));
    let u = UNITS[ui].0;
    let r = guard(|| za.until((u, &zb)));
    let rs = guard(|| za.since((u, &zb)));
    let d = guard(|| za.duration_until(&zb));
    let f = |r: &Result<Result<Span, jiff::Error>, String>| match r {
        Ok(Ok(s)) => ("ok", jspan(s)),
        Ok(Err(_)) => ("err", jspan(&Span::new())),
        Err(_) => ("panic", jspan(&Span::new())),
    };
    let (st, span) = f(&r);
    let (sst, since) = f(&rs);
    let (dsec, dns) = d.map(|d| (big(d.as_secs() as i128), d.subsec_nanos())).unwrap_or((big(0), -1));
    // tag for the known finding D20: `a` is not the compatible resolution of its own civil time
    let arefold = guard(|| za.datetime().to_zoned(tz.clone()).map(|z| z.timestamp() != a).unwrap_or(false)).unwrap_or(false);
    json!({"op":"z_until","cls":cls,"zi":1,"arefold": if arefold {1} else {0},"a":zval(&za),"b":zval(&zb),"largest":UNITS[ui].1,"st":st,"span":span,"sst":sst,
           "since":since,"dsec":dsec,"dns":dns})
}
fn z_round(tz: &TimeZone, ts: Timestamp, ui: usize, k: i64, mi: usize, cls: &str) -> Value {
    let z = Zoned::new(ts, tz.clone());
    let (unit, uname, uns) = UNITS[ui];
    let r = guard(|| z.round(jiff::ZonedRound::new().smallest(unit).increment(k).mode(MODES[mi].0)));
    let t = z.datetime().time();
    let tod: i128 = ((t.hour() as i128 * 60 + t.minute() as i128) * 60 + t.second() as i128) * 1_000_000_000 + t.subsec_nanosecond() as i128;
    let inc = if k > 0 { uns.saturating_mul(k as i128) } else { 0 };
    let mf = if inc > 0 { big(tod.div_euclid(inc)) } else { big(0) };
    json!({"op":"z_round","cls":cls,"zi":1,"z":zval(&z),"unit":uname,"k":big(k as i128),"mode":MODES[mi].1,"mf":mf,"res":zres(&r)})
}


// ---- C11: spans relative to a reference ------------------------------------------

#[derive(Clone)]
pub enum Ref {
    Z(Zoned),
    Dt(jiff::civil::DateTime),
    D(jiff::civil::Date),
    None,
    H24,
}

fn f64_parts(x: f64) -> Value {
    if !x.is_finite() {
        return json!({"kind":"nonfinite","s":0,"m":big(0),"e":0});
    }
    let bits = x.to_bits();
    let sign = if bits >> 63 == 1 { -1 } else { 1 };
    let exp = ((bits >> 52) & 0x7ff) as i64;
    let frac = bits & ((1u64 << 52) - 1);
    let (m, e) = if exp == 0 { (frac, -1074) } else { (frac | (1u64 << 52), exp - 1075) };
    json!({"kind":"finite","s": if m == 0 {0} else {sign},"m":big(m as i128),"e":e})
}

impl Ref {
    fn json(&self) -> Value {
        let zero_z = json!({"st":"ok","sec":big(0),"ns":0,"off":0,"civil":[1970,1,1,0,0,0,0]});
        match self {
            Ref::Z(z) => json!({"kind":"z","z":zval(z),"c":jdt(z.datetime())}),
            Ref::Dt(d) => json!({"kind":"dt","z":zero_z,"c":jdt(*d)}),
            Ref::D(d) => json!({"kind":"dt","z":zero_z,"c":jdt(d.at(0, 0, 0, 0))}),
            Ref::None => json!({"kind":"none","z":zero_z,"c":[1970,1,1,0,0,0,0]}),
            Ref::H24 => json!({"kind":"24h","z":zero_z,"c":[1970,1,1,0,0,0,0]}),
        }
    }
    /// exact nanoseconds from the reference to reference + span (witness material; checked by the spec)
    fn dist(&self, s: &Span) -> Option<i128> {
        match self {
            Ref::Z(z) => guard(|| z.checked_add(*s).ok().map(|e| e.timestamp().as_nanosecond() - z.timestamp().as_nanosecond())).ok().flatten(),
            Ref::Dt(d) => guard(|| d.checked_add(*s).ok().map(|e| d.duration_until(e).as_nanos())).ok().flatten(),
            Ref::D(d) => Ref::Dt(d.at(0, 0, 0, 0)).dist(s),
            _ => {
                let u = |v: i64, n: i128| v as i128 * n;
                let (wk, dy, hr) = (s.get_weeks() as i64, s.get_days() as i64, s.get_hours() as i64);
                Some(u(wk, 604_800_000_000_000) + u(dy, 86_400_000_000_000) + u(hr, 3_600_000_000_000)
                    + u(s.get_minutes(), 60_000_000_000) + u(s.get_seconds(), 1_000_000_000) + u(s.get_milliseconds(), 1_000_000)
                    + u(s.get_microseconds(), 1_000) + s.get_nanoseconds() as i128)
            }
        }
    }
}

fn span_unit(s: &Span, ui: usize) -> i64 {
    match ui {
        0 => s.get_nanoseconds(),
        1 => s.get_microseconds(),
        2 => s.get_milliseconds(),
        3 => s.get_seconds(),
        4 => s.get_minutes(),
        5 => s.get_hours() as i64,
        6 => s.get_days() as i64,
        7 => s.get_weeks() as i64,
        8 => s.get_months() as i64,
        _ => s.get_years() as i64,
    }
}

const UNIT_NS: [i128; 8] = [1, 1_000, 1_000_000, 1_000_000_000, 60_000_000_000, 3_600_000_000_000, 86_400_000_000_000, 604_800_000_000_000];

fn sp_round(r: &Ref, s: Span, si: usize, li: usize, inc: i64, mi: usize, cls: &str) -> Value {
    let res = guard(|| {
        let o = jiff::SpanRound::new().smallest(UNITS[si].0).largest(UNITS[li].0).increment(inc).mode(MODES[mi].0);
        match r {
            Ref::Z(z) => s.round(o.relative(z)),
            Ref::Dt(d) => s.round(o.relative(*d)),
            Ref::D(d) => s.round(o.relative(*d)),
            Ref::None => s.round(o),
            Ref::H24 => s.round(o.days_are_24_hours()),
        }
    });
    let (st, out) = match &res {
        Ok(Ok(x)) => ("ok", *x),
        Ok(Err(_)) => ("err", Span::new()),
        Err(_) => ("panic", Span::new()),
    };
    // with hours and smaller units only, the reference plays no part
    let uniform = li <= 5 && s.get_years() == 0 && s.get_months() == 0 && s.get_weeks() == 0 && s.get_days() == 0;
    let t = if uniform { Ref::None.dist(&s) } else { r.dist(&s) };
    let mf = match (t, si < 8 && inc > 0) {
        (Some(t), true) => UNIT_NS[si].checked_mul(inc as i128).map(|n| t.div_euclid(n)).unwrap_or(0),
        _ => 0,
    };
    let q = if inc != 0 { span_unit(&out, si) / inc } else { 0 };
    // tags for KNOWN_FINDINGS D40 / D41 (never used to decide anything)
    let sub_day = Ref::None.dist(&Span::new().hours(s.get_hours() as i64).minutes(s.get_minutes()).seconds(s.get_seconds()).milliseconds(s.get_milliseconds()).microseconds(s.get_microseconds()).nanoseconds(s.get_nanoseconds())).unwrap_or(0);
    let m12 = sub_day.rem_euclid(43_200_000_000_000);
    let hair = si >= 6 && sub_day != 0 && (m12 <= 1_000_000 || m12 >= 43_200_000_000_000 - 1_000_000);
    let dst_in_span = match r {
        Ref::Z(z) => guard(|| z.checked_add(s).map(|e| e.offset() != z.offset() || z.time_zone().following(z.timestamp().min(e.timestamp())).next().map_or(false, |t| t.timestamp() <= z.timestamp().max(e.timestamp()))).unwrap_or(false)).unwrap_or(false),
        _ => false,
    };
    // tag for KNOWN_FINDINGS D44: a reference on day 29..31, where adding a month clamps
    let refday = match r {
        Ref::Z(z) => z.day(),
        Ref::Dt(d) => d.day(),
        Ref::D(d) => d.day(),
        _ => 0,
    };
    json!({"op":"sp_round","cls":cls,"hair": if hair {1} else {0},"dst_in_span": if dst_in_span {1} else {0},"clamp": if refday >= 29 {1} else {0},"zi":1,"ref":r.json(),"span":jspan(&s),"smallest":UNITS[si].1,"largest":UNITS[li].1,"inc":big(inc as i128),"mode":MODES[mi].1,
           "mf":big(mf),"q":big(q as i128),"res":{"st":st,"span":jspan(&out)}})
}

fn sp_total(r: &Ref, s: Span, ui: usize, cls: &str) -> Value {
    let res = guard(|| {
        let u = UNITS[ui].0;
        match r {
            Ref::Z(z) => s.total((u, z)),
            Ref::Dt(d) => s.total((u, *d)),
            Ref::D(d) => s.total((u, *d)),
            Ref::None => s.total(u),
            Ref::H24 => s.total(jiff::SpanTotal::from(u).days_are_24_hours()),
        }
    });
    let (st, f) = match &res {
        Ok(Ok(x)) => ("ok", f64_parts(*x)),
        Ok(Err(_)) => ("err", f64_parts(0.0)),
        Err(_) => ("panic", f64_parts(0.0)),
    };
    json!({"op":"sp_total","cls":cls,"zi":1,"ref":r.json(),"span":jspan(&s),"unit":UNITS[ui].1,"res":{"st":st,"f":f}})
}

fn sp_cmp(r: &Ref, a: Span, b: Span, cls: &str) -> Value {
    let res = guard(|| {
        match r {
            Ref::Z(z) => a.compare((b, z)),
            Ref::Dt(d) => a.compare((b, *d)),
            Ref::D(d) => a.compare((b, *d)),
            Ref::None => a.compare(b),
            Ref::H24 => a.compare(jiff::SpanCompare::from(b).days_are_24_hours()),
        }
    });
    let (st, o) = match &res {
        Ok(Ok(x)) => ("ok", *x as i64),
        Ok(Err(_)) => ("err", 0),
        Err(_) => ("panic", 0),
    };
    json!({"op":"sp_cmp","cls":cls,"zi":1,"ref":r.json(),"a":jspan(&a),"b":jspan(&b),"res":{"st":st,"o":o}})
}

fn sp_add(r: &Ref, a: Span, b: Span, sub: bool, cls: &str) -> Value {
    let res = guard(|| match (r, sub) {
        (Ref::Z(z), false) => a.checked_add((b, z)),
        (Ref::Z(z), true) => a.checked_sub((b, z)),
        (Ref::Dt(d), false) => a.checked_add((b, *d)),
        (Ref::Dt(d), true) => a.checked_sub((b, *d)),
        (Ref::D(d), false) => a.checked_add((b, *d)),
        (Ref::D(d), true) => a.checked_sub((b, *d)),
        (Ref::None, false) => a.checked_add(b),
        (Ref::None, true) => a.checked_sub(b),
        (Ref::H24, false) => a.checked_add(jiff::SpanArithmetic::from(b).days_are_24_hours()),
        (Ref::H24, true) => a.checked_sub(jiff::SpanArithmetic::from(b).days_are_24_hours()),
    });
    let (st, out) = match &res {
        Ok(Ok(x)) => ("ok", *x),
        Ok(Err(_)) => ("err", Span::new()),
        Err(_) => ("panic", Span::new()),
    };
    json!({"op":"sp_add","cls":cls,"zi":1,"ref":r.json(),"a":jspan(&a),"b":jspan(&b),"sub": if sub {1} else {0},"res":{"st":st,"span":jspan(&out)}})
}

fn sp_dur(r: &Ref, s: Span, cls: &str) -> Value {
    let res = guard(|| match r {
        Ref::Z(z) => s.to_duration(z),
        Ref::Dt(d) => s.to_duration(*d),
        Ref::D(d) => s.to_duration(*d),
        Ref::None => SignedDuration::try_from(s),
        Ref::H24 => s.to_duration(jiff::SpanRelativeTo::days_are_24_hours()),
    });
    let (st, sec, ns) = match &res {
        Ok(Ok(d)) => ("ok", d.as_secs(), d.subsec_nanos()),
        Ok(Err(_)) => ("err", 0, 0),
        Err(_) => ("panic", 0, 0),
    };
    json!({"op":"sp_dur","cls":cls,"zi":1,"ref":r.json(),"span":jspan(&s),"res":{"st":st,"sec":big(sec as i128),"ns":ns}})
}

/// spans whose rounding meets month ends, DST days and unit overflow
fn c11_span(rng: &mut Rng, time_only: bool) -> Span {
    let mut u = [0i64; 10];
    let pick = |rng: &mut Rng, xs: &[i64]| xs[(rng.next() % xs.len() as u64) as usize];
    match rng.next() % 6 {
        0 => {
            u[4] = pick(rng, &[0, 1, 11, 12, 23, 24, 25, 47, 48]);
            u[5] = pick(rng, &[0, 1, 29, 30, 31, 59]);
            u[6] = pick(rng, &[0, 1, 29, 30, 59]);
            u[9] = pick(rng, &[0, 0, 1, 499_999_999, 500_000_000, 500_000_001, 999_999_999]);
        }
        1 if !time_only => {
            u[3] = pick(rng, &[0, 1, 2, 6, 7, 13, 14, 15, 27, 28, 29, 30, 31, 59, 365, 366]);
            u[4] = pick(rng, &[0, 1, 11, 12, 13, 23, 24, 25]);
            u[5] = pick(rng, &[0, 0, 30, 59]);
        }
        2 if !time_only => {
            u[0] = pick(rng, &[0, 0, 1, 2, 4, 100]);
            u[1] = pick(rng, &[0, 1, 5, 6, 7, 11, 12, 13, 18, 23, 24]);
            u[3] = pick(rng, &[0, 1, 14, 15, 16, 27, 28, 29, 30, 31]);
            u[4] = pick(rng, &[0, 0, 12]);
        }
        3 if !time_only => {
            u[2] = pick(rng, &[0, 1, 2, 3, 4, 5, 26, 52, 53]);
            u[3] = pick(rng, &[0, 1, 3, 4, 6, 7, 8]);
            u[4] = pick(rng, &[0, 0, 12, 36]);
        }
        4 => {
            u[7] = rng.range(0, 5000);
            u[8] = rng.range(0, 5000);
            u[9] = rng.range(0, 5000);
            u[6] = rng.range(0, 200);
        }
        _ => {
            let all: Vec<usize> = if time_only { (4..10).collect() } else { (0..10).collect() };
            return gen_span(rng, &all);
        }
    }
    mkspan(u, rng.chance(1, 2)).unwrap_or_default()
}

/// Pairs of instants on the two sides of a transition that sets the clock back: (after, before) with
/// after = T + x, before = T - y, x and y below the set-back, so that the later instant shows the
/// earlier clock time (and, when the set-back crosses midnight, the earlier civil date).
/// The offsets are read from jiff only to shape the inputs; nothing here judges a result.
fn fold_pairs(a: &Args, az: &AZone, tz: &TimeZone, rng: &mut Rng, max: usize) -> Vec<(Timestamp, Timestamp)> {
    let mut v = Vec::new();
    let mut plain = 0;
    let pts = crate::tzd::change_points(a, az, rng);
    for &(t, _) in pts.iter().rev() {
        let tn = t as i128 * 1_000_000_000;
        let (Some(t0), Some(t1)) = (mkts(tn - 1), mkts(tn)) else { continue };
        let d = (tz.to_offset(t0).seconds() - tz.to_offset(t1).seconds()) as i128 * 1_000_000_000;
        if d <= 0 {
            continue;
        }
        // set-backs whose repeated clock times include midnight are always taken, `max` of the others
        let (c0, c1) = (tz.to_datetime(t0), tz.to_datetime(t1));
        let (Some(e0), Some(e1)) = (mkts(tn - d), mkts(tn + d - 1)) else { continue };
        let over_midnight = c1.date() < c0.date() || tz.to_datetime(e0).date() < c0.date() || c1.date() < tz.to_datetime(e1).date();
        if !over_midnight {
            plain += 1;
            if plain > max {
                continue;
            }
        }
        for x in [0i128, 1, d / 3, d - 1] {
            for y in [1i128, 16_034_678_188i128.min(d - 1), d / 2, d - 1] {
                if let (Some(ta), Some(tb)) = (mkts(tn + x), mkts(tn - y)) {
                    v.push((ta, tb));
                }
            }
            // both after the transition, the first one a repeated clock time
            for w in [146_270_261_772i128.min(d / 2), d / 4] {
                if x >= w {
                    if let (Some(ta), Some(tb)) = (mkts(tn + x), mkts(tn + x - w)) {
                        v.push((ta, tb));
                    }
                }
            }
        }
        if v.len() > 4000 {
            break;
        }
    }
    v
}

fn c11_for_ref(out: &mut Out, rng: &mut Rng, r: &Ref, n: usize, cls: &str) {
    let time_only = matches!(r, Ref::None);
    let max_unit = match r {
        Ref::None => 5,
        Ref::H24 => 7,
        _ => 9,
    };
    for _ in 0..n {
        let s = c11_span(rng, time_only);
        // balancing: every largest unit, no rounding
        let li = (rng.next() % 10) as usize;
        out.emit(sp_round(r, s, 0, li, 1, 3, cls));
        // rounding
        for _ in 0..3 {
            let si = (rng.next() % (max_unit as u64 + 2)).min(9) as usize;
            let li = si + (rng.next() % (10 - si as u64)) as usize;
            let inc = match si {
                0..=2 => *rng.pick(&[1i64, 2, 5, 10, 100, 250, 500]),
                3 | 4 => *rng.pick(&[1i64, 2, 5, 10, 15, 20, 30]),
                5 => *rng.pick(&[1i64, 2, 3, 4, 6, 8, 12]),
                _ => *rng.pick(&[1i64, 1, 1, 2, 3, 5, 7, 10]),
            };
            out.emit(sp_round(r, s, si, li, inc, (rng.next() % 9) as usize, cls));
        }
        if rng.chance(1, 6) {
            // illegal requests
            let si = (rng.next() % 10) as usize;
            let li = (rng.next() % 10) as usize;
            out.emit(sp_round(r, s, si, li, *rng.pick(&[0i64, -1, 7, 24, 60, 1000, i64::MAX]), (rng.next() % 9) as usize, "legality"));
        }
        for _ in 0..2 {
            out.emit(sp_total(r, s, (rng.next() % 10) as usize, cls));
        }
        let t = c11_span(rng, time_only);
        out.emit(sp_cmp(r, s, t, cls));
        out.emit(sp_add(r, s, t, rng.chance(1, 2), cls));
        out.emit(sp_dur(r, s, cls));
        // a near-equal pair: the same distance through different units
        if let Some(d) = r.dist(&s) {
            if let Ok(ns) = i64::try_from(d) {
                if let Some(n) = mkspan([0, 0, 0, 0, 0, 0, 0, 0, 0, ns.unsigned_abs().min(i64::MAX as u64) as i64], ns < 0) {
                    out.emit(sp_cmp(r, s, n, "same-distance"));
                    let n1 = n.checked_add(Span::new().nanoseconds(1)).unwrap_or(n);
                    out.emit(sp_cmp(r, s, n1, "same-distance"));
                }
            }
        }
    }
}

fn z_text(tz: &TimeZone, ts: Timestamp, name: &str, cls: &str) -> Value {
    let z = Zoned::new(ts, tz.clone());
    let text = guard(|| z.to_string()).unwrap_or_default();
    let re = guard(|| text.parse::<Zoned>());
    let rename = match &re {
        Ok(Ok(r)) => {
            if r.time_zone().iana_name() == tz.iana_name() && (tz.iana_name().is_some() || r.time_zone() == tz) { 1 } else { 0 }
        }
        _ => 0,
    };
    json!({"op":"z_text","cls":cls,"zi":1,"z":zval(&z),"text":crate::text::codes(&text),"s":text,
           "name":crate::text::codes(name),"re":zres(&re),"rename":rename})
}

fn hash_of(z: &Zoned) -> u64 {
    let mut h = std::collections::hash_map::DefaultHasher::new();
    z.hash(&mut h);
    h.finish()
}

thread_local! {
    /// structured arguments of the operation just executed (set by the with-builders of the alphabet)
    static LAST_ARGS: std::cell::RefCell<Value> = std::cell::RefCell::new(Value::Null);
}
fn set_args(v: Value) {
    LAST_ARGS.with(|c| *c.borrow_mut() = v);
}

fn step_event(hid: u64, k: usize, name: &str, prev: &Zoned, pzi: i64, cur: &Result<Result<Zoned, jiff::Error>, String>, zi: i64, keep: bool) -> Value {
    let (eq, ord, heq) = match cur {
        Ok(Ok(c)) => {
            let r = guard(|| {
                (if c == prev { 1 } else { 0 }, match c.cmp(prev) {
                    std::cmp::Ordering::Less => -1,
                    std::cmp::Ordering::Equal => 0,
                    std::cmp::Ordering::Greater => 1,
                }, if hash_of(c) == hash_of(prev) { 1 } else { 0 })
            });
            r.unwrap_or((9, 9, 9))
        }
        _ => (0, 0, 0),
    };
    let args = LAST_ARGS.with(|c| c.replace(Value::Null));
    let args = if args.is_null() { json!({"kind":"none"}) } else { args };
    json!({"op":"z_step","cls": if keep {"zone-change"} else {"history-step"},"hid":hid,"k":k,"name":name,"zi":zi,"pzi":pzi,
           "prev":zval(prev),"cur":zres(cur),"eq":eq,"ord":ord,"heq":heq,"keep": if keep {1} else {0},"args":args})
}

/// one random operation on a Zoned; returns (name, result, stays in the same zone slot?, keeps instant?)
fn random_op(rng: &mut Rng, z: &Zoned, other: &TimeZone) -> (String, Result<Result<Zoned, jiff::Error>, String>, bool, bool) {
    let code = rng.next() % 20;
    op_by_code(code, rng, z, other)
}

/// One operation of the alphabet of spec/ZonedOps.tla; the magnitudes are drawn here.
/// Returns (name, result, stays in the same zone, must keep the instant).
fn op_by_code(code: u64, rng: &mut Rng, z: &Zoned, other: &TimeZone) -> (String, Result<Result<Zoned, jiff::Error>, String>, bool, bool) {
    let all: Vec<usize> = (0..10).collect();
    match code {
        16 => {
            let d = match rng.next() % 4 {
                0 => SignedDuration::new(rng.range(-200_000, 200_000), rng.range(0, 999_999_999) as i32 * if rng.chance(1, 2) { 1 } else { 0 }),
                1 => SignedDuration::from_hours(rng.range(-30, 30)),
                2 => SignedDuration::new(rng.range(-4_000_000_000, 4_000_000_000), 0),
                _ => *rng.pick(&[SignedDuration::MAX, SignedDuration::MIN, SignedDuration::ZERO, SignedDuration::new(0, 1), SignedDuration::new(0, -1)]),
            };
            let d = if d.as_secs() < 0 && d.subsec_nanos() > 0 { -d } else { d };
            (format!("checked_add({d:?})"), guard(|| z.checked_add(d)), true, false)
        }
        17 => {
            let s = gen_span(rng, &all);
            if rng.chance(1, 2) {
                (format!("saturating_add({s:?})"), guard(|| Ok(z.saturating_add(s))), true, false)
            } else {
                (format!("saturating_sub({s:?})"), guard(|| Ok(z.saturating_sub(s))), true, false)
            }
        }
        18 => {
            // re-resolve the civil time with an explicit offset: the zone's own, a shifted one, an extreme one
            let off = match rng.next() % 3 {
                0 => z.offset(),
                1 => jiff::tz::Offset::from_seconds((z.offset().seconds() + *rng.pick(&[3600i32, -3600, 1800, 1])).clamp(-93599, 93599)).unwrap(),
                _ => *rng.pick(&[jiff::tz::Offset::MIN, jiff::tz::Offset::MAX, jiff::tz::Offset::UTC]),
            };
            let oc = *rng.pick(&[jiff::tz::OffsetConflict::AlwaysTimeZone, jiff::tz::OffsetConflict::PreferOffset, jiff::tz::OffsetConflict::Reject, jiff::tz::OffsetConflict::AlwaysOffset]);
            set_args(json!({"kind":"off","off":off.seconds(),"oc": match oc {
                jiff::tz::OffsetConflict::AlwaysOffset => "always-offset",
                jiff::tz::OffsetConflict::AlwaysTimeZone => "always-tz",
                jiff::tz::OffsetConflict::PreferOffset => "prefer",
                _ => "reject",
            }}));
            (format!("with().offset({off}).offset_conflict({oc:?})"), guard(|| z.with().offset(off).offset_conflict(oc).build()), true, false)
        }
        19 => {
            let fmt = "%Y-%m-%dT%H:%M:%S%.f%:z[%Q]";
            ("strftime->strptime".into(), guard(|| jiff::fmt::strtime::format(fmt, z).and_then(|t| Zoned::strptime(fmt, t))), true, false)
        }
        _ => op_by_code_base(code, rng, z, other, &all),
    }
}

fn op_by_code_base(code: u64, rng: &mut Rng, z: &Zoned, other: &TimeZone, all: &[usize]) -> (String, Result<Result<Zoned, jiff::Error>, String>, bool, bool) {
    match code {
        0 => {
            let s = gen_span(rng, all);
            (format!("checked_add({s:?})"), guard(|| z.checked_add(s)), true, false)
        }
        1 => {
            let mut u = [0i64; 10];
            u[(rng.next() % 5) as usize] = rng.range(1, 13);
            let s = mkspan(u, rng.chance(1, 2)).unwrap();
            (format!("checked_add({s:?})"), guard(|| z.checked_add(s)), true, false)
        }
        2 => {
            let mut u = [0i64; 10];
            u[3] = rng.range(0, 2);
            u[4] = rng.range(0, 30);
            u[5] = rng.range(0, 90);
            let s = mkspan(u, rng.chance(1, 2)).unwrap();
            (format!("checked_sub({s:?})"), guard(|| z.checked_sub(s)), true, false)
        }
        3 => {
            set_args(json!({"kind":"sod"}));
            ("start_of_day".into(), guard(|| z.start_of_day()), true, false)
        }
        4 => ("end_of_day".into(), guard(|| z.end_of_day()), true, false),
        5 => {
            set_args(json!({"kind":"day","n":1}));
            ("tomorrow".into(), guard(|| z.tomorrow()), true, false)
        }
        6 => {
            set_args(json!({"kind":"day","n":-1}));
            ("yesterday".into(), guard(|| z.yesterday()), true, false)
        }
        7 => {
            set_args(json!({"kind":"fom"}));
            ("first_of_month".into(), guard(|| z.first_of_month()), true, false)
        }
        8 => {
            set_args(json!({"kind":"lom"}));
            ("last_of_month".into(), guard(|| z.last_of_month()), true, false)
        }
        9 => {
            let ui = (rng.next() % 7) as usize;
            let k = if ui == 6 { 1 } else { *rng.pick(&[1i64, 2, 5, 10, 15, 30]) };
            let mi = (rng.next() % 9) as usize;
            (format!("round({},{k},{})", UNITS[ui].1, MODES[mi].1),
             guard(|| z.round(jiff::ZonedRound::new().smallest(UNITS[ui].0).increment(k).mode(MODES[mi].0))), true, false)
        }
        10 => {
            let h = rng.range(0, 23) as i8;
            let mi = rng.range(0, 59) as i8;
            set_args(json!({"kind":"hm","h":h,"mi":mi}));
            (format!("with().hour({h}).minute({mi})"), guard(|| z.with().hour(h).minute(mi).build()), true, false)
        }
        11 => {
            let d = rng.range(1, 28) as i8;
            let m = rng.range(1, 12) as i8;
            set_args(json!({"kind":"md","m":m,"d":d}));
            (format!("with().month({m}).day({d})"), guard(|| z.with().month(m).day(d).build()), true, false)
        }
        12 => {
            let nth = *rng.pick(&[1i32, 2, -1, -2, 5]);
            let wd = wd_from(rng.range(1, 7));
            (format!("nth_weekday({nth},{wd:?})"), guard(|| z.nth_weekday(nth, wd)), true, false)
        }
        13 => {
            // print -> parse (RFC 9557) ; zones without IANA name are skipped by the caller
            // the Zulu form: the instant in UTC with the zone annotated (the offset of the text is not the
            // zone's); a zone without a name prints as its offset, which parses to a different zone: the
            // callers skip the round trip then
            if let (Some(n), true) = (z.time_zone().iana_name(), rng.chance(1, 3)) {
                let text = format!("{}[{}]", z.timestamp(), n);
                ("zulu text->parse".into(), guard(|| text.parse::<Zoned>()), true, true)
            } else {
                ("display->parse".into(), guard(|| z.to_string().parse::<Zoned>()), true, false)
            }
        }
        14 => {
            set_args(json!({"kind":"rez"}));
            ("datetime().to_zoned(tz)".into(), guard(|| z.datetime().to_zoned(z.time_zone().clone())), true, false)
        }
        _ => ("with_time_zone(other)".into(), guard(|| Ok(z.with_time_zone(other.clone()))), false, true),
    }
}

/// Tags an event with "nye": 1 when one of the instants it carries (every object with a BigInt "sec") lies
/// within 45 days of a UTC new year. Only used to identify the inputs of known finding D8 (POSIX rules whose
/// transitions leave their own UTC year go wrong around the new year, and only there).
fn mark_nye(ev: &mut Value) {
    fn scan(v: &Value, hit: &mut bool) {
        match v {
            Value::Object(m) => {
                if let (Some(sec), Some(_)) = (m.get("sec"), m.get("ns")) {
                    if let (Some(limbs), Some(sign)) = (sec.get("m").and_then(|x| x.as_array()), sec.get("s").and_then(|x| x.as_i64())) {
                        let mut n: i128 = 0;
                        for l in limbs.iter().rev() {
                            n = n * 10_000 + l.as_i64().unwrap_or(0) as i128;
                        }
                        let n = (n * sign as i128) as i64;
                        let days = n.div_euclid(86_400);
                        // day of year via the civil-from-days algorithm (input tagging only)
                        let z = days + 719_468;
                        let era = z.div_euclid(146_097);
                        let doe = z - era * 146_097;
                        let yoe = (doe - doe / 1460 + doe / 36_524 - doe / 146_096) / 365;
                        let doy_mar = doe - (365 * yoe + yoe / 4 - yoe / 100); // days since March 1
                        // Jan 1 is day 306 of the March-based year
                        let d = (doy_mar - 306).rem_euclid(365);
                        if d <= 45 || d >= 320 {
                            *hit = true;
                        }
                    }
                }
                for x in m.values() {
                    scan(x, hit);
                }
            }
            Value::Array(a) => a.iter().for_each(|x| scan(x, hit)),
            _ => {}
        }
    }
    let mut hit = false;
    scan(ev, &mut hit);
    if let Value::Object(m) = ev {
        m.insert("nye".into(), json!(if hit { 1 } else { 0 }));
    }
}

pub fn run_zoned(a: &Args, which: &str) {
    let stem = which.to_string();
    let mut out = Out::new(&a.out, &stem, 40_000);
    out.post = Some(mark_nye);
    let mut rng = Rng::new(a.seed, 6);
    // printing/parsing is cheap and every fold matters: the text driver takes every zone in both tiers
    let zs = zones(a, &mut rng, which == "c09z");
    let loaded: Vec<(AZone, TimeZone, &ZoneSrc)> = zs
        .iter()
        .filter_map(|z| Some((tzcorpus::load(z).ok()?, jiff_zone(z).ok()?, z)))
        .collect();
    let all: Vec<usize> = (0..10).collect();
    let quick = a.quick();
    for (zi, (az, tz, src)) in loaded.iter().enumerate() {
        out.soft_cut(9_000);
        // second zone for zone changes
        let (az2, tz2, src2) = &loaded[(zi * 7 + 3) % loaded.len()];
        out.set_header(vec![zone_slot(az, &src.class, 1), zone_slot(az2, &src2.class, 2)]);
        let insts = instants(a, az, &mut rng, if quick && which != "c09z" { 36 } else if quick { 120 } else { 400 });
        match which {
            "c06" => {
                for &(ts, cls) in &insts {
                    for k in 0..(if quick { 6 } else { 20 }) {
                        let s = match k % 3 {
                            0 => {
                                let mut u = [0i64; 10];
                                u[(rng.next() % 10) as usize] = *rng.pick(&[1i64, 2, 12, 13, 23, 24, 25, 31, 366]);
                                u[(rng.next() % 10) as usize] = *rng.pick(&[1i64, 2, 12, 13, 23, 24, 25, 31]);
                                mkspan(u, rng.chance(1, 2)).unwrap()
                            }
                            1 => {
                                let mut u = [0i64; 10];
                                u[3] = rng.range(0, 3);
                                u[4] = rng.range(0, 50);
                                u[5] = rng.range(0, 120);
                                mkspan(u, rng.chance(1, 2)).unwrap()
                            }
                            _ => gen_span(&mut rng, &all),
                        };
                        out.emit(z_add(tz, ts, s, cls));
                    }
                    for d in [SignedDuration::from_hours(23), SignedDuration::from_hours(-25), SignedDuration::new(1, 1),
                              SignedDuration::new(-3600, -1), SignedDuration::from_hours(24), SignedDuration::MAX, SignedDuration::MIN,
                              SignedDuration::new(rng.range(-100_000_000, 100_000_000), 0)] {
                        out.emit(z_dur(tz, ts, d, cls));
                    }
                    out.emit(z_day(tz, ts, cls));
                }
                // calendar arithmetic that lands on a repeated or a skipped clock time: start from the clock time of
                // an instant just after / just before a transition, a day, a week, a month or a year away
                let pts = change_points(a, az, &mut rng);
                let take = if quick { 6 } else { 40 };
                for &(t, _) in pts.iter().rev().take(take) {
                    for dx in [0i128, 1_000_000_000, 1_500_000_000_000, -1_000_000_000, -1_500_000_000_000] {
                        let Some(near) = mkts(t as i128 * 1_000_000_000 + dx) else { continue };
                        let target = Zoned::new(near, tz.clone()).datetime();
                        for (ui, n) in [(3usize, 1i64), (3, -1), (2, 1), (1, -1), (0, 1), (1, 12)] {
                            let mut u = [0i64; 10];
                            u[ui] = n.abs();
                            let Some(back) = mkspan(u, n > 0) else { continue };   // the opposite direction
                            let Some(fwd) = mkspan(u, n < 0) else { continue };
                            // the start is the civil time `target` moved away by the span; resolved any way jiff likes
                            let Ok(start_dt) = target.checked_add(back) else { continue };
                            if start_dt.checked_add(fwd).ok() != Some(target) {
                                continue; // month-end clamping: the way back does not land on the target
                            }
                            let Ok(start) = start_dt.to_zoned(tz.clone()) else { continue };
                            out.emit(z_add(tz, start.timestamp(), fwd, "lands-on-transition"));
                        }
                    }
                }
            }
            "c07z" => {
                for (i, &(ta, cls)) in insts.iter().enumerate() {
                    for j in 0..(if quick { 4 } else { 12 }) {
                        let tb = match j % 4 {
                            0 => insts[(i * 5 + j + 1) % insts.len()].0,
                            1 => mkts(ta.as_nanosecond() + rng.range128(-3 * 86_400_000_000_000, 3 * 86_400_000_000_000)).unwrap_or(ta),
                            2 => mkts(ta.as_nanosecond() + rng.range(-60, 60) as i128 * 86_400_000_000_000).unwrap_or(ta),
                            _ => mkts(ta.as_nanosecond() + rng.range128(-400 * 86_400_000_000_000, 400 * 86_400_000_000_000)).unwrap_or(ta),
                        };
                        for ui in [6usize, 7 + (rng.next() % 3) as usize, (rng.next() % 6) as usize] {
                            out.emit(z_until(tz, ta, tb, ui, cls));
                        }
                    }
                }
                for (ta, tb) in fold_pairs(a, az, tz, &mut rng, if quick { 3 } else { 20 }) {
                    for ui in [6usize, 9, 5] {
                        out.emit(z_until(tz, ta, tb, ui, "fold-pair"));
                        out.emit(z_until(tz, tb, ta, ui, "fold-pair"));
                    }
                }
            }
            "c09z" => {
                // only zones the global database knows under this name (the re-parse looks the name up)
                let known = jiff::tz::db().get(&src.name).map(|t| &t == tz).unwrap_or(false);
                if !known {
                    continue;
                }
                let mut more: Vec<(Timestamp, &'static str)> = insts.clone();
                // the first local time type (LMT, often a sub-minute offset) and both sides of every fold
                if let Some(&(t0, _)) = az.trans.first() {
                    for k in 1..6 {
                        if let Some(ts) = mkts((t0 as i128 - k * 86_400 * 300) * 1_000_000_000 + 987_654_321) {
                            more.push((ts, "lmt-period"));
                        }
                    }
                }
                for w in az.trans.windows(2) {
                    let (t, ty) = w[1];
                    let before = az.types[w[0].1].off;
                    let after = az.types[ty].off;
                    if after < before && (before % 60 != 0 || after % 60 != 0 || rng.chance(1, 6)) {
                        // a fold: instants in both occurrences of the repeated wall-clock span
                        let span = (before - after) as i128;
                        for d in [-span + 1, -span / 2, -1, 0, span / 2, span - 1] {
                            if let Some(ts) = mkts((t as i128 + d) * 1_000_000_000) {
                                more.push((ts, if before % 60 != 0 || after % 60 != 0 { "fold-sub-minute" } else { "fold" }));
                            }
                        }
                    }
                }
                for &(ts, cls) in &more {
                    out.emit(z_text(tz, ts, &src.name, cls));
                }
            }
            "c11" => {
                if zi == 0 {
                    // references that need no zone: none, the 24-hour marker, civil datetimes and dates
                    let n = if quick { 600 } else { 12_000 };
                    c11_for_ref(&mut out, &mut rng, &Ref::None, n, "no-reference");
                    c11_for_ref(&mut out, &mut rng, &Ref::H24, n, "days-are-24h");
                    for (y, m, d, h) in [(2024i16, 1i8, 31i8, 0i8), (2024, 2, 29, 12), (2023, 2, 28, 23), (2024, 12, 31, 1), (1970, 1, 1, 0), (-9999, 1, 1, 0), (9999, 12, 31, 23), (2024, 3, 31, 6), (2021, 8, 31, 0)] {
                        let dt = jiff::civil::date(y, m, d).at(h, 30, 0, 500_000_000);
                        c11_for_ref(&mut out, &mut rng, &Ref::Dt(dt), n / 6, "civil-datetime");
                        c11_for_ref(&mut out, &mut rng, &Ref::D(dt.date()), n / 12, "civil-date");
                    }
                    // pinned cases: the inputs of the C11 findings (KNOWN_FINDINGS.txt D36, D38, D40, D44)
                    {
                        let d31 = jiff::civil::date(2024, 1, 31).at(0, 30, 0, 500_000_000);
                        let d28 = jiff::civil::date(2023, 2, 28).at(23, 30, 0, 500_000_000);
                        let d21 = jiff::civil::date(2021, 8, 31).at(0, 30, 0, 0);
                        let sp = |u: [i64; 10], neg: bool| mkspan(u, neg).unwrap();
                        for (mi, _) in MODES.iter().enumerate() {
                            out.emit(sp_round(&Ref::Dt(d31), sp([0, 0, 0, 29, 23, 59, 0, 0, 0, 0], false), 4, 9, 15, mi, "pinned"));
                            out.emit(sp_round(&Ref::Dt(d31), sp([0, 0, 0, 29, 23, 59, 0, 0, 0, 0], false), 5, 8, 1, mi, "pinned"));
                            out.emit(sp_round(&Ref::Dt(d28), sp([0, 0, 0, 6, 23, 0, 0, 0, 0, 0], false), 6, 7, 1, mi, "pinned"));
                            out.emit(sp_round(&Ref::D(d31.date()), sp([0, 12, 0, 0, 0, 0, 0, 0, 0, 0], false), 8, 9, 12, mi, "pinned"));
                            out.emit(sp_round(&Ref::Dt(d21), sp([1648, 0, 0, 0, 0, 0, 0, 0, 0, 1], true), 9, 9, 1, mi, "pinned"));
                            out.emit(sp_round(&Ref::Dt(d28), sp([0, 0, 0, 0, 36, 0, 0, 0, 0, 0], true), 6, 6, 1, mi, "pinned"));
                        }
                    }
                    // that block fills several shards: the zone's own events start a new one, behind their zone events
                    out.cut();
                    out.set_header(vec![zone_slot(az, &src.class, 1), zone_slot(az2, &src2.class, 2)]);
                }
                for &(ts, cls) in &insts {
                    let zr = Ref::Z(Zoned::new(ts, tz.clone()));
                    c11_for_ref(&mut out, &mut rng, &zr, if quick { 3 } else { 4 }, cls);
                    // a time part that rounds up to (or past) the length of its day, on days that a transition
                    // made longer or shorter: the part beyond the day has to be rounded again from the next day
                    if cls == "near-transition" {
                        for (d, h, mi) in [(0i64, 23i64, 40i64), (0, 24, 20), (1, 23, 50), (0, 22, 45)] {
                            for neg in [false, true] {
                                let mut u = [0i64; 10];
                                u[3] = d;
                                u[4] = h;
                                u[5] = mi;
                                let s = mkspan(u, neg).unwrap();
                                for (inc, mi) in [(1i64, 2usize), (1, 6), (2, 0)] {
                                    out.emit(sp_round(&zr, s, 5, 6, inc, mi, "day-length"));
                                }
                            }
                        }
                    }
                }
                // a time-only span that crosses a set-back of the clock: reference and end show clock times
                // (and sometimes civil dates) ordered against the instants
                for (ta, tb) in fold_pairs(a, az, tz, &mut rng, if quick { 2 } else { 12 }) {
                    let ns = (tb.as_nanosecond() - ta.as_nanosecond()) as i64;
                    for (r, n) in [(ta, ns), (tb, -ns)] {
                        let zr = Ref::Z(Zoned::new(r, tz.clone()));
                        let Some(s) = mkspan([0, 0, 0, 0, 0, 0, 0, 0, 0, n.abs()], n < 0) else { continue };
                        out.emit(sp_round(&zr, s, 0, 9, 1, 3, "fold-pair"));
                        out.emit(sp_round(&zr, s, 5, 6, 1, (rng.next() % 9) as usize, "fold-pair"));
                        out.emit(sp_total(&zr, s, 6, "fold-pair"));
                        out.emit(sp_total(&zr, s, 9, "fold-pair"));
                        out.emit(sp_dur(&zr, s, "fold-pair"));
                    }
                }
            }
            "c10z" => {
                for &(ts, cls) in &insts {
                    for mi in 0..9 {
                        out.emit(z_round(tz, ts, 6, 1, mi, cls));
                    }
                    for _ in 0..(if quick { 8 } else { 30 }) {
                        let ui = (rng.next() % 6) as usize;
                        let k = match ui {
                            0..=2 => *rng.pick(&[1i64, 2, 5, 100, 250, 500]),
                            3 | 4 => *rng.pick(&[1i64, 5, 10, 15, 20, 30]),
                            _ => *rng.pick(&[1i64, 2, 3, 4, 6, 8, 12]),
                        };
                        out.emit(z_round(tz, ts, ui, k, (rng.next() % 9) as usize, cls));
                    }
                    out.emit(z_round(tz, ts, (rng.next() % 10) as usize, *rng.pick(&[0i64, -1, 7, 24, 60, 2]), 0, "increment-legality"));
                }
            }
            _ => {
                // c13: operation histories.  First the TLC-generated ones (spec/ZonedOps.tla): every history of
                // the alphabet up to the model's bound, each from instants around this zone's transitions
                if let Some(pf) = a.opt("plans") {
                    let plans: Vec<Vec<u64>> = serde_json::from_str::<Value>(&std::fs::read_to_string(pf).unwrap()).unwrap().as_array().unwrap().iter()
                        .map(|p| p.as_array().unwrap().iter().map(|x| x.as_u64().unwrap()).collect()).collect();
                    let per_zone = if quick { 40 } else { 2400 };
                    for j in 0..per_zone.min(plans.len()) {
                        // every zone gets a different slice of the plans; all zones together cover all of them several times
                        let plan = &plans[(zi * per_zone + j) % plans.len()];
                        let (ts, _) = insts[(j * 5 + zi) % insts.len()];
                        let mut cur = Zoned::new(ts, tz.clone());
                        let mut slot = 1i64;
                        let hid = (1u64 << 40) | (zi as u64) << 20 | j as u64;
                        out.emit(step_event(hid, 0, "Zoned::new", &cur.clone(), 1, &Ok(Ok(cur.clone())), 1, false));
                        for (k, &code) in plan.iter().enumerate() {
                            let other = if slot == 1 { tz2 } else { tz };
                            if (code == 13 || code == 19) && cur.time_zone().iana_name().is_none() {
                                continue;
                            }
                            let (name, res, same_zone, keep) = op_by_code(code, &mut rng, &cur, other);
                            let nslot = if same_zone { slot } else { 3 - slot };
                            out.emit(step_event(hid, k + 1, &name, &cur, slot, &res, nslot, keep));
                            if let Ok(Ok(n)) = res {
                                cur = n;
                                slot = nslot;
                            }
                        }
                    }
                }
                let nh = if quick { 14 } else { 200 };
                for h in 0..nh {
                    let (ts, _) = insts[(h * 3) % insts.len()];
                    let mut cur = Zoned::new(ts, tz.clone());
                    let mut slot = 1i64;
                    let hid = (zi as u64) << 16 | h as u64;
                    out.emit(step_event(hid, 0, "Zoned::new", &cur.clone(), 1, &Ok(Ok(cur.clone())), 1, false));
                    for k in 1..=(if quick { 8 } else { 12 }) {
                        let other = if slot == 1 { tz2 } else { tz };
                        let (name, res, same_zone, keep) = random_op(&mut rng, &cur, other);
                        if (name == "display->parse" || name == "strftime->strptime") && cur.time_zone().iana_name().is_none() {
                            continue;
                        }
                        let nslot = if same_zone { slot } else { 3 - slot };
                        out.emit(step_event(hid, k, &name, &cur, slot, &res, nslot, keep));
                        if let Ok(Ok(n)) = res {
                            cur = n;
                            slot = nslot;
                        }
                    }
                }
            }
        }
    }
    out.finish();
}
