#!/usr/bin/env python3
"""Writes seeded/<id>/meta.json from the table below plus the latest
seedverify / seedtest outcomes found under /tmp/sv and /tmp (when present)."""
import json
import os

VERIF = os.path.dirname(os.path.dirname(os.path.abspath(__file__)))
T = {
    "C01-iso-max-friday": ("C01", "a date in the last ISO week of year 9999 (the week that would run into year 10000)", ["C01"]),
    "C02-negoffset-fastpath": ("C02", "a negative UTC offset applied to an instant within a day before the Unix epoch", ["C02"]),
    "C03-fatten-type-ignores-abbrev": ("C03", "slim TZif data whose footer-generated local time types differ from an explicit one only in the abbreviation (tz-fat on)", ["C03"]),
    "C04-fold-start-trunc-div": ("C04", "a fold before the epoch whose offsets are not whole minutes", ["C04", "C13"]),
    "C05-from-itimestamp-below-min": ("C05", "an internal instant below Timestamp::MIN, reached only without debug assertions", ["C02", "C05"]),
    "C06-fold-fastpath": ("C06", "Zoned + span whose civil result lies in a fold", ["C06"]),
    "C07-stale-years-month-step": ("C07", "until() with years or months as the largest unit across a month-end clamp", ["C07"]),
    "C08-feb-clamp-wrong-year": ("C08", "adding years and months from Feb 29 (or to February) where the target year differs in leapness", ["C08"]),
    "C09-offset-minute-carry-60": ("C09", "a zone offset whose seconds round the minutes up to 60", ["C09"]),
    "C10-sd-round-split-trunc": ("C10", "rounding a negative SignedDuration with a fractional second", ["C10"]),
    "C11-zoned-overshoot-noreround": ("C11", "span rounding relative to a zoned datetime on a day whose length is no multiple of the increment (Lord Howe, 30-minute DST)", ["C11"]),
    "C12-div-rem": ("C12", "SignedDuration::checked_div with a divisor that leaves a remainder in the seconds", ["C12"]),
    "C13-posix-midnight-gap": ("C13", "a POSIX time zone whose DST gap starts at local midnight", ["C04", "C13"]),
    "C14-posix-prev-info-at-query": ("C14", "TimeZone::preceding inside the POSIX rule era", ["C14"]),
    "C15-fractional-drops-seconds": ("C15", "friendly printer with a fractional unit above seconds and a non-zero seconds field", ["C15"]),
    "C16-offset-sign-zero-hour": ("C16", "strftime %z / %:z for an offset between -00:00:01 and -00:59:59", ["C16"]),
    "C17-century-unwrap": ("C17", "strptime %C with an explicit width of three or more and a three-digit century", ["C17"]),
    "C18-casefold-underscore": ("C18", "a zoneinfo / concatenated database holding the full set of names (names with '_'), looked up in another letter case", ["C18"]),
    "C19-stale-index-toctou": ("C19", "a zone file removed or replaced between the directory walk and the load, within one cache epoch", ["C19"]),
    "C20-posix-drop-increments": ("C20", "dropping the last handle of a POSIX-string-backed TimeZone", ["C20"]),
    # ---- second round (each sub-agent was told which idea the first round had used, to pick another) ----
    "C01-nth-weekday-day0": ("C01", "nth_weekday_of_month(-5, wd) for the one weekday per month whose fifth-from-last occurrence would be day 0", ["C01", "C05"]),
    "C02-negoffset-midnight-borrow": ("C02", "a pre-1970 instant with a fraction, a western offset, whole second exactly on local midnight", ["C02"]),
    "C03-posix-prefrac-ceil": ("C03", "a POSIX-rule zone, an instant within one second before a pre-1970 transition, with a non-zero fraction", ["C03"]),
    "C04-posix-after-2037": ("C04", "civil times from 2038 on in zones whose TZif data has explicit transitions past 2037 (Casablanca, El_Aaiun, Gaza, Hebron)", ["C04"]),
    "C05-nth-weekday-day0-is-negative": ("C05", "nth_weekday_of_month(-5, wd) computing day 0: panic with debug assertions, an invalid Date without", ["C05", "C01"]),
    "C06-gap-direction-of-travel": ("C06", "Zoned minus calendar units landing inside a gap", ["C06"]),
    "C07-since-flipped-until": ("C07", "Zoned::since with months or years as largest unit across a month-end", ["C07"]),
    "C08-negfrac-fastpath": ("C08", "DateTime + negative SignedDuration with a fraction when the datetime's own sub-second is zero", ["C08"]),
    "C09-fold-exact-offset": ("C09", "a zoned datetime on the earlier side of a fold whose pre-transition offset has seconds (New York 1883)", ["C09"]),
    "C10-zoned-round-epoch": ("C10", "Zoned::round to seconds or smaller in a zone with an odd-second offset, or before 1970", ["C10"]),
    "C11-total-week-div7": ("C11", "Span::total(Week) relative to a zoned datetime when the last partial week holds a 23/25-hour day", ["C11"]),
    "C12-std-duration-neg-subsec": ("C12", "std::time::Duration::try_from of a negative SignedDuration shorter than one second", ["C12"]),
    "C13-compatible-fastpath-alwaysoffset": ("C13", "OffsetConflict::AlwaysOffset with an offset the zone does not assign (or parsing 'Z[Zone]')", ["C13"]),
    "C14-next-transition-handoff": ("C14", "following() from before the last recorded transition of a zone whose rule has no DST (Sao_Paulo, Tokyo)", ["C14"]),
    "C15-hms-sign-calendar-only": ("C15", "friendly HH:MM:SS mode, a negative span with calendar units only", ["C15"]),
    "C16-week-sun-nth-weekday": ("C16", "strptime %U with a weekday in a year that starts on a Sunday", ["C16"]),
    "C17-tzif-type-index-bound": ("C17", "TZif data whose transition type index equals the number of local time types", ["C17"]),
    "C18-fatten-ignores-dst-flag": ("C18", "slim TZif with two local time types equal in offset and abbreviation but not in the DST flag (Auckland, Dublin), tz-fat on", ["C18", "C03"]),
    "C19-expiration-before-revalidate": ("C19", "a cached zone whose file disappears after its TTL: the second lookup serves the stale entry", ["C19"]),
    "C20-unknown-eq-utc-asymmetric": ("C20", "comparing an Etc/Unknown handle with a UTC handle in both orders", ["C20"]),
    # ---- third round: the change had to be outside the property's anchored files (shared / utility code) ----
    "C02-rangeint-try-new128-halfopen": ("C02", "Timestamp::from_nanosecond / from_microsecond / from_millisecond at the type's maximum (src/util/rangeint.rs)", ["C02"]),
    "C06-span-fractional-mask": ("C06", "Zoned with zero sub-second + span whose only sub-second unit is milliseconds (src/span.rs)", ["C06"]),
    "C08-as-hours-floor": ("C08", "Date + negative duration whose magnitude modulo 24h is between 23h and 24h (src/signed_duration.rs)", ["C08"]),
    "C09-itime-add-seconds-trunc": ("C09", "second pass of a fold that ends DST at local midnight, in the POSIX-rule era (src/shared/util/itime.rs)", ["C09", "C04"]),
    "C10-micros-per-day-const": ("C10", "Timestamp::round to microseconds with an increment dividing a day but not 86,400,000 (src/util/t.rs)", ["C10"]),
    "C16-day-of-year-table": ("C16", "%j / %U / %W for November of a leap year (src/civil/date.rs)", ["C16", "C01"]),
    # ---- fourth round: told to avoid every earlier idea for the property and to stay in a narrow corner ----
    "C06-last-transition-fixed-offset": ("C06", "negative calendar arithmetic from after a zone's last transition to before it (Moscow, Tokyo)", ["C06", "C13"]),
    "C12-mul-micros-wrong-limit": ("C12", "Span::checked_mul with non-zero microseconds and a factor above the millisecond limit whose product still fits", ["C12"]),
    "C13-subsec-round-keeps-offset": ("C13", "Zoned::round to a sub-second unit carrying into the exact second of a transition", ["C13", "C10"]),
    "C20-fixed-subminute-is-utc": ("C20", "TimeZone::fixed with an offset of 1..59 seconds", ["C20"]),
}
for sid, (pid, needs, caught) in T.items():
    d = os.path.join(VERIF, "seeded", sid)
    if not os.path.isdir(d):
        continue
    ver = {}
    rp = f"/tmp/sv/{sid}.result.json"
    if os.path.exists(rp):
        try:
            ver = json.load(open(rp))
        except Exception:
            ver = {}
    tests = {}
    for c in caught:
        lp = f"/tmp/seedtest.{sid}.{c}.log"
        if os.path.exists(lp):
            txt = open(lp).read()
            tests[c] = {"violation_lines": txt.count("\nVIOLATION") + (1 if txt.startswith("VIOLATION") else 0),
                        "first": next((l for l in txt.splitlines() if l.startswith("VIOLATION")), "")[:200]}
    old = {}
    mp = os.path.join(d, "meta.json")
    if os.path.exists(mp):
        old = json.load(open(mp))
    meta = {
        "seed": sid,
        "property": pid,
        "origin": "fresh sub-agent given only the property text and a scratch git worktree of /repo; nothing from /verif",
        "what_it_needs_to_manifest": needs,
        "files": {"patch": "patch.diff", "demonstration": "demo/ (cargo project: exits non-zero with the patch, zero without)"},
        "confirmed_by": "lib/seedverify.sh in a fresh worktree of /repo HEAD: patch applies, cargo nextest run --workspace passes, demo fails with it and passes without",
        "seedverify": ver or old.get("seedverify", {}),
        "expected_to_be_caught_by": caught,
        "seedtest": tests or old.get("seedtest", {}),
        "how_to_test": f"bash lib/seedtest.sh {sid} {' '.join(caught)}   # git -C /repo apply; ./check ... --tier quick; git -C /repo checkout"
                       f"   (or bash lib/labtest.sh ... in the scratch laboratory, /repo untouched)",
    }
    json.dump(meta, open(mp, "w"), indent=1)
print("meta written for", len(T))
