#!/usr/bin/env python3
"""Binding demonstration: validate an (edited) NDJSON trace file directly against a trace spec,
without re-running the code.  usage: corrupt.py <Trace_X.tla> <file.ndjson> ; prints mismatch count."""
import sys, os
sys.path.insert(0, os.path.dirname(os.path.abspath(__file__)))
import vlib
tla, f = sys.argv[1], os.path.abspath(sys.argv[2])
res, mism = vlib.tlc_trace(tla, [f], "corrupt")
print("events", sum(r.get("events", 0) if isinstance(r, dict) else 0 for r in res), "mismatches", len(mism))
for m in mism[:5]:
    print("  ", m[1], m[2])
