#!/usr/bin/env python3
"""Self-check of the RFC 2822 reader of Strtime.tla (C16) against Python's email.utils:
events (op rfc_m) whose decoded value comes from email.utils.parsedate_to_datetime, to be validated
by Trace_Strtime.tla exactly like events from jiff.  Only plain, valid texts: optional (correct)
weekday, day of one or two digits, month name, four-digit year 1900..9990, HH:MM[:SS], and a zone
+-hhmm (not -0000) or one of the obsolete names of RFC 2822 section 4.3."""
import datetime
import email.utils
import json
import random
import sys

WD = ["Mon", "Tue", "Wed", "Thu", "Fri", "Sat", "Sun"]
MON = ["Jan", "Feb", "Mar", "Apr", "May", "Jun", "Jul", "Aug", "Sep", "Oct", "Nov", "Dec"]
NAMED = {"UT": 0, "GMT": 0, "EST": -5, "EDT": -4, "CST": -6, "CDT": -5, "MST": -7, "MDT": -6, "PST": -8, "PDT": -7}


def events(n, seed):
    rnd = random.Random(seed)
    out = []
    for i in range(n):
        y = rnd.choice([1900, 1969, 1970, 1999, 2000, 2024, 2038, 9990]) if i % 5 == 0 else rnd.randint(1900, 9990)
        mo = rnd.randint(1, 12)
        dim = [31, 29 if (y % 4 == 0 and y % 100 != 0) or y % 400 == 0 else 28, 31, 30, 31, 30, 31, 31, 30, 31, 30, 31][mo - 1]
        d = rnd.choice([1, dim, rnd.randint(1, dim)])
        H, M, S = rnd.randint(0, 23), rnd.randint(0, 59), rnd.randint(0, 59)
        date = datetime.date(y, mo, d)
        text = ""
        if rnd.random() < 0.6:
            text += WD[date.weekday()] + ", "
        text += (f"{d:02d}" if rnd.random() < 0.5 else str(d)) + " " + MON[mo - 1] + f" {y:04d} {H:02d}:{M:02d}"
        has_sec = rnd.random() < 0.7
        if has_sec:
            text += f":{S:02d}"
        if rnd.random() < 0.2:
            name = rnd.choice(sorted(NAMED))
            text += " " + name
        else:
            o = rnd.choice([0, 30, 60, 330, 345, 720, 840, rnd.randint(0, 99 * 60 + 59)])
            sign = rnd.choice(["+", "-"])
            if sign == "-" and o == 0:
                sign = "+"
            text += f" {sign}{o // 60:02d}{o % 60:02d}"
        try:
            dt = email.utils.parsedate_to_datetime(text)
        except (TypeError, ValueError):
            continue
        if dt.tzinfo is None:
            continue
        off = int(dt.utcoffset().total_seconds())
        try:
            u = dt.astimezone(datetime.timezone.utc)
        except OverflowError:
            continue
        re = [dt.year, dt.month, dt.day, dt.hour, dt.minute, dt.second, 0, off]
        rets = [u.year, u.month, u.day, u.hour, u.minute, u.second, 0]
        out.append({"op": "rfc_m", "cls": "python-oracle", "text": [ord(c) for c in text], "s": text, "re": re, "rets": rets})
    return out


if __name__ == "__main__":
    path, n, seed = sys.argv[1], int(sys.argv[2]), int(sys.argv[3])
    with open(path, "w") as f:
        for e in events(n, seed):
            f.write(json.dumps(e, separators=(",", ":")) + "\n")
