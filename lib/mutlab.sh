#!/bin/bash
# mutlab.sh setup | apply <patch> | reset | run <Cxx> [args] | destroy
# A scratch laboratory for testing the checks against changed code without touching /repo:
# /tmp/mutlab/repo is a copy of /repo's working tree (with .git), /tmp/mutlab/verif a copy of /verif whose
# harness depends on that copy. Remove it (destroy) when done.
L=${LAB:-/tmp/mutlab}
case "$1" in
  setup)
    rm -rf $L; mkdir -p $L
    rsync -a --exclude target /repo/ $L/repo/
    rsync -a --exclude work --exclude 'target*' --exclude evidence --exclude .git /verif/ $L/verif/
    sed -i "s#\"/repo#\"$L/repo#g" $L/verif/harness/Cargo.toml $L/verif/harness/src/main.rs $L/verif/lib/props.py
    cp $L/repo/Cargo.lock $L/verif/harness/Cargo.lock 2>/dev/null
    ;;
  sync)   # refresh the verif copy only
    rsync -a --exclude work --exclude 'target*' --exclude evidence --exclude .git /verif/ $L/verif/
    sed -i "s#\"/repo#\"$L/repo#g" $L/verif/harness/Cargo.toml $L/verif/harness/src/main.rs $L/verif/lib/props.py
    ;;
  apply)  git -C $L/repo apply "$2" ;;
  reset)  git -C $L/repo reset -q --hard HEAD; git -C $L/repo status --short ;;
  run)    shift; cd $L/verif && ./check "$@" ;;
  destroy) rm -rf $L ;;
  *) echo "usage: mutlab.sh setup|sync|apply <patch>|reset|run <Cxx> [args]|destroy"; exit 2 ;;
esac
