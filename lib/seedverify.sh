#!/bin/bash
# seedverify.sh <seed-id>: confirm a seeded change independently in a fresh scratch worktree of /repo HEAD:
#  (1) patch applies, (2) workspace builds and all existing tests pass with it, (3) demo fails with it,
#  (4) demo passes without it.  Prints a JSON line with the outcome; removes the worktree afterwards.
id=$1; src=/verif/seeded/$id; wt=/tmp/sv/$id
rm -rf $wt; mkdir -p /tmp/sv
git -C /repo worktree prune
git -C /repo worktree add -q --detach $wt HEAD || exit 2
cd $wt
cp /repo/Cargo.lock . 2>/dev/null
applies=no; tests=unknown; with_rc=NA; without_rc=NA
if git apply --3way $src/patch.diff 2>/tmp/sv/$id.apply.log || git apply $src/patch.diff 2>>/tmp/sv/$id.apply.log; then applies=yes; fi
if [ $applies = yes ]; then
  git diff HEAD -- src crates > /tmp/sv/$id.rebased.diff
  mkdir -p seed_demo && cp -r $src/demo/. seed_demo/ && cp /repo/Cargo.lock seed_demo/ 2>/dev/null
  summary=$(CARGO_NET_OFFLINE=true cargo nextest run --workspace --no-fail-fast --offline 2>&1 | grep -E "Summary|tests run" | tail -1)
  tests="$summary"
  (cd seed_demo && CARGO_NET_OFFLINE=true cargo run --offline -q >/tmp/sv/$id.with.log 2>&1); with_rc=$?
  git checkout -q HEAD -- src crates 2>/dev/null   # (index too: --3way stages the patch) never git stash: the stash stack is shared by all worktrees
  (cd seed_demo && CARGO_NET_OFFLINE=true cargo run --offline -q >/tmp/sv/$id.without.log 2>&1); without_rc=$?
fi
cd /
git -C /repo worktree remove --force $wt
git -C /repo worktree prune
echo "{\"seed\":\"$id\",\"applies\":\"$applies\",\"tests\":\"$tests\",\"demo_rc_with\":\"$with_rc\",\"demo_rc_without\":\"$without_rc\"}" | tee /tmp/sv/$id.result.json
