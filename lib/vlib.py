"""Shared machinery of ./check: build the harness against /repo's working
tree, run drivers, run TLC (model checking and trace validation), filter
through KNOWN_FINDINGS.jsonl, write evidence, print VIOLATION lines.

Exit codes: 0 property held on everything explored; 1 at least one
VIOLATION line was printed; 2 tool error / timeout (never a verdict).
"""
import concurrent.futures as cf
import json
import os
import re
import shutil
import subprocess
import sys
import time

VERIF = os.path.dirname(os.path.dirname(os.path.abspath(__file__)))
SPEC = os.path.join(VERIF, "spec")
HARNESS = os.path.join(VERIF, "harness")
WORK = os.path.join(VERIF, "work")
EVID = os.path.join(VERIF, "evidence")
REPLAY = os.path.join(EVID, "replay")
CP = "/opt/veriftools/tla/tla2tools.jar:/opt/veriftools/tla/CommunityModules-deps.jar"
NCPU = os.cpu_count() or 4


class ToolError(Exception):
    pass


def log(*a):
    print(*a, flush=True)


def env_offline():
    e = dict(os.environ)
    e["CARGO_NET_OFFLINE"] = "true"
    e.pop("RUSTFLAGS", None)  # harness/.cargo/config.toml carries --cfg jiff_verif
    return e


def build_harness(profile="dev", features=None, no_default=False, target=None):
    """cargo build the harness against /repo's *current* working tree.
    Returns the path of the jv binary."""
    cmd = ["cargo", "build", "--offline", "--quiet"]
    if profile != "dev":
        cmd += ["--profile", profile]
    if no_default:
        cmd += ["--no-default-features"]
    if features:
        cmd += ["--features", ",".join(features)]
    tdir = os.path.join(HARNESS, target or "target")
    if target:
        cmd += ["--target-dir", tdir]
    t0 = time.time()
    p = subprocess.run(cmd, cwd=HARNESS, env=env_offline(), stdout=subprocess.PIPE,
                       stderr=subprocess.STDOUT, text=True)
    if p.returncode != 0:
        raise ToolError("harness build failed:\n" + p.stdout[-4000:])
    sub = "debug" if profile == "dev" else profile
    log(f"[build] profile={profile} features={features} {time.time()-t0:.1f}s")
    return os.path.join(tdir, sub, "jv")


def workdir(pid, fresh=True):
    d = os.path.join(WORK, pid)
    if fresh and os.path.exists(d):
        shutil.rmtree(d, ignore_errors=True)
    os.makedirs(d, exist_ok=True)
    return d


def run_driver(binary, driver, outdir, tier, seed, extra=(), timeout=3600, env=None):
    """Run one harness driver; returns its summary dict."""
    cmd = [binary, driver, "--out", outdir, "--tier", tier, "--seed", str(seed)] + list(extra)
    t0 = time.time()
    e = dict(os.environ)
    if env:
        e.update(env)
    try:
        p = subprocess.run(cmd, stdout=subprocess.PIPE, stderr=subprocess.STDOUT, text=True,
                           timeout=timeout, env=e)
    except subprocess.TimeoutExpired:
        raise ToolError(f"driver {driver} exceeded its watchdog of {timeout}s (hang?)")
    if p.returncode != 0:
        raise ToolError(f"driver {driver} failed rc={p.returncode}:\n{p.stdout[-3000:]}")
    stem = driver
    for i, x in enumerate(extra):
        if x == "--stem":
            stem = extra[i + 1]
    sp = os.path.join(outdir, f"{stem}.summary.json")
    with open(sp) as f:
        s = json.load(f)
    log(f"[driver] {driver} {' '.join(extra)} events={s['events']} shards={len(s['files'])} "
        f"{time.time()-t0:.1f}s")
    return s


_STATES = re.compile(r"(\d+) states generated, (\d+) distinct states found")
# one string per mismatch: TLC wraps long tuples over several lines, never a string
_MISM = re.compile(r'^"MISMATCH\|(\d+)\|(.*)"\s*$')


def _java(xmx="4g", gc="-XX:+UseSerialGC", props=()):
    return ["java", gc, "-Xss1g", f"-Xmx{xmx}"] + list(props) + ["-cp", CP, "tlc2.TLC"]


def tlc_mc(tla, cfg, metadir, workers=NCPU, timeout=3600, xmx="8g", extra=(), env=None, cwd=SPEC):
    """Plain model checking.  Returns dict(generated, distinct, ok, out)."""
    cmd = _java(xmx=xmx, gc="-XX:+UseParallelGC") + ["-workers", str(workers), "-metadir", metadir,
                                                     "-cleanup", "-noGenerateSpecTE", "-config", cfg] + list(extra) + [tla]
    e = dict(os.environ)
    if env:
        e.update(env)
    t0 = time.time()
    try:
        p = subprocess.run(cmd, cwd=cwd, stdout=subprocess.PIPE, stderr=subprocess.STDOUT, text=True,
                           timeout=timeout, env=e)
    except subprocess.TimeoutExpired:
        shutil.rmtree(metadir, ignore_errors=True)
        raise ToolError(f"TLC timed out after {timeout}s on {tla}/{cfg}")
    shutil.rmtree(metadir, ignore_errors=True)
    out = p.stdout
    m = None
    for m in _STATES.finditer(out):
        pass
    gen, dist = (int(m.group(1)), int(m.group(2))) if m else (0, 0)
    ok = p.returncode == 0 and "No error has been found" in out
    log(f"[tlc-mc] {tla} {cfg}: generated={gen} distinct={dist} ok={ok} {time.time()-t0:.1f}s")
    return {"generated": gen, "distinct": dist, "ok": ok, "out": out, "rc": p.returncode,
            "what": f"{tla}/{cfg}"}


def apalache_check(tla, inv, outdir, length=0, timeout=1800):
    """Symbolic check with Apalache (SMT): the invariant holds in every state reachable in `length` steps from
    EVERY initial state (Init may leave integers unconstrained).  Returns the same dict shape as tlc_mc."""
    t0 = time.time()
    cmd = ["apalache-mc", "check", f"--length={length}", f"--inv={inv}", f"--out-dir={outdir}", tla]
    try:
        p = subprocess.run(cmd, cwd=SPEC, stdout=subprocess.PIPE, stderr=subprocess.STDOUT, text=True, timeout=timeout)
    except subprocess.TimeoutExpired:
        shutil.rmtree(outdir, ignore_errors=True)
        raise ToolError(f"apalache timed out after {timeout}s on {tla}")
    out = p.stdout
    shutil.rmtree(outdir, ignore_errors=True)
    ok = "The outcome is: NoError" in out and p.returncode == 0
    if not ok and "The outcome is: Error" not in out:
        raise ToolError(f"apalache failed on {tla} rc={p.returncode}:\n{out[-2500:]}")
    log(f"[apalache] {tla} inv={inv} length={length}: ok={ok} {time.time()-t0:.1f}s")
    # a violated invariant is reported through the usual path (add_mc looks for this phrase)
    if not ok:
        out += "\nInvariant " + inv + " is violated (apalache)"
    return {"what": f"apalache {tla} inv={inv} length={length} (all integers)", "generated": 0, "distinct": 0, "ok": ok,
            "out": out, "rc": p.returncode}


def _trace_one(tla, cfg, shard, metadir, env, timeout, xmx):
    cmd = _java(xmx=xmx) + ["-workers", "1", "-metadir", metadir, "-cleanup", "-noGenerateSpecTE",
                            "-config", cfg, tla]
    e = dict(os.environ)
    e["TRACE"] = shard
    if env:
        e.update(env)
    try:
        p = subprocess.run(cmd, cwd=SPEC, stdout=subprocess.PIPE, stderr=subprocess.STDOUT, text=True,
                           timeout=timeout, env=e)
    except subprocess.TimeoutExpired:
        shutil.rmtree(metadir, ignore_errors=True)
        return {"shard": shard, "tool_error": f"TLC timed out after {timeout}s"}
    shutil.rmtree(metadir, ignore_errors=True)
    out = p.stdout
    mism = []
    for line in out.splitlines():
        mm = _MISM.match(line)
        if mm:
            mism.append((int(mm.group(1)), mm.group(2)))
    m = None
    for m in _STATES.finditer(out):
        pass
    gen, dist = (int(m.group(1)), int(m.group(2))) if m else (0, 0)
    res = {"shard": shard, "mismatches": mism, "generated": gen, "distinct": dist}
    if out.count("MISMATCH") != len(mism):
        # a mismatch line that the parser did not understand must never be lost
        res["tool_error"] = "unparsed MISMATCH output:\n" + "\n".join(l for l in out.splitlines() if "MISMATCH" in l)[:2000]
        return res
    if p.returncode != 0 or "No error has been found" not in out:
        # the trace spec never blocks: any TLC error here is a tool problem
        # (malformed event, evaluation error), not a verdict
        tail = "\n".join(l for l in out.splitlines() if not l.startswith(("Parsing", "Semantic", "Linting")))
        res["tool_error"] = tail[-3000:]
    return res


def tlc_trace(tla, shards, pid, cfg="Trace.cfg", par=None, env=None, timeout=3600, xmx="5g"):
    """Validate every shard with the trace spec; returns (results, mismatches)
    where mismatches = [(shard, line_no, why, event_dict)]."""
    par = par or max(1, min(10, NCPU - 4))
    t0 = time.time()
    results = []
    with cf.ThreadPoolExecutor(max_workers=par) as ex:
        futs = []
        for i, sh in enumerate(shards):
            md = os.path.join(WORK, pid, f"tlc-{os.path.basename(sh)}-{i}")
            futs.append(ex.submit(_trace_one, tla, cfg, sh, md, env, timeout, xmx))
        for f in futs:
            results.append(f.result())
    for r in results:
        if "tool_error" in r:
            raise ToolError(f"trace validation of {r['shard']} with {tla} failed:\n{r['tool_error']}")
    mism = []
    for r in results:
        if r["mismatches"]:
            want = {ln for ln, _ in r["mismatches"]}
            evs = {}
            zone = None
            with open(r["shard"]) as f:
                for i, line in enumerate(f, 1):
                    if line.startswith('{"cls":"zone-') or '"op":"zone"' in line[:400]:
                        try:
                            zr = json.loads(line)
                            if zr.get("op") == "zone" and zr.get("slot", 1) != 2:
                                zone = {"name": zr.get("name"), "cls": zr.get("cls"), "src": zr.get("src", ""),
                                        "xyear": zr.get("xyear", 0)}
                        except Exception:
                            pass
                    if i in want:
                        evs[i] = json.loads(line)
                        if zone:
                            evs[i]["_zone"] = zone["name"]
                            evs[i]["_zone_cls"] = zone["cls"]
                            evs[i]["_zone_src"] = zone["src"]
                            evs[i]["_zone_xyear"] = zone["xyear"]
            for ln, why in r["mismatches"]:
                mism.append((r["shard"], ln, why, evs.get(ln)))
    n = sum(r["distinct"] - 1 for r in results)
    log(f"[tlc-trace] {tla}: shards={len(shards)} events={n} mismatches={len(mism)} {time.time()-t0:.1f}s")
    if os.environ.get("VERIF_BINDING") and shards:
        binding_pass(tla, shards[0], pid, cfg, env, {ln for sh, ln, _, _ in mism if sh == shards[0]}, xmx)
    return results, mism


# --------------------------------------------------------------------------
# binding demonstration: corrupt recorded fields, expect rejection

_SKIP_KEYS = {"cls", "op", "scope", "s", "name", "src", "_zone"}
BINDING = {}   # (tla, op) -> [corrupted, rejected, rejected by an evaluation error]


def _leaves(v, path, out):
    if isinstance(v, bool):
        out.append(path)
    elif isinstance(v, int):
        out.append(path)
    elif isinstance(v, list):
        for i, x in enumerate(v):
            _leaves(x, path + [i], out)
    elif isinstance(v, dict):
        for k, x in v.items():
            if k not in _SKIP_KEYS:
                _leaves(x, path + [k], out)


def _perturb(ev, path):
    cur = ev
    for k in path[:-1]:
        cur = cur[k]
    v = cur[path[-1]]
    cur[path[-1]] = (not v) if isinstance(v, bool) else v + 1


def binding_pass(tla, shard, pid, cfg, env, already_bad, xmx, per_op=12):
    """Corrupt one numeric field in up to per_op events of every kind in the shard, validate
    the corrupted shard, and count how many corrupted events the specification rejects."""
    import random
    rnd = random.Random(12345)
    lines = open(shard).read().splitlines()
    by_op = {}
    for i, line in enumerate(lines, 1):
        if i in already_bad:
            continue
        try:
            ev = json.loads(line)
        except Exception:
            continue
        op = ev.get("op", "?")
        if op in ("zone", "reset"):
            continue
        by_op.setdefault(op, []).append(i)
    chosen = {}
    for op, idx in by_op.items():
        for i in rnd.sample(idx, min(per_op, len(idx))):
            ev = json.loads(lines[i - 1])
            lv = []
            _leaves(ev, [], lv)
            if not lv:
                continue
            path = rnd.choice(lv)
            _perturb(ev, path)
            chosen[i] = (op, path, json.dumps(ev, separators=(",", ":")))
    evalerr = set()
    rejected = set()
    for attempt in range(25):
        cur = list(lines)
        for i, (op, path, txt) in chosen.items():
            if i not in evalerr:
                cur[i - 1] = txt
        f = os.path.join(WORK, pid, "binding.ndjson")
        os.makedirs(os.path.dirname(f), exist_ok=True)
        with open(f, "w") as fh:
            fh.write("\n".join(cur) + "\n")
        r = _trace_one(tla, cfg, f, os.path.join(WORK, pid, "tlc-binding"), env, 1800, xmx)
        rejected |= {ln for ln, _ in r["mismatches"]}
        if "tool_error" not in r:
            break
        # an evaluation error stops TLC at one event: that event is rejected too; restore it and go on
        pos = [int(x) for x in re.findall(r"\bl = (\d+)", r["tool_error"])]
        k = pos[-1] if pos else None
        if k is None or k not in chosen or k in evalerr:
            cand = [i for i in sorted(chosen) if i not in evalerr and i not in rejected]
            if not cand:
                break
            k = cand[0] if k is None else min(cand, key=lambda i: abs(i - k))
        evalerr.add(k)
    collateral = len([ln for ln in rejected if ln not in chosen])
    for i, (op, path, txt) in chosen.items():
        st = BINDING.setdefault((tla, op), [0, 0, 0, []])
        st[0] += 1
        if i in evalerr:
            st[2] += 1
        elif i in rejected:
            st[1] += 1
        elif len(st[3]) < 6:
            st[3].append("/".join(str(x) for x in path))
    for (t, op), st in sorted(BINDING.items()):
        if t == tla:
            log(f"[binding] {tla} op={op}: corrupted={st[0]} rejected={st[1]} eval-error={st[2]} "
                f"accepted={st[0]-st[1]-st[2]} {('unconstrained: ' + ', '.join(st[3])) if st[3] else ''}")
    if collateral:
        log(f"[binding] {tla}: {collateral} uncorrupted events rejected as a consequence (stateful trace)")


# --------------------------------------------------------------------------
# known findings

def load_known():
    """KNOWN_FINDINGS.txt: 'known: property=Cxx :: {matcher json} :: what' lines
    become matchers; 'fixed:' lines suppress nothing."""
    p = os.path.join(VERIF, "KNOWN_FINDINGS.txt")
    out = []
    if os.path.exists(p):
        for line in open(p):
            line = line.strip()
            if not line.startswith("known:"):
                continue
            head, matcher, what = [x.strip() for x in line.split(" :: ", 2)]
            pid = re.search(r"property=(C\d+)", head).group(1)
            out.append({"status": "known", "property": pid, "match": json.loads(matcher), "what": what})
    return out


def _match_known(k, pid, why, ev):
    if k.get("status") != "known" or k.get("property") != pid:
        return False
    m = k.get("match", {})
    if "op" in m and (ev or {}).get("op") != m["op"]:
        return False
    if "why_re" in m and not re.search(m["why_re"], why or ""):
        return False
    for fld, pat in m.get("fields", {}).items():
        v = (ev or {}).get(fld)
        if isinstance(pat, str):
            if not re.fullmatch(pat, v if isinstance(v, str) else json.dumps(v)):
                return False
        elif v != pat:
            return False
    return True


class Check:
    """Accumulates what one run of one property's check covered."""

    def __init__(self, pid, tier, seed, level="model_checking"):
        self.pid, self.tier, self.seed, self.level = pid, tier, seed, level
        self.t0 = time.time()
        self.states = 0
        self.transitions = 0
        self.traces = 0
        self.evaluations = 0
        self.distinct_nontrivial = 0
        self.samples = []
        self.classes = {}
        self.rule = ""
        self.exhaustive = False
        self.assumptions = []
        self.violations = []   # (why, event/replay payload)
        self.known_hits = []
        self.beyond = []       # divergences on inputs outside the property's statement: reported, never a violation
        self.mc_runs = []
        self.extra = {}
        self.known = load_known()

    # -- accounting -----------------------------------------------------
    def add_mc(self, r, required=True):
        self.states += r["distinct"]
        self.transitions += r["generated"]
        self.mc_runs.append({"what": r["what"], "distinct": r["distinct"], "generated": r["generated"],
                             "ok": r["ok"]})
        if not r["ok"] and required:
            tail = "\n".join(l for l in r["out"].splitlines()
                             if not l.startswith(("Parsing", "Semantic", "Linting")))[-2500:]
            if re.search(r"Invariant .* is violated|Temporal properties were violated|Deadlock reached|"
                         r"Action property .* is violated", r["out"]):
                # the *design model* itself violates the property
                self.violation(f"TLC found a counterexample in {r['what']}", {"tlc_output": tail})
            else:
                raise ToolError(f"TLC failed on {r['what']} rc={r['rc']}:\n{tail}")

    def add_summary(self, s):
        self.evaluations += s["events"]
        self.distinct_nontrivial += s["distinct_nontrivial"]
        for k, v in s["classes"].items():
            self.classes[k] = self.classes.get(k, 0) + v
        for k, v in s["samples"].items():
            if len(self.samples) < 12:
                self.samples.append(v)

    def add_trace(self, results, mism, driver_cmd=""):
        for r in results:
            self.states += r["distinct"]
            self.transitions += r["generated"]
        bad_shards = {m[0] for m in mism}
        self.traces += sum(1 for r in results if r["shard"] not in bad_shards)
        for shard, ln, why, ev in mism:
            self.mismatch(why, ev, driver_cmd)

    def mismatch(self, why, ev, driver_cmd=""):
        if isinstance(ev, dict) and ev.get("scope") == "beyond":
            self.beyond.append((why, ev))
            return
        for k in self.known:
            if _match_known(k, self.pid, why, ev):
                self.known_hits.append((k, why, ev))
                return
        self.violation(why, {"event": ev, "driver": driver_cmd})

    def violation(self, why, payload):
        self.violations.append((why, payload))

    # -- finish -----------------------------------------------------------
    def finish(self):
        os.makedirs(REPLAY, exist_ok=True)
        seen = set()
        for k, why, ev in self.known_hits:
            key = k.get("what", "")
            if key not in seen:
                seen.add(key)
                n = sum(1 for kk, _, _ in self.known_hits if kk is k)
                log(f"KNOWN-FINDING: property={self.pid} {key} ({n} matching observations)")
        if self.beyond:
            bg = {}
            for why, ev in self.beyond:
                bg.setdefault(why, []).append(ev)
            path = os.path.join(REPLAY, f"{self.pid}-beyond.json")
            with open(path, "w") as f:
                json.dump({"property": self.pid, "note": "divergences from the specification on inputs outside the "
                           "property's statement; not violations", "groups": {w: e[:20] for w, e in bg.items()}}, f, indent=1)
            for w, e in sorted(bg.items()):
                log(f"BEYOND-PROPERTY: property={self.pid} {w} ({len(e)} cases, e.g. {e[0].get('s', '')!r}) see {path}")
        # group violations by reason, one replay file per reason (max 20 files)
        groups = {}
        for why, payload in self.violations:
            groups.setdefault(why, []).append(payload)
        for i, (why, payloads) in enumerate(sorted(groups.items())[:20]):
            path = os.path.join(REPLAY, f"{self.pid}-{i}.json")
            with open(path, "w") as f:
                json.dump({"property": self.pid, "why": why, "seed": self.seed, "tier": self.tier,
                           "count": len(payloads), "cases": payloads[:50]}, f, indent=1)
            log(f"VIOLATION property={self.pid} replay={path}   # {why} ({len(payloads)} cases)")
        cov = {
            "states": self.states,
            "transitions": self.transitions,
            "traces_validated_against_impl": self.traces,
            "evaluations": self.evaluations,
            "distinct_nontrivial": self.distinct_nontrivial,
            "rule": self.rule,
            "samples": self.samples[:12] or [{"note": "no implementation events in this run"}],
            "classes": self.classes,
            "exhaustive": self.exhaustive,
            "model_checking_runs": self.mc_runs,
            "known_findings_hit": len(self.known_hits),
            "beyond_property_divergences": len(self.beyond),
        }
        cov.update(self.extra)
        ev = {
            "property_id": self.pid,
            "tier": self.tier,
            "seed": self.seed,
            "level": self.level,
            "coverage": cov,
            "assumptions": self.assumptions,
            "wall_s": round(time.time() - self.t0, 1),
            "violations": len(self.violations),
        }
        os.makedirs(EVID, exist_ok=True)
        with open(os.path.join(EVID, f"{self.pid}.json"), "w") as f:
            json.dump(ev, f, indent=1)
        log(f"[done] {self.pid} tier={self.tier} events={self.evaluations} states={self.states} "
            f"violations={len(self.violations)} known={len(self.known_hits)} wall={ev['wall_s']}s")
        return 1 if self.violations else 0


TRUSTED = [
    "TLC 1.8.0 and the CommunityModules Json/IOUtils",
    "the harness's projection code (event encoding, limb encoder, PRNG)",
    "rustc/std; not trusted: anything under /repo",
]


_FURTHEST = re.compile(r'<<"FURTHEST", (\d+), (\d+)>>')


def tlc_accept(tla, cfg, trace, metadir, timeout=900, xmx="4g", queue="bfs"):
    """Blocking trace validation: the trace is accepted iff TLC finds a state
    with every event consumed (reported as the violation of NotAccepted)."""
    props = ["-Dtlc2.tool.queue.IStateQueue=StateDeque"] if queue == "dfs" else []
    cmd = _java(xmx=xmx, props=props) + ["-workers", "1", "-metadir", metadir, "-cleanup", "-noGenerateSpecTE",
                                         "-config", cfg, tla]
    e = dict(os.environ)
    e["TRACE"] = trace
    try:
        p = subprocess.run(cmd, cwd=SPEC, stdout=subprocess.PIPE, stderr=subprocess.STDOUT, text=True,
                           timeout=timeout, env=e)
    except subprocess.TimeoutExpired:
        shutil.rmtree(metadir, ignore_errors=True)
        raise ToolError(f"TLC timed out after {timeout}s validating {trace}")
    shutil.rmtree(metadir, ignore_errors=True)
    out = p.stdout
    m = None
    for m in _STATES.finditer(out):
        pass
    gen, dist = (int(m.group(1)), int(m.group(2))) if m else (0, 0)
    accepted = "Invariant NotAccepted is violated" in out
    other = re.search(r"Invariant (\w+) is violated", out)
    f = _FURTHEST.search(out)
    res = {"trace": trace, "accepted": accepted, "generated": gen, "distinct": dist,
           "furthest": int(f.group(1)) if f else None, "total": int(f.group(2)) if f else None,
           "inv_violated": other.group(1) if other and other.group(1) != "NotAccepted" else None}
    if not accepted and f is None and res["inv_violated"] is None:
        tail = "\n".join(l for l in out.splitlines() if not l.startswith(("Parsing", "Semantic", "Linting", "State ")))
        raise ToolError(f"trace validation of {trace} with {tla} failed:\n{tail[-2500:]}")
    return res


def tlc_simulate(tla, cfg, metadir, num, depth, marker="HIST", timeout=900, seed=None):
    """Run TLC in simulation mode and collect the JSON payload of every
    <<"MARKER", "json">> line it prints."""
    cmd = _java(xmx="4g") + ["-workers", "1", "-simulate", f"num={num}", "-depth", str(depth), "-metadir", metadir,
                             "-cleanup", "-noGenerateSpecTE", "-config", cfg]
    if seed is not None:
        cmd += ["-seed", str(seed)]
    cmd += [tla]
    try:
        p = subprocess.run(cmd, cwd=SPEC, stdout=subprocess.PIPE, stderr=subprocess.STDOUT, text=True, timeout=timeout)
    except subprocess.TimeoutExpired:
        shutil.rmtree(metadir, ignore_errors=True)
        raise ToolError(f"TLC simulation timed out after {timeout}s on {tla}")
    shutil.rmtree(metadir, ignore_errors=True)
    out = p.stdout
    pat = re.compile(r'^<<"' + marker + r'", (".*")>>\s*$')
    items = []
    for line in out.splitlines():
        mm = pat.match(line)
        if mm:
            items.append(json.loads(mm.group(1)))
    if "is violated" in out or (p.returncode != 0 and not items):
        tail = "\n".join(l for l in out.splitlines() if not l.startswith(("Parsing", "Semantic", "Linting")))
        raise ToolError(f"TLC simulation of {tla} failed:\n{tail[-2500:]}")
    log(f"[tlc-sim] {tla}: {len(items)} behaviours")
    return items
