#!/usr/bin/env python3
"""Regenerates /verif/MANIFEST.json from the table below (single source)."""
import json
import os

VERIF = os.path.dirname(os.path.dirname(os.path.abspath(__file__)))

# pid -> (level category, text, note, technique, design_ref)
CLAIMED = {
    "C01": ("model_checking",
            "TLC exhaustively explores the 7,304,484-state calendar successor machine (CalendarWalk.tla) and shows every "
            "closed form of Calendar.tla equal to it in every state; the real code (public API and the jiff-static copy) "
            "is bound to that model by trace validation: every observed fact of every driven date is recomputed by "
            "Trace_C01.tla. Thorough tier drives every date, month, ISO triple and constructor triple, so the property's "
            "quantifier is covered exhaustively on the implementation side too.",
            "Trusted: TLC, the Json module, the harness's event projection. The spec's calendar is itself model-checked.",
            "TLA+ model checking (TLC) + trace validation of implementation events against the spec", "DESIGN.md §5 C01"),
    "C02": ("model_checking",
            "Every conversion the property names (instant -> civil at an offset and back, the four unit views and "
            "constructors, Timestamp::new sign normalisation) is specified in Instant.tla on <<day, second-of-day, ns>> "
            "triples with BigInt.tla limb arithmetic (model-checked against native arithmetic); every observed call of the "
            "real code is recomputed by Trace_C02.tla. The quantifier is covered boundary-exhaustively: all day boundaries "
            "+-1ns (thorough: all 7.3M days), every second of selected days, an epoch-neighbourhood grid crossing zero and "
            "day boundaries under every extreme offset, both range ends, seeded pairs elsewhere.",
            "Trusted: TLC, Json module, the harness's limb encoder. Not exhaustive over the 2.5e20 x 187199 product; "
            "boundary classes are exhaustive, the interior is sampled.",
            "TLA+ spec evaluated by TLC as a trace validator over implementation events; BigInt model-checked", "DESIGN.md §5 C02"),
    "C03": ("model_checking",
            "TzLookup.tla states the RFC 8536 / POSIX semantics definitionally (type 0 before the first transition, the "
            "latest transition at or before the instant, the footer rule from the last transition on, rule transitions "
            "computed from Calendar.tla); an independent reader turns the same TZif bytes / TZ string into the abstract "
            "zone, and every jiff answer (offset, DST flag, abbreviation, civil time) at the six probes around every "
            "transition of every zone is recomputed by TLC. Thorough covers all zones (installed, bundled, right/, "
            "synthetic slim+fat, 2000 generated POSIX strings) and every rule year to 9999.",
            "Trusted: the independent TZif/POSIX readers in the harness (checked on every run against tzcode's zdump -V for "
            "the system zones, and the lookup operators model-checked in MC_TzLookup), zic for synthetic zones, TLC. Known finding D8 "
            "(cross-year POSIX rules) is listed in KNOWN_FINDINGS.txt.",
            "TLA+ definitional zone semantics; implementation traces validated by TLC", "DESIGN.md §5 C03"),
    "C04": ("model_checking",
            "The expected classification of a civil time is the set of offsets o for which the instant (civil - o) displays "
            "that civil time under the definitional instant lookup of TzLookup.tla: one = unambiguous, two = fold "
            "(earlier, later), none = gap (offsets in force just before / after). TLC recomputes this and the four "
            "strategies for nine probes around every transition window of every zone, the extreme civil datetimes and "
            "seeded civils, and checks that a resolved non-gap instant displays the civil time.",
            "Same trusted base as C03. Civil times with three or more pre-images (only possible in back-to-back synthetic "
            "transitions) are checked for soundness only.",
            "TLA+ definitional pre-image semantics; implementation traces validated by TLC", "DESIGN.md §5 C04"),
    "C14": ("model_checking",
            "A change is an instant T with InfoAt(T) # InfoAt(T - 1ns) (TzLookup.tla). Each item yielded by following()/"
            "preceding() must be strictly beyond the previous position, no change may lie in between, the item must be a "
            "change or a recorded transition with the info in force from it on, and a finished iterator must leave no "
            "change behind. Starts are placed on, +-1ns, +-0.5s, +-1s around every transition of every zone, plus long "
            "walks across the table/rule hand-over and at both range ends; iteration is bounded and guarded, so "
            "non-termination is reported as a violation.",
            "Same trusted base as C03. Recorded no-op transitions may be yielded or skipped.",
            "TLA+ definitional change semantics; implementation traces validated by TLC", "DESIGN.md §5 C14"),
    "C08": ("model_checking",
            "CivilArith.tla states the documented rules (years+months with Euclidean overflow and day clamping, then weeks "
            "and days on the day count, then time units carried across midnight in 24-hour days; wrapping / checked / "
            "saturating clock arithmetic) on day counts and exact BigInt nanoseconds, valid up to every Span unit limit; "
            "every observed checked/saturating/wrapping add and sub of Date, DateTime and Time with spans, SignedDuration "
            "and std Duration is recomputed by TLC, as are series items.",
            "Trusted: TLC, harness encoders. Known finding D6 (Time::wrapping_add with spans beyond 2^63 ns) is listed in "
            "KNOWN_FINDINGS.txt; it is not repairable without editing an existing test that asserts the wrapped value.",
            "TLA+ arithmetic spec (BigInt) evaluated by TLC over implementation traces", "DESIGN.md §5 C08"),
    "C10": ("model_checking",
            "Round.tla defines the correct rounding declaratively (unique multiple within one increment on the side the mode "
            "prescribes; nearest with the mode's tie rule) on exact integers; TLC model-checks uniqueness and equality with "
            "the transcription of jiff's algorithm in small scope (Apalache proves the same for every integer and every "
            "positive increment, AP_Round.tla), and validates every observed rounding of Timestamp, Time, "
            "DateTime, SignedDuration and Offset (all legal increments x 9 modes x boundary values, years <= 0, limits), the "
            "increment legality tables and the out-of-range => Err rule. Zoned rounding is validated with the zoned driver "
            "(C13).",
            "Trusted: TLC, harness encoders; the harness supplies floor(x/inc) of the INPUT as a witness which the spec "
            "verifies by multiplication.",
            "TLA+ declarative rounding spec, model-checked in small scope (TLC) and for all integers (Apalache), plus trace validation", "DESIGN.md §5 C10"),
    "C06": ("model_checking",
            "Zoned.tla composes the definitional zone semantics (TzLookup.tla) with the civil arithmetic (CivilArith.tla): "
            "calendar units on the wall clock, compatible re-resolution, then exact elapsed time; start of day as the first "
            "instant of the civil day (the transition instant when midnight is skipped). TLC recomputes every observed "
            "checked/saturating add and sub, duration arithmetic and day navigation from instants biased to transitions.",
            "Trusted: independent zone readers, TLC. Civil times with >= 3 pre-images (synthetic back-to-back zones) are skipped.",
            "TLA+ spec of zoned arithmetic; implementation traces validated by TLC", "DESIGN.md §5 C06"),
    "C07": ("model_checking",
            "The expected difference is computed exactly by the spec for every type: exact BigInt nanoseconds balanced from "
            "the largest unit for time units; Temporal's surpass criterion on the unclamped year-month-day for months/years; "
            "for zoned values Temporal's day-correction loop over compatible intermediates. TLC checks equality, a + s = b "
            "with the spec's own addition, since = -until, duration_until = exact distance, Err exactly when the span does "
            "not fit the unit limits, and that nothing panics.",
            "Trusted: TLC, harness encoders, zone readers for the zoned part.",
            "TLA+ spec of differences; implementation traces validated by TLC", "DESIGN.md §5 C07"),
    "C13": ("model_checking",
            "WF(zone, instant, offset, civil) is evaluated by TLC on every Zoned value the harness ever obtains: after every "
            "step of seeded operation histories over 15 kinds of public operations and on every result of the zoned "
            "arithmetic and rounding drivers; Eq/Ord/Hash of consecutive states are compared with their instants and zone "
            "changes must keep the instant.",
            "Histories are generated by the harness PRNG, not by TLC (deviation from DESIGN.md §5 C13, see §15).",
            "TLA+ state invariant evaluated by TLC at every step of implementation histories", "DESIGN.md §5 C13"),
    "C19": ("model_checking",
            "TzdbCache.tla models the zoneinfo database cache with one action per critical section of the code "
            "(fast path under the zones read lock, name lookup / refresh, slow path under the zones write lock, nested "
            "reset, file replace/remove/add, clock ticks). TLC explores every interleaving of 2 threads x 2 names "
            "(thorough: 3 threads) for cache coherence, what a lookup may return, freshness after expiry/reset and lock "
            "discipline, and progress under fairness. The model is bound to the code in both directions: TLC-generated "
            "sequential histories are replayed on a real database (returned version and path must match), and recorded "
            "concurrent executions (hook events sequenced under jiff's locks) must be behaviours of the model.",
            "Hooks under cfg(jiff_verif): mock monotonic clock, ttl setter, critical-section events. Staleness within the "
            "ttl is the documented design and is allowed. The concatenated (Android tzdata) database has its own model, "
            "ConcatCache.tla (one file for all zones, no name index), model-checked the same way and bound in both "
            "directions too: TLC-generated histories replayed on TimeZoneDatabase::from_concatenated_path, and recorded "
            "concurrent executions validated by Trace_ConcatCache.tla.",
            "TLA+ model checking of the cache protocol + behaviour replay + concurrent trace validation", "DESIGN.md §5 C19"),
    "C20": ("model_checking",
            "TzHandle.tla models handle slots and reference counted heap objects; TLC checks RcInv / FreeInv / "
            "NoUseAfterFree / EqLaws over all interleavings of new/clone/drop and generates programs that the harness "
            "executes on real TimeZone values of every kind, comparing after each step the pointer tag, Arc strong count "
            "(read-only hook), frees seen by a tracking allocator, equality of all live pairs and query answers; all "
            "187,199 fixed offsets are enumerated.",
            "Memory safety proper (a read after free that leaves counts intact) is outside the abstract state; the "
            "tracking allocator sees frees, not reads. Cross-thread steps of the TLC programs are sequential hand-overs (spawn + "
            "join); real races (8 threads cloning, querying and dropping one handle of every kind at once) are run as a separate "
            "stage whose end state (one owner, nothing freed early, freed exactly once) is checked, not their interleaving.",
            "TLA+ model checking + TLC-generated programs replayed on the implementation", "DESIGN.md §5 C20"),
    "C12": ("model_checking",
            "Trace_Value.tla states Span as ten magnitudes plus one sign with the documented setter rule and limits, and "
            "SignedDuration as an exact BigInt nanosecond count; every observed setter sequence, negate/abs/mul/fieldwise, "
            "and every SignedDuration operation (add, sub, mul, div, neg, unit views and constructors, std Duration and Span "
            "conversions, f64 conversions) is recomputed exactly by TLC; overflow must be reported exactly when the exact "
            "result is unrepresentable. BigInt.tla is model-checked against native arithmetic.",
            "Floats: try_from_secs_f64 must be within 1ns and as_secs_f64 within 2 ulp of the exact value; the single float "
            "2^63 may saturate (the existing suite pins that). mul_f64/div_f64 and the f32 variants are not covered.",
            "TLA+ exact-arithmetic spec evaluated by TLC over implementation traces", "DESIGN.md §5 C12"),
    "C09": ("model_checking",
            "Rfc3339.tla is an independent reader of RFC 3339 / RFC 9557 text written in TLA+ over byte values; TLC runs it "
            "on every printed Timestamp, Date, Time, DateTime and Zoned (all printer options; instants around every "
            "transition, folds, sub-minute LMT periods) and checks that the decoded value is the original, that the civil "
            "time + zone + printed offset determine the instant, and that jiff's own re-parse returns an equal value. The "
            "parsers are also run on texts generated from the grammar (not by jiff's printer) and must return what the "
            "reader decodes; texts of a shape no printer option produces are reported as BEYOND-PROPERTY, never as violations.",
            "Trusted: TLC, harness, independent zone reader. Folds whose two offsets round to the same minute (a few "
            "seconds wide) cannot be told apart by any RFC 9557 text and are skipped.",
            "TLA+ text reader + zone semantics evaluated by TLC over implementation traces", "DESIGN.md §5 C09"),
    "C15": ("model_checking",
            "Trace_Dur.tla contains an independent ISO 8601 duration reader (byte values -> BigInt unit values), Friendly.tla an "
            "independent reader of the friendly format, and the "
            "documented relations between a value and its friendly-format round trip per printer configuration; TLC "
            "evaluates them on every printed span and duration: ISO text must denote the original, friendly text must be "
            "accepted by the parser under every configuration, identical for lossless configurations, within one unit of the "
            "last printed digit otherwise. Both parsers are also run on grammar-generated texts against the readers "
            "(shapes no printer configuration produces are reported as BEYOND-PROPERTY, never as violations).",
            "The friendly texts are read by the independent reader Friendly.tla (documented grammar). Known finding D12 (i64::MIN seconds) is listed in KNOWN_FINDINGS.txt.",
            "TLA+ text reader and round-trip relations evaluated by TLC over implementation traces", "DESIGN.md §5 C15"),
    "C16": ("model_checking",
            "Strtime.tla defines, from Calendar.tla / Instant.tla alone, the text of every conversion specifier as POSIX "
            "strftime defines it (day of year, Sunday/Monday week numbers as 'days before the first Sunday/Monday are week "
            "0', ISO week and year, weekday numbers, 12-hour clock, Unix seconds as BigInt, offsets) with jiff's documented "
            "flags and width, the rule deciding from the directives of a format which types it determines and to what "
            "precision, and an independent RFC 2822 reader. TLC recomputes every observed strftime text, every strptime "
            "round trip into all five types, every wrong-weekday text (must be refused) and every RFC 2822 / 9110 print "
            "and parse.",
            "Trusted: TLC, harness projection, the system tz database for %Q. Unsettled and therefore not demanded: padding "
            "of negative numbers (both conventions accepted), width on names, contradictions other than the weekday "
            "(jiff documents that surplus fields are ignored), a 12-hour clock without AM/PM, %s followed by other "
            "field-setting directives. Known finding D28 (%A cannot parse \"Tuesday\") is listed in KNOWN_FINDINGS.txt.",
            "TLA+ strftime/strptime/RFC 2822 spec evaluated by TLC over implementation traces", "DESIGN.md §5 C16"),
    "C05": ("model_checking",
            "The specification of a fallible operation is Result = Ok(v) with v inside the type's documented range, or Err; "
            "never a panic; independent of the build mode. Ranges.tla states every range (from Calendar/Instant/CivilArith); "
            "Trace_Fallible.tla checks each observed call, made with identical limit-biased arguments under a build with "
            "debug assertions and overflow checks and one without, for: no panic in either, same status, same value, value "
            "in range. The call list covers every fallible (and saturating / wrapping) public operation of Date, Time, "
            "DateTime, Timestamp, Zoned, Span, SignedDuration, Offset, ISOWeekDate and the zone conversions, crossed with "
            "pools built from every type's MIN, MAX, +-1 around them, zero and sign changes.",
            "Trusted: TLC, the projection, cargo profiles. Sampling: products of pools are thinned 1:2 in the quick tier; "
            "the thorough tier runs every product with enlarged span pools. Which value an Ok result must have is decided "
            "by the other properties' checks (C06-C13).",
            "TLA+ range/totality spec evaluated by TLC over paired traces of two builds", "DESIGN.md §5 C05"),
    "C11": ("model_checking",
            "SpanRel.tla states what a span means relative to a reference (reference (+) span by the civil and zoned "
            "addition semantics of CivilArith.tla / Zoned.tla, the balanced difference by the until rules) and derives "
            "from it the goal of every Span::round / total / compare: exact rounded nanoseconds for uniform units "
            "(Round.tla, model-checked), the position of the lower or upper candidate the mode prescribes for calendar "
            "units (with balancing at the boundary of the next larger unit), exact rational totals, and the order of the two "
            "positions. TLC recomputes every observed call (no reference, days-are-24-hours, civil datetimes and dates, "
            "zoned datetimes near transitions in ~44 zones; every smallest x largest x mode; legal and illegal increments) "
            "and checks the result's shape and that reference (+) result is the prescribed position.",
            "Trusted: TLC, the harness's zone readers, witnesses verified by multiplication. Not settled by the wording and "
            "checked only for shape and distance: day/week steps > 1 below a larger unit, zoned time units re-rounded "
            "across a day boundary, half-even ties (total vs. remainder), candidates beyond range limits (may be refused). "
            "D36-D41 and D44 were found by this check and repaired (KNOWN_FINDINGS.txt).",
            "TLA+ relational span semantics evaluated by TLC over implementation traces; Round.tla model-checked", "DESIGN.md §5 C11"),
    "C18": ("model_checking",
            "Equality of the loading paths is decided by holding every path to the same specification of the same data: the "
            "C03 / C04 / C14 observations (TzLookup.tla semantics, Trace_Tz.tla) are repeated with each zone loaded through "
            "TimeZoneDatabase::from_dir, from_concatenated_path (a file assembled in Android's format from the same bytes), "
            "TimeZoneDatabase::bundled, the tz::get! / tz::include! macros (40 zones compiled into the harness, slim and fat "
            "zic output of the same rules), TimeZone::tzif in a build with tz-fat compiled out, and POSIX strings after a "
            "Display / parse round trip; the independent reader always reads the very bytes jiff is given. Name lookups in "
            "upper, lower and alternating case must return the canonical spelling and an equal zone. The generated copy of "
            "src/shared in jiff-static is compared token-wise with the original.",
            "Trusted: the independent readers, zic, TLC. The static macros cover 40 zones (a proc macro needs literal "
            "paths); the concatenated file is written by the harness from jiff's reading of Android's format. Known finding "
            "D8 (cross-year POSIX rules) applies through every path and is listed for C18 as well.",
            "TLA+ zone semantics; traces of every loading back-end validated by TLC against one abstract zone per byte string",
            "DESIGN.md §5 C18"),
    "C17": ("exploration",
            "Totality cannot be exhausted; it is explored. Mutate.tla specifies the mutation language of the property's "
            "quantifier (14 grammar-aware operators x position x variant); TLC enumerates all 504 one-step plans and samples "
            "three-step plans, which the harness applies to valid texts of every grammar and to TZif files, next to seeded "
            "longer plans, random bytes, a sweep of every strptime directive letter x flag x width over boundary texts, "
            "long inputs and structure-aware TZif mutations. Trace_Parse.tla decides every observation: no panic or hang, "
            "Ok values inside the documented ranges (recomputed from Calendar/Instant/CivilArith), print + re-parse equal, "
            "accepted zones answer every query with in-range offsets, time per KiB bounded, jiff and its jiff-static copy "
            "agree on accepting TZif data.",
            "Exploration: inputs are sampled, not exhausted. Non-termination is detected by a watchdog (20 s without "
            "progress). The time bound uses wall-clock time with a wide margin (5 ms per KiB). Sub-minute offsets cannot "
            "come back from RFC 3339 text (printed to the minute) and are compared to the minute.",
            "TLC-generated mutation plans replayed on the implementation + trace validation of the observations", "DESIGN.md §5 C17"),
}

PENDING_REASON = "check not built yet in this round (planned, see DESIGN.md §5); no claim is made"


def main():
    props = [json.loads(l) for l in open(os.path.join(VERIF, "properties.jsonl")) if l.strip()]
    checks = []
    na = []
    for p in props:
        pid = p["id"]
        if pid in CLAIMED:
            cat, text, note, tech, ref = CLAIMED[pid]
            checks.append({
                "property_id": pid,
                "quick_cmd": f"./check {pid} --tier quick",
                "thorough_cmd": f"./check {pid} --tier thorough",
                "evidence_file": f"/verif/evidence/{pid}.json",
                "replay_cmd_template": f"./check {pid} --replay {{path}}",
                "engine": "tla-trace",
                "level_claimed": {"category": cat, "text": text, "design_ref": ref},
                "level_note": note,
                "technique": tech,
            })
        else:
            na.append({"property_id": pid, "reason": NA.get(pid, PENDING_REASON)})
    m = {
        "version": 1,
        "setup_cmd": "cd /verif/harness && CARGO_NET_OFFLINE=true cargo build --offline --quiet && "
                     "CARGO_NET_OFFLINE=true cargo build --offline --quiet --profile nodebug",
        "hooks": {
            "guard": "--cfg jiff_verif",
            "enable": "RUSTFLAGS='--cfg jiff_verif' (set in /verif/harness/.cargo/config.toml; the harness has a path "
                      "dependency on /repo)",
            "baseline_off_cmd": "cd /repo && cargo nextest run --workspace --no-fail-fast --offline || "
                                "cargo test --workspace --no-fail-fast --offline",
            "source_commits": HOOK_COMMITS,
            "add_only": True,
        },
        "engines": [
            {"name": "tla-trace", "path": "/verif/check", "serves_properties": sorted(CLAIMED),
             "kind_free_text": "TLA+ specification suite (/verif/spec) checked with TLC (one module also with Apalache); Rust harness (/verif/harness) "
                               "drives /repo's working tree and its NDJSON traces are validated against the spec; "
                               "TLC-generated behaviours are replayed on the real code"},
        ],
        "checks": checks,
        "not_applicable": na,
        "notes": "See DESIGN.md. Known findings: KNOWN_FINDINGS.txt (fixed: and known: lines). Seeded breaking changes: seeded/.",
    }
    with open(os.path.join(VERIF, "MANIFEST.json"), "w") as f:
        json.dump(m, f, indent=1)
    print(f"MANIFEST.json: {len(checks)} checks, {len(na)} not_applicable")


NA = {}
HOOK_COMMITS = ["4ffbea9", "708978f", "913b738", "0c1e3e2", "fec59c7", "5da7c19", "8c35995", "0d13253"]

if __name__ == "__main__":
    main()
