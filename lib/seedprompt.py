#!/usr/bin/env python3
import json, sys
pid = sys.argv[1]
variant = sys.argv[2] if len(sys.argv) > 2 else ""
wt = sys.argv[3] if len(sys.argv) > 3 else f"/tmp/seed/{pid}"
p = [json.loads(l) for l in open('/verif/properties.jsonl') if l.strip()]
p = [x for x in p if x['id'] == pid][0]
print(f"""You are helping test a verification effort for the Rust datetime library jiff (BurntSushi/jiff, version 0.2.8 snapshot). Your job: produce ONE realistic code change ("seeded defect") to the library that BREAKS the semantic property stated below, while the library still compiles and its entire existing test suite still passes.

Your scratch git worktree of the repository is: {wt}  (work ONLY there; never touch /repo or /verif; do not read anything under /verif). The sandbox has no network; use `--offline` with cargo.

PROPERTY {pid}: {p['title']}
Statement: {p['statement']}
Quantifier: {p['quantifier']['text']}
Relevant files: {', '.join(p['anchors']['files'])}

Requirements for the change:
1. It must be a plausible mistake or "optimization"/refactoring slip a maintainer could make (off-by-one, wrong comparison, wrong sign handling for negatives, a fast path that is wrong at an edge, dropped check, wrong rounding, narrowing, swapped fields ...), small (a few lines), in the library source (src/ or crates/jiff-static/src or crates/jiff-tzdb), NOT in tests.
2. It must need something SPECIFIC to manifest: an unusual input (e.g. year <= 0, negative fractional second, a particular zone/transition, a type limit, a particular unit mix), a multi-step sequence of operations, a particular interleaving, or two cooperating sites that each look fine alone. Ordinary use must NOT expose it at once. {variant}
3. With the change applied, `cd {wt} && cargo nextest run --workspace --no-fail-fast --offline` must still pass ALL tests (642 tests; takes ~1-2 min the first time since it builds). Doc tests are not part of the suite, but prefer changes that would not break doc tests either. If a test fails, pick a different change (do not edit tests).
4. Write a demonstration: a small standalone Rust program at {wt}/seed_demo/ (its own Cargo.toml with `[workspace]` table, `jiff = {{ path = ".." }}` plus features you need, copy {wt}/Cargo.lock next to it, and a `.cargo/config.toml` with `[net] offline = true`), whose `main` exits 0 when the property holds on your chosen input(s) and exits non-zero (assert/panic) when it is broken. Verify: it FAILS with your change, and PASSES without it (use `git stash` / `git stash pop` on the library change, or `git diff > /tmp/x.diff; git checkout -- src crates; ...; git apply /tmp/x.diff`).
5. Leave the worktree with the change applied (uncommitted) and write the library-only diff to {wt}/seed.patch via `cd {wt} && git diff -- src crates > seed.patch` (the patch must not include seed_demo).

Finally reply with: (a) one-paragraph description of the change and exactly what is needed for it to manifest, (b) the demo's failing output with the change and passing output without, (c) confirmation that all 642 tests pass with the change (paste the nextest summary line). Keep the reply short. Before finishing, delete build outputs to save disk: `rm -rf {wt}/target {wt}/seed_demo/target`.""")
