#!/bin/bash
# seedsweep.sh <seeds...> : run every registered quick check under several seeds; print one line per (check, seed)
cd "$(dirname "$0")/.."
ids=$(python3 -c "import json; print(' '.join(c['property_id'] for c in json.load(open('MANIFEST.json'))['checks']))")
for s in "$@"; do
  for p in $ids; do
    out=$(./check $p --tier quick --seed $s 2>&1); rc=$?
    echo "seed=$s $p rc=$rc $(echo "$out" | grep -c '^VIOLATION') violations; $(echo "$out" | grep '^VIOLATION\|TOOL-ERROR' | head -3 | cut -c1-200 | tr '\n' ';')"
  done
done
