#!/usr/bin/env python3
"""Self-check of the zone oracle (independent TZif/POSIX reader + TzLookup.tla)
against the reference implementation: `zdump -V` (tzcode) prints, for every
transition of a zone, the local time, abbreviation, DST flag and offset one
second before and at the transition.  Each such line becomes an `info` event
(exactly the shape of jiff's observations), placed after the `zone` event the
harness's reader produced from the same file, and Trace_Tz.tla validates the
stream: a mismatch means reader or specification disagree with tzcode."""
import calendar
import json
import re
import subprocess
import sys

MON = {m: i + 1 for i, m in enumerate(["Jan", "Feb", "Mar", "Apr", "May", "Jun", "Jul", "Aug", "Sep", "Oct", "Nov", "Dec"])}
LINE = re.compile(r"^\S+\s+\w{3} (\w{3})\s+(\d+) (\d\d):(\d\d):(\d\d) (-?\d+) UT = \w{3} (\w{3})\s+(\d+) (\d\d):(\d\d):(\d\d) (-?\d+) (\S+) isdst=(\d) gmtoff=(-?\d+)$")
BASE = 10000


def big(v):
    s = (v > 0) - (v < 0)
    v = abs(v)
    m = []
    while v:
        m.append(v % BASE)
        v //= BASE
    return {"s": s, "m": m}


def events(jv, names, lo=1800, hi=2500):
    out = []
    zones = subprocess.run([jv, "zoneevents"] + names, stdout=subprocess.PIPE, text=True, check=True).stdout.splitlines()
    for zl in zones:
        z = json.loads(zl)
        name = z.get("name") or z.get("src")
        out.append(zl)
        txt = subprocess.run(["zdump", "-V", "-c", f"{lo},{hi}", z["name"]], stdout=subprocess.PIPE, text=True).stdout
        for line in txt.splitlines():
            m = LINE.match(line.strip())
            if not m:
                continue
            mo, d, H, M, S, y, lmo, ld, lH, lM, lS, ly, ab, dst, off = m.groups()
            y = int(y)
            if y < 1 or y > 9998:
                continue
            sec = calendar.timegm((y, MON[mo], int(d), int(H), int(M), int(S), 0, 0, 0))
            out.append(json.dumps({"op": "info", "cls": "zdump", "st": "ok", "nye": 0, "sec": big(sec), "ns": 0, "off": int(off), "off2": int(off),
                                   "dst": int(dst), "ab": ab, "civil": [int(ly), MON[lmo], int(ld), int(lH), int(lM), int(lS), 0]}))
    return out


if __name__ == "__main__":
    # zdump_oracle.py JV OUTDIR NAME...   -> OUTDIR/zdump-NNNN.ndjson, 40 zones per file (one TLC process each)
    import os
    jv, outdir = sys.argv[1], sys.argv[2]
    names = sys.argv[3:]
    os.makedirs(outdir, exist_ok=True)
    for k in range(0, len(names), 40):
        with open(os.path.join(outdir, f"zdump-{k // 40:04d}.ndjson"), "w") as f:
            for l in events(jv, names[k:k + 40]):
                f.write(l + "\n")
