#!/bin/bash
# seedtest.sh <seed-id> <Cxx> [more Cxx...]: apply a seeded change to /repo, run the quick checks, undo it.
id=$1; shift
cd /verif
git -C /repo status --short | grep -q . && { echo "repo dirty"; exit 2; }
git -C /repo apply --check /verif/seeded/$id/patch.diff 2>/dev/null && git -C /repo apply /verif/seeded/$id/patch.diff || { git -C /repo apply --3way /verif/seeded/$id/patch.diff 2>/dev/null || { git -C /repo reset -q --hard HEAD; echo "patch does not apply"; exit 2; }; }
if grep -rq "^<<<<<<< " /repo/src /repo/crates 2>/dev/null; then git -C /repo reset -q --hard HEAD; echo "patch conflicts"; exit 2; fi
git -C /repo reset -q 2>/dev/null
for c in "$@"; do
  ./check $c --tier quick > /tmp/seedtest.$id.$c.log 2>&1; rc=$?
  echo "seed=$id check=$c rc=$rc $(grep -c '^VIOLATION' /tmp/seedtest.$id.$c.log) violation lines; $(grep '^VIOLATION' /tmp/seedtest.$id.$c.log | head -3 | sed 's/.*# //' | tr '\n' ';')"
  grep -E "TOOL-ERROR" -A5 /tmp/seedtest.$id.$c.log | head -8
done
git -C /repo reset -q --hard HEAD; git -C /repo status --short
# evidence written while a seed was applied is not evidence about the real tree
git -C /verif checkout -q -- evidence 2>/dev/null
