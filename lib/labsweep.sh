#!/bin/bash
# labsweep.sh [njobs]: every seed under seeded/ against the checks its meta.json names, in scratch laboratories
# (/tmp/mutlab-<k>), njobs at a time; one line per (seed, check); /repo is never touched.
cd "$(dirname "$0")/.."
n=${1:-3}
rm -f /tmp/labsweep.q* /tmp/labsweep.out*
python3 - <<'PY' > /tmp/labsweep.list
import json,glob,os
for d in sorted(glob.glob('seeded/*/meta.json')):
    m=json.load(open(d))
    print(os.path.basename(os.path.dirname(d)), ' '.join(m.get('expected_to_be_caught_by',[])))
PY
for k in $(seq 1 $n); do LAB=/tmp/mutlab-$k bash lib/mutlab.sh setup; done
k=0
while read -r id checks; do
  k=$(( k % n + 1 ))
  echo "$id $checks" >> /tmp/labsweep.q$k
done < /tmp/labsweep.list
for k in $(seq 1 $n); do
  ( while read -r id checks; do LAB=/tmp/mutlab-$k bash lib/labtest.sh $id $checks; done < /tmp/labsweep.q$k ) > /tmp/labsweep.out$k 2>&1 &
done
wait
cat /tmp/labsweep.out* | grep "^labtest" | sort
for k in $(seq 1 $n); do LAB=/tmp/mutlab-$k bash lib/mutlab.sh destroy; rm -f /tmp/labsweep.q$k /tmp/labsweep.out$k; done
