#!/usr/bin/env python3
"""Self-check of Strtime.tla against the C library: events whose text comes
from glibc's strftime (through Python's time.strftime), to be validated by
Trace_Strtime.tla exactly like events from jiff.  The tm_wday / tm_yday that
strftime needs are computed by Python's datetime, so nothing in an event comes
from jiff or from the spec.  Only the part of the directive language where
jiff documents C behaviour is used (see DESIGN.md, C16)."""
import datetime
import json
import random
import sys
import time

NUM = list("dejHIklMmSUWVuwYGyg") + ["C"]
NAMES = list("AaBbh")
COMPOSITE = list("DFRT")
LIT = ["%", "n", "t"]


def events(n, seed):
    rnd = random.Random(seed)
    out = []
    for i in range(n):
        if i % 3 == 0:
            y = rnd.choice([1000, 1582, 1899, 1900, 1969, 1970, 1999, 2000, 2024, 2068, 2069, 2100, 2400, 9999]) if i % 2 else rnd.randint(1969, 2068)
            m, d = rnd.choice([(1, 1), (1, 2), (1, 3), (1, 4), (1, 5), (1, 6), (1, 7), (12, 25), (12, 26), (12, 27), (12, 28), (12, 29), (12, 30), (12, 31), (2, 28), (3, 1)])
        else:
            y = rnd.randint(1000, 9999)
            m = rnd.randint(1, 12)
            d = rnd.randint(1, 28)
        date = datetime.date(y, m, d)
        H, M, S = rnd.choice([0, 1, 11, 12, 13, 23, rnd.randint(0, 23)]), rnd.randint(0, 59), rnd.randint(0, 59)
        tm = (y, m, d, H, M, S, date.weekday(), date.timetuple().tm_yday, 0)
        iso_year = date.isocalendar()[0]
        kind = rnd.randint(0, 9)
        if kind < 6:
            c = rnd.choice(NUM)
            flag = rnd.choice(["", "", "_", "0", "-"])
            # jiff documents the width as the minimum padding and pads %u %w %C with blanks; glibc keeps a
            # directive's own minimum and pads those with zeros: only widths both define alike are compared
            dflt = 3 if c == "j" else 4 if c in "YG" else 2
            width = "" if (flag == "-" or c in "Cuw") else rnd.choice(["", ""] + [w for w in ["2", "3", "5", "9", "12"] if int(w) >= dflt])
        elif kind < 8:
            c = rnd.choice(NAMES + ["p", "P"])
            flag = rnd.choice(["", "^"]) if c != "P" else ""
            if c == "p":
                flag = rnd.choice(["", "^", "#"])
            width = ""
        elif kind < 9:
            c, flag, width = rnd.choice(COMPOSITE), "", ""
        else:
            c, flag, width = rnd.choice(LIT), "", ""
        if c in ("y", "D") and not 1969 <= y <= 2068:
            continue
        if c == "g" and not 1969 <= iso_year <= 2068:
            continue
        if c == "G" and iso_year < 1000:
            continue
        fmt = "%" + flag + width + c
        # a literal prefix and suffix keep Python from special-casing an empty result
        text = time.strftime("<" + fmt + ">", tm)[1:-1]
        out.append({"op": "glibc", "cls": "glibc", "v": {"k": 3, "f": [y, m, d, H, M, S, 0], "off": 0, "abbr": [], "iana": [], "wdo": 0},
                    "fmt": [ord(ch) for ch in fmt], "sfmt": fmt, "out": [ord(ch) for ch in text], "s": text})
    return out


if __name__ == "__main__":
    path, n, seed = sys.argv[1], int(sys.argv[2]), int(sys.argv[3])
    with open(path, "w") as f:
        for e in events(n, seed):
            f.write(json.dumps(e) + "\n")
