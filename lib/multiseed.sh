#!/bin/bash
# multiseed.sh <seed>...: every quick check for each of the given seeds, in a scratch laboratory on an unchanged copy
# of /repo (so that /verif/work and /verif/evidence stay free for other runs); one line per (seed, property).
export LAB=/tmp/mutlab-seeds
bash /verif/lib/mutlab.sh setup
ids=$(python3 -c "import json; print(' '.join(c['property_id'] for c in json.load(open('/verif/MANIFEST.json'))['checks']))")
for s in "$@"; do
  for p in $ids; do
    out=$(cd $LAB/verif && ./check $p --tier quick --seed $s 2>&1); rc=$?
    echo "seed=$s $p rc=$rc $(echo "$out" | grep -E '^VIOLATION|TOOL-ERROR|BEYOND-PROPERTY|\[done\]' | head -4 | cut -c1-200 | tr '\n' ';')"
  done
done
bash /verif/lib/mutlab.sh destroy
