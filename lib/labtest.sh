#!/bin/bash
# labtest.sh <seed-id> <Cxx> [more Cxx...]: like seedtest.sh, but in the scratch laboratory (lib/mutlab.sh setup first),
# so /repo is never touched. Prints one line per check.
id=$1; shift
L=${LAB:-/tmp/mutlab}
[ -d $L/repo ] || bash /verif/lib/mutlab.sh setup
git -C $L/repo reset -q --hard HEAD
git -C $L/repo apply /verif/seeded/$id/patch.diff || git -C $L/repo apply --3way /verif/seeded/$id/patch.diff || { echo "patch does not apply"; exit 2; }
git -C $L/repo reset -q
for p in "$@"; do
  out=$(cd $L/verif && ./check $p --tier quick --seed ${SEED:-1} 2>&1); rc=$?
  echo "$out" > /tmp/seedtest.$id.$p.log
  echo "labtest $id $p rc=$rc $(echo "$out" | grep -c '^VIOLATION') violation lines; $(echo "$out" | grep '^VIOLATION' | head -3 | sed 's/.*# //' | cut -c1-150 | tr '\n' ';')"
  [ $rc -ge 2 ] && echo "$out" | grep -E "TOOL-ERROR" -A8 | head -12
done
git -C $L/repo reset -q --hard HEAD
