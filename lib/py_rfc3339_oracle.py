#!/usr/bin/env python3
"""Self-check of Rfc3339.tla (the independent reader of C09) against Python's datetime:
events whose decoded value comes from datetime.fromisoformat (CPython 3.11+), to be validated by
Trace_Text.tla exactly like events from jiff (ops rd_ts / rd_dt).  Nothing in an event comes from
jiff or from the spec.  Years 1..9999, separators 'T' / 't' / ' ', fractions of 0, 3 or 6 digits
(what fromisoformat reads exactly), offsets Z / +hh:mm / +hh:mm:ss up to +-23:59:59."""
import datetime
import json
import random
import sys

EPOCH = datetime.datetime(1970, 1, 1, tzinfo=datetime.timezone.utc)


def big(n):
    s = 1 if n > 0 else -1 if n < 0 else 0
    n = abs(n)
    m = []
    while n:
        m.append(n % 10000)
        n //= 10000
    return {"m": m, "s": s}


def events(n, seed):
    rnd = random.Random(seed)
    out = []
    for i in range(n):
        y = rnd.choice([1, 2, 1582, 1969, 1970, 2024, 9998, 9999]) if i % 4 == 0 else rnd.randint(1, 9999)
        mo = rnd.randint(1, 12)
        dim = [31, 29 if (y % 4 == 0 and y % 100 != 0) or y % 400 == 0 else 28, 31, 30, 31, 30, 31, 31, 30, 31, 30, 31][mo - 1]
        d = rnd.choice([1, dim, rnd.randint(1, dim)])
        H, M, S = rnd.choice([0, 23, rnd.randint(0, 23)]), rnd.randint(0, 59), rnd.randint(0, 59)
        fd = rnd.choice([0, 0, 3, 6])
        frac = rnd.randint(0, 10 ** fd - 1) if fd else 0
        sep = rnd.choice(["T", "t", " ", "T"])
        text = f"{y:04d}-{mo:02d}-{d:02d}{sep}{H:02d}:{M:02d}:{S:02d}" + (f".{frac:0{fd}d}" if fd else "")
        with_off = i % 3 != 0
        if with_off:
            k = rnd.randint(0, 5)
            if k == 0:
                off_txt, off = "Z", 0
            else:
                o = rnd.randint(0, 23 * 3600 + 59 * 60 + 59) if k == 1 else rnd.choice([0, 1800, 3600, 19800, 20700, 45900, 50400]) + 0
                if k != 1:
                    o -= o % 60
                sign = rnd.choice([1, -1])
                hh, mm, ss = o // 3600, o % 3600 // 60, o % 60
                off_txt = ("+" if sign > 0 else "-") + f"{hh:02d}:{mm:02d}" + (f":{ss:02d}" if ss else "")
                off = sign * o
            text += off_txt
        try:
            # fromisoformat does not take 't' or 'Z' in every version: normalise what is not under test here
            dt = datetime.datetime.fromisoformat(text.replace("t", "T").replace("Z", "+00:00"))
        except ValueError:
            continue
        codes = [ord(c) for c in text]
        if with_off:
            delta = dt - EPOCH
            total_us = (delta.days * 86400 + delta.seconds) * 10 ** 6 + delta.microseconds
            ns = total_us * 1000
            sec = abs(ns) // 10 ** 9 * (1 if ns >= 0 else -1)
            rns = abs(ns) % 10 ** 9 * (1 if ns >= 0 else -1)
            # jiff's Timestamp range: -9999-01-02T01:59:59Z .. 9999-12-30T22:00:00Z
            st = "ok" if -377705023201 * 10 ** 9 <= ns <= 253402207200 * 10 ** 9 + 999999999 else "err"
            re = {"st": "ok", "rsec": big(sec), "rns": rns} if st == "ok" else {"st": "err"}
            out.append({"op": "rd_ts", "cls": "python-oracle", "scope": "property", "text": codes, "s": text, "re": re})
        else:
            out.append({"op": "rd_dt", "cls": "python-oracle", "scope": "property", "text": codes, "s": text,
                        "re": [dt.year, dt.month, dt.day, dt.hour, dt.minute, dt.second, dt.microsecond * 1000]})
    return out


if __name__ == "__main__":
    path, n, seed = sys.argv[1], int(sys.argv[2]), int(sys.argv[3])
    with open(path, "w") as f:
        for e in events(n, seed):
            f.write(json.dumps(e, separators=(",", ":")) + "\n")
