#!/usr/bin/env python3
"""Self-check of Calendar.tla (C01) against Python's datetime / calendar modules: "date" events whose
facts all come from Python (proleptic Gregorian calendar, ISO 8601 weeks), to be validated by Trace_C01.tla
exactly like events from jiff.  Years 2..9998 (Python's own range, minus one year at each end so that
yesterday / tomorrow exist)."""
import calendar
import datetime
import json
import random
import sys

EPOCH = datetime.date(1970, 1, 1)


def event(dt):
    y, m, d = dt.year, dt.month, dt.day
    leap = calendar.isleap(y)
    doy = dt.timetuple().tm_yday
    if leap and m == 2 and d == 29:
        doynl = 0
    elif leap and doy > 60:
        doynl = doy - 1
    else:
        doynl = doy
    dim = calendar.monthrange(y, m)[1]
    iso = dt.isocalendar()
    n = (dt - EPOCH).days
    tom = dt + datetime.timedelta(days=1)
    yes = dt - datetime.timedelta(days=1)
    j = lambda x: [x.year, x.month, x.day]
    return {"op": "date", "cls": "python-oracle", "y": y, "m": m, "d": d, "st": "ok",
            "getters": [y, m, d], "wd": dt.isoweekday(), "doy": doy, "doynl": doynl, "dim": dim,
            "diy": 366 if leap else 365, "leap": leap, "tom": j(tom), "yes": j(yes),
            "fom": [y, m, 1], "lom": [y, m, dim], "foy": [y, 1, 1], "loy": [y, 12, 31],
            "iso": [iso[0], iso[1], iso[2]], "isoback": [y, m, d], "eday": n, "durh": 24 * n, "durrem": 0,
            "tsday": n, "tsrem": 0, "fromday": [y, m, d]}


def events(n, seed):
    rnd = random.Random(seed)
    out = []
    # every day of a few years (leap, common, century, year ends of every ISO-week shape), then seeded days
    for y in [2, 4, 100, 400, 1582, 1600, 1900, 1970, 2000, 2020, 2021, 2024, 2026, 9998]:
        d = datetime.date(y, 1, 1)
        while d.year == y and len(out) < n // 2:
            out.append(event(d))
            d += datetime.timedelta(days=1)
    lo, hi = datetime.date(2, 1, 1).toordinal(), datetime.date(9998, 12, 31).toordinal()
    while len(out) < n:
        out.append(event(datetime.date.fromordinal(rnd.randint(lo, hi))))
    return out


if __name__ == "__main__":
    path, n, seed = sys.argv[1], int(sys.argv[2]), int(sys.argv[3])
    with open(path, "w") as f:
        for e in events(n, seed):
            f.write(json.dumps(e, separators=(",", ":")) + "\n")
