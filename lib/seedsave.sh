#!/bin/bash
# seedsave.sh <worktree> <seed-id>: copy a sub-agent's patch + demo into /verif/seeded/<seed-id>/ (unverified yet)
set -e
wt=$1; id=$2; dst=/verif/seeded/$id
mkdir -p $dst
cp $wt/seed.patch $dst/patch.diff
rm -rf $dst/demo; mkdir -p $dst/demo
(cd $wt/seed_demo && tar cf - --exclude=target --exclude=Cargo.lock . ) | (cd $dst/demo && tar xf -)
ls -la $dst $dst/demo
