#!/bin/bash
# thoroughsweep.sh [ids...]: run the thorough tier of every (or the given) registered check once; one line each
cd "$(dirname "$0")/.."
ids="$@"
[ -z "$ids" ] && ids=$(python3 -c "import json; print(' '.join(c['property_id'] for c in json.load(open('MANIFEST.json'))['checks']))")
for p in $ids; do
  t0=$(date +%s)
  out=$(./check $p --tier thorough --seed 0 2>&1); rc=$?
  t1=$(date +%s)
  echo "thorough $p rc=$rc $((t1-t0))s $(echo "$out" | grep -c '^VIOLATION') violations; $(echo "$out" | grep '^VIOLATION\|TOOL-ERROR\|\[done\]' | head -4 | cut -c1-220 | tr '\n' ';')"
done
