#!/usr/bin/env python3
"""C05: zip the event streams of the same deterministic driver run under two
builds into one stream whose events carry both results."""
import json
import os
import sys


def merge(dir_a, dir_b, out_dir, stem="c05"):
    sa = json.load(open(os.path.join(dir_a, f"{stem}.summary.json")))
    sb = json.load(open(os.path.join(dir_b, f"{stem}.summary.json")))
    if sa["events"] != sb["events"] or len(sa["files"]) != len(sb["files"]):
        raise SystemExit(f"the two builds made a different number of calls: {sa['events']} vs {sb['events']}")
    os.makedirs(out_dir, exist_ok=True)
    files = []
    for fa, fb in zip(sa["files"], sb["files"]):
        fo = os.path.join(out_dir, os.path.basename(fa))
        with open(fa) as a, open(fb) as b, open(fo, "w") as o:
            for la, lb in zip(a, b):
                ea, eb = json.loads(la), json.loads(lb)
                if (ea["api"], ea["args"]) != (eb["api"], eb["args"]):
                    raise SystemExit(f"the two builds diverged: {ea['api']} {ea['args']} vs {eb['api']} {eb['args']}")
                o.write(json.dumps({"op": "call", "cls": ea["cls"], "api": ea["api"], "args": ea["args"],
                                    "dbg": {k: ea[k] for k in ("st", "kind", "val", "msg")},
                                    "rel": {k: eb[k] for k in ("st", "kind", "val", "msg")}}) + "\n")
        files.append(fo)
    s = dict(sa)
    s["files"] = files
    json.dump(s, open(os.path.join(out_dir, f"{stem}.summary.json"), "w"))
    return s


if __name__ == "__main__":
    merge(*sys.argv[1:4])
