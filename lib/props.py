"""One function per property: which models TLC checks, which drivers run,
which trace spec validates their events."""
import json
import os
import re
import subprocess
import sys

from vlib import (VERIF, Check, ToolError, TRUSTED, build_harness, log, run_driver, tlc_mc, tlc_simulate, tlc_trace,
                  workdir)

REGISTRY = {}


def prop(pid):
    def deco(fn):
        REGISTRY[pid] = fn
        return fn
    return deco


def drive_and_validate(c, a, binary, driver, tracespec, extra=(), env=None, trace_env=None, stem=None):
    """driver -> NDJSON shards -> trace spec.  With --replay the driver
    re-executes exactly the recorded cases."""
    wd = os.path.join(workdir(c.pid, fresh=False), stem or driver)
    ex = list(extra)
    if stem:
        ex += ["--stem", stem]
    if a.replay:
        ex += ["--replay", a.replay]
    s = run_driver(binary, driver, wd, a.tier, a.seed, ex, env=env)
    c.add_summary(s)
    if s["files"]:
        results, mism = tlc_trace(tracespec, s["files"], c.pid, env=trace_env)
        c.add_trace(results, mism, driver_cmd=f"jv {driver} --tier {a.tier} --seed {a.seed} " + " ".join(extra))
    return s


@prop("C01")
def c01(a):
    c = Check("C01", a.tier, a.seed)
    workdir("C01")
    binary = build_harness()
    if not a.replay:
        # Engine C: the successor machine validates every closed form of Calendar.tla
        r = tlc_mc("CalendarWalk.tla", "MC_CalendarWalk.cfg", os.path.join(workdir("C01", False), "mc"))
        c.add_mc(r)
        if r["ok"] and r["distinct"] != 7304484:
            raise ToolError(f"CalendarWalk visited {r['distinct']} states, expected 7304484")
        # Calendar.tla checks itself against Python's datetime / calendar before it judges jiff
        import subprocess, sys
        wd = os.path.join(workdir("C01", False), "pyoracle")
        os.makedirs(wd, exist_ok=True)
        trace = os.path.join(wd, "python.ndjson")
        subprocess.run([sys.executable, os.path.join(VERIF, "lib", "py_calendar_oracle.py"), trace,
                        str(12000 if a.tier == "quick" else 400000), str(a.seed)], check=True)
        pres, mism = tlc_trace("Trace_C01.tla", [trace], "C01")
        if mism:
            raise ToolError(f"Calendar.tla disagrees with Python's calendar on {len(mism)} dates, e.g. {(mism[0][3] or {}).get('getters')}: {mism[0][2]}")
        nn = sum(1 for _ in open(trace))
        c.add_summary({"stem": "python", "events": nn, "files": [trace], "classes": {"python-oracle": nn}, "distinct_nontrivial": 0, "samples": {}})
    drive_and_validate(c, a, binary, "c01", "Trace_C01.tla")
    c.exhaustive = a.tier == "thorough" and not a.replay
    c.rule = ("Engine C: all 7,304,484 states of the calendar successor machine, each checked against every "
              "closed form of Calendar.tla. Engine A: one event per (date | month | nth-weekday query | ISO triple | "
              "constructor triple) observed through jiff's public API and through the jiff-static copy of the "
              "shared code, validated by Trace_C01.tla; quick = all days of 27 boundary years, year-edge and "
              "Feb-end windows of all 19,999 years, seeded random dates; thorough = every date, month, ISO "
              "triple and constructor triple. Non-trivial = class tag other than 'plain' (year<=0, limit year, "
              "Feb end, year edge, invalid constructor triple, ISO edge week, far nth); distinct = distinct "
              "serialized events.")
    c.assumptions = TRUSTED
    return c.finish()


@prop("C02")
def c02(a):
    c = Check("C02", a.tier, a.seed)
    workdir("C02")
    binary = build_harness()
    if not a.replay:
        c.add_mc(tlc_mc("MC_BigInt.tla", "MC_BigInt.cfg", os.path.join(workdir("C02", False), "mc"), workers=4))
        # the instant <-> civil mapping of Instant.tla itself against the statement (shift by the offset, invertible)
        c.add_mc(tlc_mc("MC_Instant.tla", "MC_Instant.cfg", os.path.join(workdir("C02", False), "mc2"), workers=4))
    drive_and_validate(c, a, binary, "c02", "Trace_C02.tla")
    c.rule = ("Engine C: BigInt.tla (the limb arithmetic every conversion below uses) model-checked against native "
              "arithmetic; MC_Instant: the specification's own instant <-> civil mapping is a shift by exactly the offset, "
              "invertible, and consistent with the API's (seconds, nanoseconds) form, on a grid at the edges. Engine A: events ts_civil (Offset::to_datetime, Timestamp::to_zoned(fixed), and both inverse "
              "routes), civil_ts, ts_new, ts_from (4 units), ts_views, validated by Trace_C02.tla which does every floor "
              "division itself. quick = day boundary -1ns/0/+1ns for ~47k days (Jan 1 and Mar 1 of every year, +-1500 "
              "days around the epoch, 800 days at each range end, seeded) x rotating offsets, seconds of days -1/0 and of "
              "both range-end days, negative-fraction slices, limit timestamps x 16 offsets, constructor limit grids and "
              "seeded tuples; thorough = every one of the 7.3M day boundaries, every second of the 4 days, 2M seeded "
              "pairs. Non-trivial = class other than 'plain' (pre-epoch, negative fraction, limits, mixed-sign "
              "constructor arguments, out-of-range inputs).")
    c.assumptions = TRUSTED
    return c.finish()


def compile_zones(pid):
    """zic-compile the synthetic zones (slim and fat) into the work dir."""
    import subprocess
    zd = os.path.join(workdir(pid, fresh=False), "zones")
    for mode in ("slim", "fat"):
        p = subprocess.run(["zic", "-d", os.path.join(zd, mode), "-b", mode,
                            os.path.join(os.path.dirname(os.path.dirname(os.path.abspath(__file__))), "zones", "verif.zi")],
                           stdout=subprocess.PIPE, stderr=subprocess.STDOUT, text=True)
        if p.returncode != 0:
            raise ToolError("zic failed: " + p.stdout)
    return zd


TZ_RULE = ("Each zone (all distinct installed zoneinfo files, zic-compiled synthetic zones in slim and fat form, fixed and "
           "grammar-generated POSIX TZ strings; thorough adds the bundled tzdb, the right/ leap-second files and 2000 "
           "generated POSIX strings) is read by the harness's independent TZif/POSIX reader into the abstract zone of "
           "TzLookup.tla and installed by a 'zone' event; every following event is an observation of jiff on that zone, "
           "recomputed by Trace_Tz.tla from the definitional semantics. ")


def tz_property(a, pid, driver, rule_text, extra=()):
    c = Check(pid, a.tier, a.seed)
    workdir(pid)
    binary = build_harness()
    zd = compile_zones(pid)
    ex = ["--zones", zd] + list(extra)
    if a.replay:
        # zone-bound events are replayed by re-running the driver on the zones of the recorded cases
        zones = sorted({(cs.get("event") or {}).get("_zone") for cs in json.load(open(a.replay)).get("cases", [])} - {None})
        a.replay = None
        for z in zones[:8]:
            drive_and_validate(c, a, binary, driver, "Trace_Tz.tla", extra=ex + ["--zone", z], stem=f"{driver}-{len(c.mc_runs)}-{zones.index(z)}")
    else:
        # Engine C: the operators of TzLookup.tla against their plain definitions on every zone of a tiny universe
        cfg = "MC_TzLookup.cfg" if a.tier == "quick" else "MC_TzLookup_thorough.cfg"
        r = tlc_mc("MC_TzLookup.tla", cfg, os.path.join(workdir(pid, False), "mc"))
        c.add_mc(r)
        if pid == "C03":
            # oracle self-check: the independent reader + TzLookup.tla against tzcode's zdump on the system zones
            import shutil as _sh
            if _sh.which("zdump"):
                names = ["America/New_York", "Europe/London", "Australia/Lord_Howe", "Africa/Monrovia", "Asia/Kathmandu", "Pacific/Apia",
                         "America/St_Johns", "Europe/Dublin", "Africa/Casablanca", "Antarctica/Troll", "Asia/Tehran", "Pacific/Kiritimati"]
                if a.tier != "quick":
                    zi = "/usr/share/zoneinfo"
                    names = sorted({os.path.relpath(os.path.join(dp, f), zi) for dp, _, fs in os.walk(zi) for f in fs
                                    if "/posix" not in dp and "/right" not in dp and open(os.path.join(dp, f), "rb").read(4) == b"TZif"})
                wdz = os.path.join(workdir(pid, False), "zdump")
                os.makedirs(wdz, exist_ok=True)
                subprocess.run([sys.executable, os.path.join(VERIF, "lib", "zdump_oracle.py"), binary, wdz] + names, check=True)
                trs = sorted(os.path.join(wdz, f) for f in os.listdir(wdz) if f.endswith(".ndjson"))
                tr = trs[0]
                _, zm = tlc_trace("Trace_Tz.tla", trs, pid)
                if zm:
                    raise ToolError(f"the zone oracle (independent reader + TzLookup.tla) disagrees with zdump on {len(zm)} observations, "
                                    f"e.g. {zm[0][2]}: {json.dumps(zm[0][3])[:300]}")
                n = sum(sum(1 for _ in open(t)) for t in trs)
                c.add_summary({"stem": "zdump", "events": n, "files": trs, "classes": {"zdump-oracle": n}, "distinct_nontrivial": 0, "samples": {}})
        drive_and_validate(c, a, binary, driver, "Trace_Tz.tla", extra=ex)
    c.rule = TZ_RULE + rule_text
    c.assumptions = TRUSTED + ["the harness's independent TZif / POSIX TZ readers (tzread.rs; no jiff code)",
                               "zic (compiles the synthetic zones)"]
    return c.finish()


@prop("C03")
def c03(a):
    return tz_property(a, "C03", "c03",
                       "C03 events: to_offset_info/to_offset/to_datetime at T-1s, T-1ns, T-0.5s, T, T+1ns, T+1s for every "
                       "explicit transition T and for the rule transitions of selected years (thorough: every year to 9999), "
                       "Timestamp::MIN/MAX, seeded instants. Non-trivial = class other than 'plain' (fraction before a "
                       "transition, pre-epoch, rule years, limits).")


@prop("C04")
def c04(a):
    return tz_property(a, "C04", "c04",
                       "C04 events: to_ambiguous_timestamp classification, the four strategies, TimeZone::to_timestamp, "
                       "DateTime::to_zoned and the displayed civil time, for nine probes around the local window of every "
                       "transition (start-1s, start-1ns, start, start+1ns, middle, end-1ns, end, end+1ns, end+1s), the "
                       "extreme civil datetimes and seeded civils. The expected classification is definitional: the set "
                       "of offsets o such that the instant (civil - o) displays the civil time.")


@prop("C14")
def c14(a):
    return tz_property(a, "C14", "c14",
                       "C14 events: following()/preceding() from starts on, +-1ns, +-0.5s, +-1s around every transition "
                       "(two items each), walks from Timestamp::MIN/MAX, across the table/rule hand-over and in the last "
                       "years of the range; every yielded item must be strictly beyond the previous position, no real "
                       "change may lie in between, the item must be a change or a recorded transition and carry the "
                       "info in force from it on; a finished iterator must have no change left. Iterators are driven with "
                       "an item bound and a no-progress guard (a non-terminating iterator is a violation, not a hang).",
                       extra=["--right", "1"] + (["--max-bundled", "80"] if a.tier == "quick" else []))


@prop("C08")
def c08(a):
    c = Check("C08", a.tier, a.seed)
    workdir("C08")
    binary = build_harness()
    drive_and_validate(c, a, binary, "c08", "Trace_Civil.tla")
    c.rule = ("Events date_add / dt_add (checked_add, checked_sub, saturating_add with spans of any unit mix, both signs, "
              "magnitudes 1, 2^k, 2^k+-1, limit, limit-1), a month-end clamping grid (every day >= 28 x months -14..14 x "
              "years 0,+-1,4), dur_add (SignedDuration and std Duration on DateTime, Date and Time incl. i64 extremes), "
              "time_add (wrapping/checked/saturating, hour thresholds around 2^63 ns) and series items; every result is "
              "recomputed by CivilArith.tla on day counts and exact BigInt nanoseconds. Non-trivial = class other than "
              "'plain' (units at their limits, negative, wide, clamping grid, huge durations).")
    c.assumptions = TRUSTED
    return c.finish()


@prop("C10")
def c10(a):
    c = Check("C10", a.tier, a.seed)
    workdir("C10")
    binary = build_harness()
    if not a.replay:
        c.add_mc(tlc_mc("MC_Round.tla", "MC_Round.cfg", os.path.join(workdir("C10", False), "mc"), workers=8))
        c.add_mc(tlc_mc("MC_BigInt.tla", "MC_BigInt.cfg", os.path.join(workdir("C10", False), "mc2"), workers=4))
        # the same statement for EVERY integer and EVERY positive increment, symbolically (Apalache / SMT)
        from vlib import apalache_check
        c.add_mc(apalache_check("AP_Round.tla", "Inv", os.path.join(workdir("C10", False), "apalache")))
    drive_and_validate(c, a, binary, "c10", "Trace_Civil.tla")
    zoned_part(c, a, binary, "c10z")
    c.rule = ("Engine C: AP_Round.tla (Apalache, SMT): for every integer x and every increment >= 1 the transcription of jiff's "
              "RoundMode::round satisfies the declarative definition and no neighbouring multiple does (MC_Round ties the typed "
              "copy to Round.tla). MC_Round.tla shows, for all |x| <= 130, increments 1..13 and the 9 modes, that exactly one multiple "
              "satisfies the declarative RoundOk, that the transcription of jiff's RoundMode::round computes it, and that "
              "the BigInt form agrees with the native one. Engine A: round_time / round_dt / round_ts / round_sd / round_off "
              "events over every legal increment of every unit x 9 modes x values at exact multiples, midpoints and +-1ns "
              "around both, years <= 0, type limits, negative values, plus illegal increments and units; the expected result "
              "is the neighbour multiple selected by RoundOk (neighbours located from floor(x/inc) sent by the harness and "
              "verified by multiplication). Zoned rounding is validated by the C13/C06 zoned driver.")
    c.assumptions = TRUSTED
    return c.finish()


@prop("C07")
def c07(a):
    c = Check("C07", a.tier, a.seed)
    workdir("C07")
    binary = build_harness()
    if not a.replay:
        # Engine C: the span the specification expects from Zoned::until has the properties C07 states, for every zone
        # of a tiny universe (gaps, folds, set-backs across midnight at a month end) x every ordered pair of probes
        c.add_mc(tlc_mc("MC_ZonedUntil.tla", "MC_ZonedUntil.cfg" if a.tier == "quick" else "MC_ZonedUntil_thorough.cfg",
                        os.path.join(workdir("C07", False), "mc")))
        # ... and the same for the civil difference: every ordered pair of dates of a 15-month window x largest unit
        c.add_mc(tlc_mc("MC_CivilUntil.tla", "MC_CivilUntil.cfg", os.path.join(workdir("C07", False), "mc2")))
    drive_and_validate(c, a, binary, "c07", "Trace_Civil.tla")
    # zoned differences: same law on zoned values (driver zd.rs)
    zoned_part(c, a, binary, "c07z")
    c.rule = ("until / since / duration_until of Date, DateTime, Time and Timestamp for ordered pairs biased to month ends, "
              "leap days, equal-or-crossing times of day, both directions and type limits x every largest unit; the spec "
              "computes the expected span exactly (Temporal's surpass criterion on the unclamped year-month-day for months "
              "and years, exact BigInt nanoseconds for time units), checks a + s = b with its own addition, the negation "
              "law for since, the exact distance for duration_until and Err exactly when the span does not fit the unit "
              "limits. Zoned pairs straddling gaps/folds are produced by the zoned driver (incl. both sides of every set-back "
              "of the clock that crosses midnight). MC_ZonedUntil model-checks the expected zoned difference itself against "
              "the property (reversible, one sign, nothing above the largest unit) on a tiny universe of zones.")
    c.assumptions = TRUSTED
    return c.finish()


def zoned_part(c, a, binary, driver, extra=()):
    """Run a zoned driver (zd.rs) and validate it with Trace_Zoned.tla."""
    zd = compile_zones(c.pid)
    ex = ["--zones", zd] + list(extra)
    if a.replay:
        return   # zoned cases are replayed through the zone-restricted driver by the owning property
    drive_and_validate(c, a, binary, driver, "Trace_Zoned.tla", extra=ex)


ZONED_RULE = ("Zoned events run on ~44 zones (30 chosen for odd behaviour: half-hour DST, negative DST, midnight gaps and "
              "folds, date-line jumps, sub-minute LMT; plus a seeded sample, the synthetic zones and POSIX strings; thorough: "
              "all zones), from instants within +-2 days of transitions, month ends, Feb 29 and the range limits. Every "
              "reported Zoned is first checked for well-formedness (offset = zone's offset at the instant, civil = instant "
              "+ offset). ")


@prop("C06")
def c06(a):
    c = Check("C06", a.tier, a.seed)
    workdir("C06")
    binary = build_harness()
    if not a.replay:
        # Engine C: the start of a civil day that the trace specification expects is the least instant with that
        # civil date, for every zone of the tiny universe of MC_ZonedUntil (gaps and set-backs across midnight)
        c.add_mc(tlc_mc("MC_ZonedUntil.tla", "MC_ZonedDay.cfg", os.path.join(workdir("C06", False), "mc")))
    zoned_part(c, a, binary, "c06")
    c.rule = ZONED_RULE + ("C06 events: checked_add / checked_sub / saturating_add with spans (single units, 2- and 3-unit "
              "mixes, magnitudes 1, 2, 12, 13, 23, 24, 25, 31, 366 and seeded up to the limits, both signs), absolute "
              "durations, start_of_day / end_of_day / tomorrow / yesterday. Expected: calendar units on the wall clock with "
              "compatible resolution, then exact elapsed time (Zoned.tla); start of day = first instant of the civil day.")
    c.assumptions = TRUSTED + ["the harness's independent TZif / POSIX TZ readers", "zic"]
    return c.finish()


@prop("C13")
def c13(a):
    c = Check("C13", a.tier, a.seed)
    workdir("C13")
    binary = build_harness()
    if not a.replay:
        # Engine B: every history over the 20-operation alphabet of ZonedOps.tla up to length 2 (thorough: 3),
        # plus TLC-sampled histories of length 9
        wd13 = workdir("C13", False)
        r = tlc_mc("ZonedOps.tla", "MC_ZonedOps2.cfg" if a.tier == "quick" else "MC_ZonedOps3.cfg", os.path.join(wd13, "mc"), workers=1)
        c.add_mc(r)
        plans = _hist(r["out"])
        want = 400 if a.tier == "quick" else 8000
        if len(plans) != want:
            raise ToolError(f"ZonedOps.tla: expected {want} complete histories, got {len(plans)}")
        sims = tlc_simulate("ZonedOps.tla", "MC_ZonedOps9.cfg", os.path.join(wd13, "sim"), num=60 if a.tier == "quick" else 600,
                            depth=10, seed=a.seed + 1)
        seen = set()
        for s_ in sims:
            s_ = json.loads(s_) if isinstance(s_, str) else s_
            if len(s_) == 9 and json.dumps(s_) not in seen and len(seen) < (200 if a.tier == "quick" else 3000):
                seen.add(json.dumps(s_))
                plans.append(s_)
        pf = os.path.join(wd13, "plans.json")
        with open(pf, "w") as f:
            json.dump(plans, f)
        zoned_part(c, a, binary, "c13", extra=["--plans", pf])
    else:
        zoned_part(c, a, binary, "c13")
    # every Zoned produced by the arithmetic / difference / rounding drivers is checked for WF as well
    zoned_part(c, a, binary, "c06")
    zoned_part(c, a, binary, "c10z")
    c.rule = ZONED_RULE + ("C13 events: operation histories over the 20-operation alphabet of ZonedOps.tla (checked_add/sub with "
              "spans and durations, saturating add/sub, start/end_of_day, tomorrow/yesterday, first/last_of_month, round, "
              "with().hour/minute/month/day/offset, nth_weekday, Display->parse, strftime->strptime, DateTime::to_zoned, "
              "with_time_zone): every history up to length 2 (thorough: 3) enumerated by TLC, TLC-sampled histories of "
              "length 9, and seeded histories (length <= 12 in thorough, 8 in quick), each run from instants around "
              "transitions in every zone; after EVERY step the four components are checked against "
              "the zone, Eq/Ord/Hash of consecutive states against their instants, and zone changes for keeping the instant. "
              "The Zoned results of the C06 and C10 zoned drivers are checked for well-formedness too. The with-builders of the alphabet (hour/minute, month/day, offset x every conflict policy) are also judged on their result: the documented resolution (replace the fields, prefer the original or given offset when the zone assigns it to the new civil time, else resolve compatibly; reject / always-offset / always-time-zone as documented) must give exactly the returned instant, or fail exactly when it fails.")
    c.assumptions = TRUSTED + ["the harness's independent TZif / POSIX TZ readers", "zic"]
    return c.finish()



@prop("C19")
def c19(a):
    from vlib import tlc_accept, tlc_simulate, WORK
    c = Check("C19", a.tier, a.seed)
    wd = workdir("C19")
    binary = build_harness()
    quick = a.tier == "quick"
    # Engine C: all interleavings of the cache protocol in small scope + liveness
    c.add_mc(tlc_mc("TzdbCache.tla", "MC_TzdbCache_quick.cfg" if quick else "MC_TzdbCache_thorough.cfg",
                    os.path.join(wd, "mc"), timeout=3 * 3600))
    c.add_mc(tlc_mc("TzdbCache.tla", "MC_TzdbCache_live.cfg", os.path.join(wd, "mc2")))
    # Engine B: TLC-generated sequential histories replayed on the real database
    hists = []
    for cfgname, ttl in (("TzdbCacheSim.cfg", 2), ("TzdbCacheSim_ttl1.cfg", 1)):
        items = tlc_simulate("TzdbCacheSim.tla", cfgname, os.path.join(wd, "sim"), num=500 if quick else 6000, depth=150,
                             seed=a.seed + 1)
        hp = os.path.join(wd, f"hist-ttl{ttl}.jsonl")
        with open(hp, "w") as f:
            for it in items:
                f.write(it + "\n")
        s = run_driver(binary, "c19replay", os.path.join(wd, f"replay{ttl}"), a.tier, a.seed,
                       ["--histories", hp, "--ttl", str(ttl)])
        c.add_summary(s)
        for fpath in s["files"]:
            for line in open(fpath):
                e = json.loads(line)
                if e["ok"]:
                    c.traces += 1
                else:
                    full = json.loads(items[e["hid"]])
                    c.violation("the real database diverges from the model on a TLC-generated history "
                                "(returned version / path taken)", {"event": {"history": full, "ttl": ttl,
                                                                              "mismatches": e["mismatches"]}})
    # the concatenated (Android tzdata) database: same protocol without the name index, one file for all zones
    c.add_mc(tlc_mc("ConcatCache.tla", "MC_ConcatCache_quick.cfg" if quick else "MC_ConcatCache_thorough.cfg",
                    os.path.join(wd, "mc3"), timeout=3 * 3600))
    c.add_mc(tlc_mc("ConcatCache.tla", "MC_ConcatCache_live.cfg", os.path.join(wd, "mc4")))
    for cfgname, ttl in (("ConcatCacheSim.cfg", 2), ("ConcatCacheSim_ttl1.cfg", 1)):
        items = tlc_simulate("ConcatCacheSim.tla", cfgname, os.path.join(wd, "sim"), num=500 if quick else 6000, depth=150,
                             seed=a.seed + 1)
        hp = os.path.join(wd, f"hist-concat-ttl{ttl}.jsonl")
        with open(hp, "w") as f:
            for it in items:
                f.write(it + "\n")
        s = run_driver(binary, "c19replay", os.path.join(wd, f"replay-concat{ttl}"), a.tier, a.seed,
                       ["--histories", hp, "--ttl", str(ttl), "--db", "concat", "--stem", "c19replay"])
        c.add_summary(s)
        for fpath in s["files"]:
            for line in open(fpath):
                e = json.loads(line)
                if e["ok"]:
                    c.traces += 1
                else:
                    full = json.loads(items[e["hid"]])
                    c.violation("the real concatenated database diverges from ConcatCache.tla on a TLC-generated history "
                                "(returned version / path taken)", {"event": {"history": full, "ttl": ttl, "db": "concat",
                                                                              "mismatches": e["mismatches"]}})
    # Engine A: concurrent executions validated against the models (zoneinfo directory, then concatenated file)
    for (dbkind, tspec, model, extra) in (("zoneinfo", "Trace_Cache", "TzdbCache.tla", []),
                                          ("concatenated", "Trace_ConcatCache", "ConcatCache.tla", ["--db", "concat", "--stem", "c19stress-concat"])):
        s = run_driver(binary, "c19stress", os.path.join(wd, "stress-" + dbkind), a.tier, a.seed, extra)
        c.add_summary(s)
        for fpath in s["files"]:
            for line in open(fpath):
                e = json.loads(line)
                if e["panics"]:
                    c.violation(f"panic in a concurrent lookup/reset ({dbkind} database)", {"event": e})
                if e["cache_unsorted"]:
                    c.violation(f"the zone cache lost its sort order / has duplicates ({dbkind} database)", {"event": e})
                r = tlc_accept(tspec + ".tla", tspec + ".cfg", e["trace"], os.path.join(wd, "acc"))
                c.states += r["distinct"]
                c.transitions += r["generated"]
                if r["accepted"]:
                    c.traces += 1
                else:
                    ev = None
                    if r["furthest"]:
                        with open(e["trace"]) as tf:
                            lines = tf.readlines()
                        ev = {"rejected_at_line": r["furthest"], "event": json.loads(lines[r["furthest"] - 1]) if r["furthest"] <= len(lines) else None,
                              "context": [json.loads(x) for x in lines[max(0, r["furthest"] - 12):r["furthest"]]]}
                    c.violation(f"a recorded concurrent execution is not a behaviour of {model}"
                                + (f" (model invariant {r['inv_violated']} broken)" if r["inv_violated"] else ""),
                                {"event": ev, "run": e["run"], "db": dbkind})
    c.rule = ("Engine C: TzdbCache.tla (one action per critical section of zoneinfo::Database::get/reset, environment "
              "file replace/remove/add, clock ticks) model-checked exhaustively for 2 threads x 2 names (thorough: 3 threads) "
              "against CacheCoherent, ReturnOk, FreshAfterExpiry, LockInv, and for progress under fairness. Engine B: TLC "
              "-simulate generates sequential operation histories (get in any case spelling, reset, replace, remove, add, "
              "tick past the ttl) which the harness replays on a real TimeZoneDatabase::from_dir over synthetic TZif files "
              "whose offset encodes (name, version), comparing every returned version and the path taken (hook events). "
              "Engine A: 4 threads + a writer thread run against one database; the hook events (sequence numbers taken "
              "under jiff's locks) form a trace that must be a behaviour of the model (Trace_Cache.tla, file operations "
              "taking effect anywhere between their markers). The same three engines run for the concatenated (Android "
              "tzdata) database: ConcatCache.tla (one file and one mtime for all zones, no name index) model-checked, "
              "ConcatCacheSim histories (whole-file rewrites, file removal, ticks) replayed on "
              "TimeZoneDatabase::from_concatenated_path, concurrent runs validated by Trace_ConcatCache.tla. "
              "Non-trivial = histories with expiry / concurrent runs.")
    c.assumptions = TRUSTED + ["hooks in /repo under cfg(jiff_verif): mock monotonic clock, ttl setter, critical-section events",
                               "the harness's TZif writer for fixed-offset files"]
    return c.finish()


@prop("C20")
def c20(a):
    from vlib import tlc_simulate
    c = Check("C20", a.tier, a.seed)
    wd = workdir("C20")
    binary = build_harness()
    quick = a.tier == "quick"
    # Engine C: every interleaving of new/clone/drop on 4 slots
    c.add_mc(tlc_mc("TzHandle.tla", "MC_TzHandle.cfg" if quick else "MC_TzHandle_thorough.cfg", os.path.join(wd, "mc")))
    # Engine B: TLC-generated programs executed on real TimeZone values
    items = sorted(set(tlc_simulate("TzHandleSim.tla", "TzHandleSim.cfg", os.path.join(wd, "sim"), num=200 if quick else 4000,
                                    depth=40, marker="PROG", seed=a.seed + 1)))
    pp = os.path.join(wd, "programs.jsonl")
    with open(pp, "w") as f:
        for it in items:
            f.write(it + "\n")
    s = run_driver(binary, "c20", os.path.join(wd, "replay"), a.tier, a.seed, ["--programs", pp])
    c.add_summary(s)
    for fpath in s["files"]:
        for line in open(fpath):
            e = json.loads(line)
            if e["ok"]:
                c.traces += 1
            else:
                prog = json.loads(items[e["pid"]])
                for st in prog:
                    st.pop("exp", None)
                why = sorted({m.get("what", "?") for m in e["mismatches"]})
                c.violation("a real TimeZone handle diverges from TzHandle.tla: " + ", ".join(why),
                            {"event": {"program": prog, "mismatches": e["mismatches"][:10]}})
    # every fixed offset
    drive_and_validate(c, a, binary, "c20fixed", "Trace_Handle.tla")
    # many threads at once on one handle (the model's interleavings of clone / drop, executed as real races)
    drive_and_validate(c, a, binary, "c20race", "Trace_Handle.tla")
    c.exhaustive = True
    c.rule = ("Engine C: TzHandle.tla (new/clone/drop over 4 handle slots and every kind: UTC, unknown, fixed, static, TZif "
              "from bytes, POSIX) model-checked exhaustively for RcInv (strong count = live handles), FreeInv (freed exactly "
              "once, exactly when the last handle goes), NoUseAfterFree, EqLaws. Engine B: TLC -simulate generates programs of "
              "16 steps (clone and drop optionally on another thread); the harness executes them on real TimeZone values and "
              "after every step compares pointer tag, heap object identity and Arc strong count (hook __verif_repr), the "
              "number of frees of each payload seen by a tracking global allocator, value equality of all live pairs and the "
              "query answer of every live handle with the model. All 187,199 fixed offsets are enumerated (Trace_Handle.tla). "
              "c20race: 8 threads clone, query, compare and drop one handle of each kind concurrently (thousands of operations "
              "each); afterwards the strong count must be one, nothing may have been freed while the base handle lived, and "
              "dropping it must free the heap object exactly once. Non-trivial = programs with cross-thread steps / negative offsets.")
    c.assumptions = TRUSTED + ["hook TimeZone::__verif_repr (read-only, cfg jiff_verif)",
                               "the harness's tracking global allocator (records alloc/dealloc addresses while a program runs)"]
    return c.finish()


@prop("C12")
def c12(a):
    c = Check("C12", a.tier, a.seed)
    workdir("C12")
    binary = build_harness()
    if not a.replay:
        c.add_mc(tlc_mc("MC_BigInt.tla", "MC_BigInt.cfg", os.path.join(workdir("C12", False), "mc"), workers=4))
    drive_and_validate(c, a, binary, "c12", "Trace_Value.tla")
    c.rule = ("span_build: sequences of 1..8 setters in every order with values inside, at and beyond each unit limit and of "
              "both signs (after every step the ten getters and the sign are compared with the model: stored magnitude, one "
              "sign for all units, refused beyond the limit); span_ops: negate, abs, checked_mul by factors around "
              "limit/|v|, fieldwise equality, SignedDuration::try_from(Span); SignedDuration: checked/saturating add/sub of "
              "every pool value with every limit value, mul/div by i32 factors incl. 0, -1, MIN/MAX (division checked "
              "relationally), neg, unit views, from_<unit>, new(secs, nanos) with any i32 nanos, std Duration conversions, "
              "Span::try_from, f64 conversions with the exact (mantissa, exponent) decomposition, mul_f64 / div_f64 / "
              "div_duration_f64 against the exact product / quotient of the nanosecond count and the float's exact value "
              "(relative 2^-45; a panic only when that result is unrepresentable or the factor is not finite). All arithmetic is exact "
              "BigInt arithmetic on the nanosecond count.")
    c.assumptions = TRUSTED + ["the harness's f64 bit decomposition"]
    return c.finish()


@prop("C09")
def c09(a):
    c = Check("C09", a.tier, a.seed)
    workdir("C09")
    binary = build_harness()
    if not a.replay:
        # the independent reader checks itself against CPython's datetime.fromisoformat before it judges jiff
        import subprocess, sys
        wd = os.path.join(workdir("C09", False), "pyoracle")
        os.makedirs(wd, exist_ok=True)
        trace = os.path.join(wd, "python.ndjson")
        n = 3000 if a.tier == "quick" else 120000
        subprocess.run([sys.executable, os.path.join(VERIF, "lib", "py_rfc3339_oracle.py"), trace, str(n), str(a.seed)], check=True)
        pres, mism = tlc_trace("Trace_Text.tla", [trace], "C09")
        if mism:
            raise ToolError(f"Rfc3339.tla disagrees with Python's datetime on {len(mism)} texts, e.g. {(mism[0][3] or {}).get('s')!r}: {mism[0][2]}")
        nn = sum(1 for _ in open(trace))
        c.add_summary({"stem": "python", "events": nn, "files": [trace], "classes": {"python-oracle": nn}, "distinct_nontrivial": 0, "samples": {}})
    drive_and_validate(c, a, binary, "c09", "Trace_Text.tla")
    zoned_part(c, a, binary, "c09z")
    c.rule = ("pp_ts / pp_dt / pp_date / pp_time: Timestamp, DateTime, Date, Time printed with the default printer and with "
              "every precision 0..9 x separator x lowercase combination, timestamps also with whole-minute offsets; z_text: "
              "Zoned Display text for instants on both sides of every transition, both occurrences of every fold, the LMT "
              "periods (sub-minute offsets) and folds between sub-minute offsets, in every zone the global database knows. "
              "The text (as byte values) is read by the independent RFC 3339 / RFC 9557 reader of Rfc3339.tla; the decoded "
              "value must be the original (to the precision), the printed offset the true offset rounded to the minute, the "
              "annotation the zone, the civil time + zone + printed offset must determine exactly the original instant, and "
              "jiff's own re-parse must return the same instant, fields, offset and zone. rd_ts / rd_dt: texts generated from "
              "the RFC 3339 grammar (not by jiff's printer: 'T' / 't' / blank, 'Z' / 'z' / numeric offsets, 0..9 fraction "
              "digits, four-digit and signed six-digit years) are read by the reader and by parse_timestamp / parse_datetime, "
              "which must return exactly what the text denotes or refuse it when it is out of range; shapes no printer option "
              "produces are scope 'beyond' (reported, never a violation).")
    c.assumptions = TRUSTED + ["the harness's independent TZif reader", "the global tz database (system zoneinfo) for re-parsing zone names"]
    return c.finish()


@prop("C15")
def c15(a):
    c = Check("C15", a.tier, a.seed)
    workdir("C15")
    binary = build_harness()
    if not a.replay:
        c.add_mc(tlc_mc("MC_BigInt.tla", "MC_BigInt.cfg", os.path.join(workdir("C15", False), "mc"), workers=4))
    drive_and_validate(c, a, binary, "c15", "Trace_Dur.tla")
    c.rule = ("iso_span / iso_sd: ISO 8601 text of spans (every unit at its limit, both signs, sub-second carry cases, seeded "
              "mixes) and durations (incl. i64 extremes), read by the independent ISO duration reader of Trace_Dur.tla (numbers "
              "as BigInts): the text must denote the original and jiff's re-parse must agree. fr_span / fr_sd: the friendly "
              "printer under a sweep of every option value (designator, spacing, direction, fractional unit x precision 0..9, "
              "HH:MM:SS x precision, comma, padding, zero unit) plus seeded option mixes: the text must be accepted by the "
              "parser; lossless configurations must return the identical value (after folding the units below the fractional "
              "unit), lossy ones a value closer than one unit of the last printed digit (digits counted in the text).")
    c.rule += (" fr_parse: texts drawn from the documented grammar (every label spelling, blank and comma variants, "
               "fractions with '.' or ',', clocks, sign or 'ago') are read by Friendly.tla and by jiff's parser, which must "
               "return the units the text states (a fraction truncated toward zero), and refuse calendar units for a SignedDuration."
               " iso_parse: the same for ISO 8601 durations drawn from the grammar (either case, fractions on the last time unit, "
               "values around every unit limit). Shapes no printer configuration produces are scope 'beyond' (reported as "
               "BEYOND-PROPERTY, never a violation).")
    c.rule += (" Every friendly text is also read by Friendly.tla, an independent reader written from the grammar in the "
               "documentation: the text itself must denote the value (calendar units exactly, the time units exactly or as a "
               "total, truncated toward zero by less than one unit of the last digit under a limited precision).")
    c.assumptions = TRUSTED
    return c.finish()


@prop("C16")
def c16(a):
    c = Check("C16", a.tier, a.seed)
    workdir("C16")
    binary = build_harness()
    if not a.replay:
        # the spec's strftime against the C library's, before it judges jiff
        wd = os.path.join(workdir("C16", fresh=False), "glibc")
        os.makedirs(wd, exist_ok=True)
        trace = os.path.join(wd, "glibc.ndjson")
        n = 4000 if a.tier == "quick" else 150000
        subprocess.run([sys.executable, os.path.join(VERIF, "lib", "glibc_oracle.py"), trace, str(n), str(a.seed)], check=True)
        gres, mism = tlc_trace("Trace_Strtime.tla", [trace], "C16")
        if mism:
            raise ToolError(f"Strtime.tla disagrees with glibc strftime on {len(mism)} events, e.g. {(mism[0][3] or {}).get('sfmt')} -> {(mism[0][3] or {}).get('s')!r}")
        c.add_summary({"stem": "glibc", "events": sum(1 for _ in open(trace)), "files": [trace], "classes": {"glibc-oracle": sum(1 for _ in open(trace))},
                       "distinct_nontrivial": 0, "samples": {}})
        # ... and the RFC 2822 reader against Python's email.utils
        trace2 = os.path.join(wd, "python2822.ndjson")
        subprocess.run([sys.executable, os.path.join(VERIF, "lib", "py_rfc2822_oracle.py"), trace2, str(3000 if a.tier == "quick" else 60000), str(a.seed)], check=True)
        pres, mism = tlc_trace("Trace_Strtime.tla", [trace2], "C16")
        if mism:
            raise ToolError(f"the RFC 2822 reader of Strtime.tla disagrees with Python's email.utils on {len(mism)} texts, e.g. {(mism[0][3] or {}).get('s')!r}: {mism[0][2]}")
        nn = sum(1 for _ in open(trace2))
        c.add_summary({"stem": "python2822", "events": nn, "files": [trace2], "classes": {"python-oracle": nn}, "distinct_nontrivial": 0, "samples": {}})
    drive_and_validate(c, a, binary, "c16", "Trace_Strtime.tla")
    c.rule = ("fmt: every conversion specifier x flag (_ - 0 ^ #) x width on values of every type, every plain specifier on "
              "seeded values (instants over the whole range, zones with sub-hour / sub-minute / extreme offsets) and on the "
              "days around every new year of 140+ years (week numbers, ISO year, day of year): the text must equal "
              "ExpFmt of Strtime.tla, which prints each specifier's calendar fact from Calendar.tla / Instant.tla as POSIX "
              "strftime defines it. rt: listed and generated multi-specifier formats; the text is parsed back into Zoned, "
              "Timestamp, DateTime, Date and Time (BrokenDownTime::to_* and T::strptime, which must agree); the spec "
              "derives from the directives present whether each type is determined and to what precision, and demands "
              "the original value or an error accordingly. contra: a date printed with a wrong weekday must be refused. "
              "rfc_p: RFC 2822 / RFC 9110 text of zoned values and timestamps (years 0..9999 and just outside) must be the "
              "canonical text and re-parse to the same second and offset; rfc_m: texts assembled from variant tokens "
              "(optional / wrong / re-cased weekday, 2-3-4 digit years, missing seconds, obsolete and unknown zone names, "
              "blank runs, out-of-range fields) are read by the independent reader Rd2822 and jiff must agree or refuse.")
    c.assumptions = TRUSTED + ["the global tz database (system zoneinfo) for %Q round trips"]
    return c.finish()


def _hist(out):
    """JSON payloads of the <<"HIST", "...">> lines TLC printed."""
    pat = re.compile(r'^<<"HIST", (".*")>>\s*$')
    return [json.loads(json.loads(m.group(1))) for m in (pat.match(l) for l in out.splitlines()) if m]


@prop("C17")
def c17(a):
    c = Check("C17", a.tier, a.seed, level="exploration")
    wd = workdir("C17")
    binary = build_harness()
    extra = []
    if not a.replay:
        # Engine B: TLC enumerates every one-step mutation plan and samples three-step plans
        r = tlc_mc("Mutate.tla", "MC_Mutate1.cfg", os.path.join(wd, "mc"), workers=1)
        c.add_mc(r)
        plans = _hist(r["out"])
        if len(plans) != 504:
            raise ToolError(f"Mutate.tla: expected 504 one-step plans, got {len(plans)}")
        sims = tlc_simulate("Mutate.tla", "MC_Mutate3.cfg", os.path.join(wd, "sim"), num=40 if a.tier == "quick" else 600,
                            depth=4, seed=a.seed + 1)
        seen, want = set(), (400 if a.tier == "quick" else 6000)
        for s in sims:
            s = json.loads(s) if isinstance(s, str) else s
            key = json.dumps(s)
            if len(s) == 3 and key not in seen and len(seen) < want:
                seen.add(key)
                plans.append(s)
        pf = os.path.join(wd, "plans.json")
        with open(pf, "w") as f:
            json.dump(plans, f)
        extra = ["--plans", pf, "--zones", compile_zones("C17")]
    try:
        drive_and_validate(c, a, binary, "c17", "Trace_Parse.tla", extra=extra)
    except ToolError:
        hang = os.path.join(wd, "c17", "c17.hang.json")
        if os.path.exists(hang):
            ev = json.load(open(hang))
            c.mismatch("parser did not terminate (no progress for 20 s)", ev)
        else:
            raise
    c.rule = ("22 parser entry points (Temporal zoned/timestamp/datetime/date/time/pieces/time-zone/span/duration, friendly "
              "span/duration, RFC 2822 zoned/timestamp, FromStr of the seven public types, TimeZone::posix, strptime with "
              "format and text both mutated) on: a corpus of valid texts of every family (each under every parser); every "
              "one-step mutation plan enumerated by TLC from Mutate.tla (14 operators x 9 positions x 4 variants = 504) and "
              "TLC-sampled three-step plans; seeded 1..6-step plans; random bytes and random strings over the family's "
              "alphabet; 8 KiB..256 KiB inputs (runs of digits, blanks, letters, signs, parentheses, 0xFF, repeated valid "
              "text) with a time bound per KiB. TimeZone::tzif on real, bundled and synthetic TZif files under structure-aware "
              "mutation (header counts, transition times, order, type indices, offsets, designation indices, truncation, "
              "hostile footers, versions, bit flips, block duplication) and TLC plans; TimeZoneDatabase::from_concatenated_path "
              "on mutated Android-style files (header offsets, index names / starts / lengths, entry order, truncation, bit "
              "flips, damaged data) with available() and every get(); every accepted zone is queried at 300+ "
              "instants, 4 civil datetimes and iterated 3000 steps in both directions. Trace_Parse.tla decides: never a "
              "panic or hang, Ok values inside the documented range (recomputed from Calendar/Instant/CivilArith), print + "
              "re-parse equal, accepted zones answer with in-range offsets and strictly ordered transitions, jiff and its "
              "jiff-static copy accept the same TZif data.")
    c.assumptions = TRUSTED + ["wall-clock timing for the proportional-work bound (5 ms per KiB)", "exploration, not exhaustive: inputs are sampled"]
    return c.finish()


@prop("C05")
def c05(a):
    c = Check("C05", a.tier, a.seed)
    wd = workdir("C05")
    dbg = build_harness()
    rel = build_harness(profile="nodebug")
    sys.path.insert(0, os.path.join(VERIF, "lib"))
    import merge2
    ex = ["--replay", a.replay] if a.replay else []
    run_driver(dbg, "c05", os.path.join(wd, "dbg"), a.tier, a.seed, ex)
    run_driver(rel, "c05", os.path.join(wd, "rel"), a.tier, a.seed, ex)
    s = merge2.merge(os.path.join(wd, "dbg"), os.path.join(wd, "rel"), os.path.join(wd, "both"))
    c.add_summary(s)
    results, mism = tlc_trace("Trace_Fallible.tla", s["files"], "C05")
    c.add_trace(results, mism, driver_cmd=f"jv c05 --tier {a.tier} --seed {a.seed} (profiles dev and nodebug)")
    c.rule = ("One event per call of a fallible (or saturating / wrapping) public operation, made with identical arguments by "
              "the same deterministic driver under a build with debug assertions and overflow checks and under one without: "
              "constructors of every type at and around every field limit; Date/Time/DateTime/Timestamp/Zoned checked, "
              "saturating and wrapping arithmetic with spans (every unit at +-limit, limit-1, all units at their limits, seeded "
              "mixes) and with SignedDuration extremes; until/since with every (smallest, largest, mode, increment) "
              "including illegal increments (0, -1, i64::MAX); round of every type over unit x mode x increment; with-"
              "builders over every setter at and beyond its range; navigation (tomorrow, nth_weekday, start/end of day, "
              "first/last of month/year); zone conversion of extreme civil datetimes in fixed +-25:59:59, IANA and POSIX "
              "zones under every strategy; series; Span checked_add/sub/mul/compare/total/round/to_duration without and "
              "with date, datetime and zoned references and the days-are-24-hours marker; SignedDuration and Offset "
              "arithmetic and rounding; ISOWeekDate. Trace_Fallible.tla decides: no panic in either build, same status and "
              "value in both, Ok value inside the range of Ranges.tla.")
    c.assumptions = TRUSTED + ["the harness's projection of values", "the two cargo profiles differ only in debug-assertions and overflow-checks"]
    return c.finish()


@prop("C11")
def c11(a):
    c = Check("C11", a.tier, a.seed)
    workdir("C11")
    binary = build_harness()
    if not a.replay:
        c.add_mc(tlc_mc("MC_Round.tla", "MC_Round.cfg", os.path.join(workdir("C11", False), "mc"), workers=4))
    zoned_part(c, a, binary, "c11")
    c.rule = ("sp_round / sp_total / sp_cmp / sp_add / sp_dur events: Span::round (incl. balancing = smallest ns, increment 1), "
              "Span::total, Span::compare, Span::checked_add / checked_sub (reference + result must be (reference + a) + b, "
              "no unit larger than the operands') and Span::to_duration (the exact time to reference + span) with no reference, the days-are-24-hours marker, civil datetimes and dates (month ends, Feb 29, "
              "both range ends) and zoned datetimes at instants within +-2 days of transitions in ~44 zones; spans that meet "
              "month ends, DST days and unit overflow, plus seeded spans up to the unit limits, both signs; every smallest x "
              "largest x mode, legal increments and illegal requests. SpanRel.tla derives the goal from the reference "
              "semantics (reference (+) span by CivilArith / Zoned.tla, the balanced difference by the until rules): the "
              "exact rounded nanoseconds (uniform units), the position reference (+) lower/upper candidate the mode "
              "prescribes (calendar units), or 'within one increment on the mode's side' (zoned reference, time unit, calendar "
              "largest); the result must have the requested shape (nothing outside smallest..largest, multiple of the "
              "increment, one sign) and reach that position. Totals are compared as exact rationals against the f64's "
              "mantissa/exponent (relative 2^-40); compare against the order of the two positions.")
    c.assumptions = TRUSTED + ["the harness's independent TZif / POSIX TZ readers", "harness witnesses floor(T/inc) and result/inc, both verified by multiplication in the spec"]
    return c.finish()


def shared_copy_drift():
    """The jiff-static crate compiles a generated copy of src/shared; any
    difference beyond what the generator strips is drift."""
    import difflib
    drift = []
    root_a = "/repo/src/shared"
    root_b = "/repo/crates/jiff-static/src/shared"

    def norm(path, generated):
        out, skip = [], False
        for line in open(path):
            t = line.strip()
            if t == "// only-jiff-start":
                skip = True
                continue
            if t == "// only-jiff-end":
                skip = False
                continue
            if skip or t == "// auto-generated by: jiff-cli generate shared" or t.startswith("#[cfg(feature = \"alloc\")]"):
                continue
            out.append(line.rstrip())
        # the generator reformats what is left (an emptied block becomes `{}`): compare token text only
        return ["".join("".join(out).split())]

    for dp, _, fs in os.walk(root_a):
        for f in fs:
            if not f.endswith(".rs"):
                continue
            a = os.path.join(dp, f)
            b = os.path.join(root_b, os.path.relpath(a, root_a))
            if not os.path.exists(b):
                drift.append(f"{b} missing")
                continue
            la, lb = norm(a, False), norm(b, True)
            if la != lb:
                i = next((k for k, (x, y) in enumerate(zip(la[0], lb[0])) if x != y), min(len(la[0]), len(lb[0])))
                drift.append(f"{a} vs {b}: first difference at token offset {i}: ...{la[0][max(0, i - 60):i + 60]}... / ...{lb[0][max(0, i - 60):i + 60]}...")
    return drift


@prop("C18")
def c18(a):
    c = Check("C18", a.tier, a.seed)
    wd = workdir("C18")
    binary = build_harness()
    zd = compile_zones("C18")
    quick = a.tier == "quick"
    lim = ["--max-system", "30", "--max-bundled", "24"] if quick else []
    runs = []
    if a.replay:
        runs = []
    else:
        for loader in ("dir", "concat", "bundled", "static", "posix-print"):
            drivers = ("c03", "c04", "c14") if not quick or loader in ("dir", "static") else ("c03",)
            for drv in drivers:
                runs.append((binary, drv, loader, "fat"))
        # the same bytes with in-memory fattening compiled out
        slim_bin = build_harness(no_default=True, target="target-nofat")
        for drv in ("c03", "c04", "c14"):
            runs.append((slim_bin, drv, "bytes", "nofat"))
        for drv in ("c03",) if quick else ("c03", "c04", "c14"):
            runs.append((slim_bin, drv, "static", "nofat"))
    for (binr, drv, loader, fat) in runs:
        stem = f"{drv}-{loader}-{fat}"
        ex = ["--zones", zd, "--loader", loader] + lim
        if drv != "c03":
            ex += ["--max-system", "20"] if quick and "--max-system" not in ex else []
        # the thorough tier widens the zones (every zone of every class through every loader), not the probes per zone:
        # the per-zone depth of the thorough C03 / C04 / C14 tiers (every rule year to 9999) times 19 runs would take days
        s = run_driver(binr, drv, os.path.join(wd, stem), "quick", a.seed, ex + ([] if quick else ["--right", "1"]))
        c.add_summary(s)
        if s["files"]:
            results, mism = tlc_trace("Trace_Tz.tla", s["files"], "C18")
            # tag the events with the loader so that replays and reports name it
            c.add_trace(results, [(sh, ln, f"[{loader}, tz-fat {'on' if fat == 'fat' else 'off'}] {why}", ev) for (sh, ln, why, ev) in mism],
                        driver_cmd=f"jv {drv} --loader {loader} ({fat})")
    if a.replay:
        # a replay names the loader in the recorded reason
        rp = json.load(open(a.replay))
        why = rp["cases"][0].get("why", "") if rp.get("cases") else ""
        m = re.match(r"\[(\S+), tz-fat (on|off)\]", why)
        loader, fat = (m.group(1), m.group(2)) if m else ("bytes", "on")
        binr = binary if fat == "on" else build_harness(no_default=True, target="target-nofat")
        drv = rp["cases"][0]["event"].get("op", "info")
        drv = {"info": "c03", "lookup": "c03", "load": "c03", "amb": "c04", "iter": "c14"}.get(drv, "c03")
        s = run_driver(binr, drv, os.path.join(wd, "replay"), a.tier, a.seed, ["--zones", zd, "--loader", loader, "--replay", a.replay])
        c.add_summary(s)
        if s["files"]:
            results, mism = tlc_trace("Trace_Tz.tla", s["files"], "C18")
            c.add_trace(results, mism, driver_cmd=f"jv {drv} --loader {loader}")
    drift = shared_copy_drift() if not a.replay else []
    for d in drift:
        c.violation("the generated copy of src/shared in jiff-static differs from the original", {"event": {"op": "drift", "diff": d}, "driver": "source comparison"})
    c.rule = ("The C03 / C04 / C14 observations (offset info at six probes around every transition, civil classification and "
              "the four strategies, following/preceding walks), validated by Trace_Tz.tla against the abstract zone the "
              "independent reader extracts from the very bytes handed to jiff, with each zone loaded through every back-end: "
              "TimeZoneDatabase::from_dir on a directory written from the bytes, from_concatenated_path on an Android-style "
              "file assembled from them, TimeZoneDatabase::bundled, the zones compiled in by tz::get! / tz::include! "
              "(12 bundled, 12 system, 16 synthetic zones in slim and fat form), TimeZone::tzif on the bytes in a build with "
              "tz-fat compiled out (and the static zones in that build); POSIX strings parsed, printed by Display and parsed "
              "again. Every back-end is thus held to the same specification of the same data, which makes them equal to each "
              "other. lookup events: every zone asked for in upper, lower and alternating case must be found, report the "
              "canonical name, equal the canonical zone, and be listed by available(). Plus a source comparison of src/shared "
              "with the generated copy in jiff-static (drift).")
    c.assumptions = TRUSTED + ["the harness's independent TZif / POSIX readers", "zic for the synthetic zones (slim and fat)",
                               "the source comparison is textual (generator markers stripped)"]
    return c.finish()
