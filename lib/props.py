"""One function per property: which models TLC checks, which drivers run,
which trace spec validates their events."""
import json
import os

from vlib import (Check, ToolError, TRUSTED, build_harness, log, run_driver, tlc_mc, tlc_trace,
                  workdir)

REGISTRY = {}


def prop(pid):
    def deco(fn):
        REGISTRY[pid] = fn
        return fn
    return deco


def drive_and_validate(c, a, binary, driver, tracespec, extra=(), env=None, trace_env=None, stem=None):
    """driver -> NDJSON shards -> trace spec.  With --replay the driver
    re-executes exactly the recorded cases."""
    wd = os.path.join(workdir(c.pid, fresh=False), stem or driver)
    ex = list(extra)
    if stem:
        ex += ["--stem", stem]
    if a.replay:
        ex += ["--replay", a.replay]
    s = run_driver(binary, driver, wd, a.tier, a.seed, ex, env=env)
    c.add_summary(s)
    if s["files"]:
        results, mism = tlc_trace(tracespec, s["files"], c.pid, env=trace_env)
        c.add_trace(results, mism, driver_cmd=f"jv {driver} --tier {a.tier} --seed {a.seed} " + " ".join(extra))
    return s


@prop("C01")
def c01(a):
    c = Check("C01", a.tier, a.seed)
    workdir("C01")
    binary = build_harness()
    if not a.replay:
        # Engine C: the successor machine validates every closed form of Calendar.tla
        r = tlc_mc("CalendarWalk.tla", "MC_CalendarWalk.cfg", os.path.join(workdir("C01", False), "mc"))
        c.add_mc(r)
        if r["ok"] and r["distinct"] != 7304484:
            raise ToolError(f"CalendarWalk visited {r['distinct']} states, expected 7304484")
    drive_and_validate(c, a, binary, "c01", "Trace_C01.tla")
    c.exhaustive = a.tier == "thorough" and not a.replay
    c.rule = ("Engine C: all 7,304,484 states of the calendar successor machine, each checked against every "
              "closed form of Calendar.tla. Engine A: one event per (date | month | nth-weekday query | ISO triple | "
              "constructor triple) observed through jiff's public API and through the jiff-static copy of the "
              "shared code, validated by Trace_C01.tla; quick = all days of 27 boundary years, year-edge and "
              "Feb-end windows of all 19,999 years, seeded random dates; thorough = every date, month, ISO "
              "triple and constructor triple. Non-trivial = class tag other than 'plain' (year<=0, limit year, "
              "Feb end, year edge, invalid constructor triple, ISO edge week, far nth); distinct = distinct "
              "serialized events.")
    c.assumptions = TRUSTED
    return c.finish()


@prop("C02")
def c02(a):
    c = Check("C02", a.tier, a.seed)
    workdir("C02")
    binary = build_harness()
    if not a.replay:
        c.add_mc(tlc_mc("MC_BigInt.tla", "MC_BigInt.cfg", os.path.join(workdir("C02", False), "mc"), workers=4))
    drive_and_validate(c, a, binary, "c02", "Trace_C02.tla")
    c.rule = ("Engine C: BigInt.tla (the limb arithmetic every conversion below uses) model-checked against native "
              "arithmetic. Engine A: events ts_civil (Offset::to_datetime, Timestamp::to_zoned(fixed), and both inverse "
              "routes), civil_ts, ts_new, ts_from (4 units), ts_views, validated by Trace_C02.tla which does every floor "
              "division itself. quick = day boundary -1ns/0/+1ns for ~47k days (Jan 1 and Mar 1 of every year, +-1500 "
              "days around the epoch, 800 days at each range end, seeded) x rotating offsets, seconds of days -1/0 and of "
              "both range-end days, negative-fraction slices, limit timestamps x 16 offsets, constructor limit grids and "
              "seeded tuples; thorough = every one of the 7.3M day boundaries, every second of the 4 days, 2M seeded "
              "pairs. Non-trivial = class other than 'plain' (pre-epoch, negative fraction, limits, mixed-sign "
              "constructor arguments, out-of-range inputs).")
    c.assumptions = TRUSTED
    return c.finish()
