SPECIFICATION Spec
CONSTANT NMarks = 3
INVARIANT SearchOk
INVARIANT NextOk
INVARIANT PrevOk
INVARIANT SoundOk
INVARIANT ClassOk
CHECK_DEADLOCK FALSE
