--------------------------- MODULE MC_CivilUntil ---------------------------
(* Engine C for the civil difference (C07): the calendar part of            *)
(* a.until(largest, b) that the trace specifications expect (DateDiff of    *)
(* CivilOps.tla: Temporal's surpass criterion on the unclamped              *)
(* year-month-day) is checked against what C07 states, for every ordered    *)
(* pair of dates of a window that holds a leap day, the February of the     *)
(* following common year and every month length, and every largest unit     *)
(* from days to years:                                                      *)
(*    a + s = b (with the specification's own addition: months and years    *)
(*    clamp the day), every non-zero unit has the sign of b - a, nothing    *)
(*    above the largest unit, and s is balanced: fewer than 7 days under    *)
(*    weeks, fewer than 12 months under years, and one more month (in the   *)
(*    direction of b) would pass b.                                         *)
EXTENDS CivilOps, TLC

CONSTANTS First, Last       \* epoch days
VARIABLES na, nb
vars == <<na, nb>>
\* one initial state per start date; the end dates are successor states, so that the workers share them
Init == na \in First..Last /\ nb = First
Next == nb = First /\ nb' \in First..Last /\ na' = na
Spec == Init /\ [][Next]_vars

SgnI(x) == IF x > 0 THEN 1 ELSE IF x < 0 THEN -1 ELSE 0
Sp(e) == [SpanZero EXCEPT !.y = e[1], !.mo = e[2], !.w = e[3], !.d = e[4]]

UntilOk ==
  LET a == DateOfEpochDay(na)  b == DateOfEpochDay(nb)  sign == SgnI(nb - na) IN
  \A L \in 6..9 :
    LET e == DateDiff(a, b, L)
        tot == 12 * e[1] + e[2]
    IN /\ DateAddSpan(a[1], a[2], a[3], Sp(e)) = <<nb>>
       /\ \A i \in 1..4 : e[i] = 0 \/ SgnI(e[i]) = sign
       /\ (L < 9 => e[1] = 0) /\ (L < 8 => e[2] = 0) /\ (L # 7 => e[3] = 0)
       /\ (L = 7 => AbsI(e[4]) < 7)
       /\ (L = 9 => AbsI(e[2]) < 12)
       /\ (L >= 8 /\ sign # 0 =>
             \* one more month would pass b
             LET nx == AddYM(a[1], a[2], a[3], 0, tot + sign)
                 nn == EpochDayOf(nx[1], nx[2], nx[3])
             IN  (sign > 0 /\ nn > nb) \/ (sign < 0 /\ nn < nb)
                 \* ... or it lands on b only through clamping (Jan 31 + 1 month = Feb 29 = Jan 30 + 1 month):
                 \* the surpass criterion compares the unclamped day, and the days then say so
                 \/ (nn = nb /\ e[4] # 0))
=======================================================================
