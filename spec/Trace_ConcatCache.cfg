SPECIFICATION TSpec
CONSTANTS
  Thread = {1, 2, 3, 4, 5, 6}
  Name = {"a", "b", "c"}
  MaxVer = 1000000
  MaxClock = 1000000
  TTL = 2
  MaxOps = 1000000000
INVARIANTS TInv NotAccepted
CONSTRAINT Progressed
POSTCONDITION Report
CHECK_DEADLOCK FALSE
