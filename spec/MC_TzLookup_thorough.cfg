SPECIFICATION Spec
CONSTANT NMarks = 5
INVARIANT SearchOk
INVARIANT NextOk
INVARIANT PrevOk
INVARIANT SoundOk
INVARIANT ClassOk
CHECK_DEADLOCK FALSE
