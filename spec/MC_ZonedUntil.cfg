SPECIFICATION Spec
CONSTANTS
  NMarks = 2
INVARIANTS UntilOk
CHECK_DEADLOCK FALSE
