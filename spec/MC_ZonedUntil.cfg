SPECIFICATION Spec
CONSTANTS
  NMarks = 2
INVARIANTS UntilOk DayOk
CHECK_DEADLOCK FALSE
