--------------------------- MODULE Trace_C01 ---------------------------
(* Trace validation for C01: every event is one observation of jiff's    *)
(* public calendar API (or of the jiff-static copy of the shared code);  *)
(* the expected value is computed here from Calendar.tla.  Non-blocking: *)
(* a failed event prints MISMATCH and the run goes on.                   *)
EXTENDS Calendar, TLC, Json, IOUtils

Rec == ndJsonDeserialize(IOEnv.TRACE)

VARIABLE l
vars == <<l>>

\* midnight UTC of day n is a Timestamp iff n is in this range
\* (Timestamp::MIN = -9999-01-02T01:59:59Z, MAX = 9999-12-30T22:00:00Z)
TsDayMin == EpochDayMin + 2
TsDayMax == EpochDayMax - 1

DateOrZero(n) == IF n \in EpochDayMin..EpochDayMax THEN DateOfEpochDay(n) ELSE <<>>

\* ---- op "date": Date::new + all facts -----------------------------------
DateWhy(r) ==
  IF ~ValidDate(r.y, r.m, r.d)
  THEN IF r.st = "err" THEN "" ELSE "invalid triple accepted"
  ELSE IF r.st # "ok" THEN "valid date refused: " \o r.st
  ELSE
    LET y == r.y  m == r.m  d == r.d
        n == EpochDayOf(y, m, d)
        iso == IsoWeekOfDay(n)
    IN  IF r.getters # <<y, m, d>> THEN "getters"
        ELSE IF r.wd # WeekdayOfDay(n) THEN "weekday"
        ELSE IF r.doy # DayOfYear(y, m, d) THEN "day_of_year"
        ELSE IF r.doynl # DayOfYearNoLeap(y, m, d) THEN "day_of_year_no_leap"
        ELSE IF r.dim # DaysInMonth(y, m) THEN "days_in_month"
        ELSE IF r.diy # DaysInYear(y) THEN "days_in_year"
        ELSE IF r.leap # IsLeap(y) THEN "in_leap_year"
        ELSE IF r.tom # DateOrZero(n + 1) THEN "tomorrow"
        ELSE IF r.yes # DateOrZero(n - 1) THEN "yesterday"
        ELSE IF r.fom # <<y, m, 1>> THEN "first_of_month"
        ELSE IF r.lom # <<y, m, DaysInMonth(y, m)>> THEN "last_of_month"
        ELSE IF r.foy # <<y, 1, 1>> THEN "first_of_year"
        ELSE IF r.loy # <<y, 12, 31>> THEN "last_of_year"
        ELSE IF r.iso # iso THEN "iso_week_date"
        ELSE IF r.isoback # <<y, m, d>> THEN "iso_week_date roundtrip"
        ELSE IF r.eday # n THEN "day count (until)"
        ELSE IF r.durh # 24 * n \/ r.durrem # 0 THEN "day count (duration_since)"
        ELSE IF (IF n \in TsDayMin..TsDayMax THEN r.tsday # n \/ r.tsrem # 0
                                              ELSE r.tsday # 99999999)
             THEN "day count (timestamp)"
        ELSE IF r.fromday # <<y, m, d>> THEN "day count -> date"
        ELSE ""

\* ---- op "nthwom": 10 x 7 table of nth_weekday_of_month -------------------
NthIdx == <<-5, -4, -3, -2, -1, 1, 2, 3, 4, 5>>
NthWomWhy(r) ==
  IF \E i \in 1..10, wd \in 1..7 :
        r.res[i][wd] # NthWeekdayOfMonth(r.y, r.m, NthIdx[i], wd)
  THEN "nth_weekday_of_month table"
  ELSE IF \E i \in DOMAIN r.bad : r.bad[i] # "err" THEN "nth outside -5..5 accepted"
  ELSE ""

\* ---- op "nthwd": Date::nth_weekday --------------------------------------
\* |nth| can be up to 2^31; the result is in range iff the day is, and the
\* day arithmetic overflows 32 bits only when it is far out of range.
NthWdWhy(r) ==
  LET n == EpochDayOf(r.y, r.m, r.d) IN
  IF r.nth = 0 THEN (IF r.st = "err" THEN "" ELSE "nth = 0 accepted")
  ELSE IF r.nth > 2000000 \/ r.nth < -2000000
    THEN (IF r.st = "err" THEN "" ELSE "far nth accepted")
  ELSE LET t == NthWeekdayFromDay(n, r.nth, r.wd)
           \* |nth| beyond the documented Span week limit (1,043,497) may be
           \* refused even in the handful of cases where the date exists
           lenient == r.nth > 1043497 \/ r.nth < -1043497
       IN
    IF t \in EpochDayMin..EpochDayMax
    THEN IF (r.st = "ok" /\ r.res = DateOfEpochDay(t)) \/ (lenient /\ r.st = "err")
         THEN "" ELSE "nth_weekday value"
    ELSE IF r.st = "err" THEN "" ELSE "nth_weekday out of range accepted"

\* ---- op "isonew": ISOWeekDate::new --------------------------------------
IsoNewWhy(r) ==
  IF r.iy \in YearMin..YearMax /\ r.w \in 1..53 /\ ValidIsoWeekDate(r.iy, r.w, r.wd)
  THEN IF r.st = "ok" /\ r.date = DateOfEpochDay(DayOfIsoWeek(r.iy, r.w, r.wd))
       THEN "" ELSE "ISOWeekDate::new valid"
  ELSE IF r.st = "err" THEN "" ELSE "ISOWeekDate::new invalid accepted"

\* ---- op "sdate": the jiff-static copy ----------------------------------
SDateWhy(r) ==
  IF ~ValidDate(r.y, r.m, r.d)
  THEN IF r.st = "err" THEN "" ELSE "static: invalid triple accepted"
  ELSE IF r.st # "ok" THEN "static: valid date refused"
  ELSE
    LET n == EpochDayOf(r.y, r.m, r.d) IN
    IF r.eday # n THEN "static: to_epoch_day"
    ELSE IF r.back # <<r.y, r.m, r.d>> THEN "static: to_date"
    ELSE IF r.wd # WeekdayOfDay(n) \/ r.wd2 # WeekdayOfDay(n) THEN "static: weekday"
    ELSE IF r.dim # DaysInMonth(r.y, r.m) THEN "static: days_in_month"
    ELSE IF r.diy # DaysInYear(r.y) THEN "static: days_in_year"
    ELSE IF r.leap # IsLeap(r.y) THEN "static: is_leap_year"
    ELSE IF r.tom # DateOrZero(n + 1) THEN "static: tomorrow"
    ELSE IF r.yes # DateOrZero(n - 1) THEN "static: yesterday"
    ELSE IF \E i \in DOMAIN r.nth :
              r.nth[i][3] # NthWeekdayOfMonth(r.y, r.m, r.nth[i][1], r.nth[i][2])
         THEN "static: nth_weekday_of_month"
    ELSE ""

\* ---- op "dwith": Date::with() (scope "beyond": not part of C01's wording) ---------------
\* ykind 0 keep / 1 year / 2 CE era year / 3 BCE era year; mset, mv; dkind 0 keep / 1 day of month /
\* 2 day of year / 3 day of year ignoring leap days
DWithWhy(r) ==
  LET Y == CASE r.ykind = 0 -> r.o[1] [] r.ykind = 1 -> r.yv [] r.ykind = 2 -> r.yv [] OTHER -> 1 - r.yv
      yok == CASE r.ykind = 0 -> TRUE [] r.ykind = 1 -> r.yv \in YearMin..YearMax
               [] r.ykind = 2 -> r.yv \in 1..9999 [] OTHER -> r.yv \in 1..10000
      M == IF r.mset = 1 THEN r.mv ELSE r.o[2]
      mok == M \in 1..12
      exp == IF ~yok \/ ~mok THEN <<>>
             ELSE CASE r.dkind = 0 -> IF ValidDate(Y, M, r.o[3]) THEN <<Y, M, r.o[3]>> ELSE <<>>
                    [] r.dkind = 1 -> IF ValidDate(Y, M, r.dv) THEN <<Y, M, r.dv>> ELSE <<>>
                    [] r.dkind = 2 -> IF r.dv \in 1..DaysInYear(Y) THEN DateOfEpochDay(EpochDayOf(Y, 1, 1) + r.dv - 1) ELSE <<>>
                    [] OTHER -> IF r.dv \in 1..365
                                THEN DateOfEpochDay(EpochDayOf(Y, 1, 1) + r.dv - 1 + (IF IsLeap(Y) /\ r.dv >= 60 THEN 1 ELSE 0))
                                ELSE <<>>
  IN IF exp = <<>> THEN (IF r.st = "err" THEN "" ELSE "Date::with() accepted an invalid combination")
     ELSE IF r.st # "ok" THEN "Date::with() refused a valid combination"
     ELSE IF r.res # exp THEN "Date::with(): not the date the fields denote"
     ELSE ""

Why(r) ==
  IF "st" \in DOMAIN r /\ r.st = "panic" THEN "panic"
  ELSE CASE r.op = "date"   -> DateWhy(r)
         [] r.op = "nthwom" -> NthWomWhy(r)
         [] r.op = "nthwd"  -> NthWdWhy(r)
         [] r.op = "isonew" -> IsoNewWhy(r)
         [] r.op = "sdate"  -> SDateWhy(r)
         [] r.op = "dwith"  -> DWithWhy(r)
         [] OTHER           -> "unknown op"

Init == l = 1
Next == /\ l <= Len(Rec)
        /\ LET w == Why(Rec[l]) IN IF w = "" THEN TRUE ELSE PrintT("MISMATCH|" \o ToString(l) \o "|" \o w)
        /\ l' = l + 1
Spec == Init /\ [][Next]_vars

Consumed == TLCGet("stats").diameter = Len(Rec) + 1
=======================================================================
