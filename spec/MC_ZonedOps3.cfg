SPECIFICATION Spec
CONSTANT MaxLen = 3
INVARIANT SlotInv
INVARIANT EmitFull
CHECK_DEADLOCK FALSE
