---------------------------- MODULE MC_Instant ----------------------------
(* Engine C for C02: the instant <-> civil mapping that every trace         *)
(* specification uses (Instant.tla) checked against what C02 states, on a   *)
(* grid of instants (days around the epoch, year 0, a leap day and both     *)
(* limits x seconds of day at the edges x nanoseconds at the edges) x       *)
(* offsets at the edges of the documented range:                            *)
(*   civil = instant shifted by exactly the offset; the mapping is          *)
(*   invertible; fields <-> civil triple is invertible; the API form        *)
(*   (seconds, nanoseconds of one sign) <-> instant is invertible and       *)
(*   denotes the same number of nanoseconds.                                *)
EXTENDS Instant, TLC

Days == {EpochDayMin + 1, EpochDayMin + 2, -719528, -719527, -1, 0, 1, 19782, 19783, 19784, EpochDayMax - 2, EpochDayMax - 1}
Sods == {0, 1, 7199, 43200, 79200, 86398, 86399}
Nss == {0, 1, 500000000, 999999999}
Offs == {OffMin, -86400, -3600, -60, -1, 0, 1, 59, 3599, 86400, OffMax}

VARIABLES t, off
vars == <<t, off>>
Init == t \in {<<d, s, n>> : d \in Days, s \in Sods, n \in Nss} /\ off \in Offs
Next == UNCHANGED vars
Spec == Init /\ [][Next]_vars

\* nanoseconds since the epoch of a triple
BNs(x) == BAdd(BMulE9(BSecOf(x)), BOf(x[3]))

Ok ==
  LET c == CivilOfInst(t, off) IN
  /\ InstOfCivil(c, off) = t
  /\ BSub(BNs(c), BNs(t)) = BMulE9(BOf(off))
  /\ c[2] \in 0..86399 /\ c[3] \in 0..999999999
  /\ (InCivRange(c) => /\ ValidFields(FieldsOf(c))
                       /\ CivOfFields(FieldsOf(c)) = c)
  /\ LET a == ApiOfInst(t) IN
       /\ ApiSignsOk(a[1], a[2])
       /\ InstOfApi(a[1], a[2]) = t
       /\ BNanosOfApi(a[1], a[2]) = BNs(t)
=======================================================================
