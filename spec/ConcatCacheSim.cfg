SPECIFICATION SimSpec
CONSTANTS
  Thread = {t1}
  Name = {a, b, c}
  MaxVer = 14
  MaxClock = 10
  TTL = 2
  MaxOps = 12
INVARIANTS Dump SimInv
CHECK_DEADLOCK FALSE
