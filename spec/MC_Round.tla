---------------------------- MODULE MC_Round ----------------------------
(* Small-scope check of Round.tla: for every x, increment and mode,      *)
(*  (1) exactly one multiple satisfies the declarative RoundOkInt,        *)
(*  (2) it is the value computed by the transcription of jiff's           *)
(*      RoundMode::round (RoundAlg),                                      *)
(*  (3) the BigInt form RoundOk agrees with the native form.              *)
EXTENDS Round, TLC

VARIABLES x, inc, mode
Init == x \in -130..130 /\ inc \in 1..13 /\ mode \in Modes
Next == UNCHANGED <<x, inc, mode>>
Spec == Init /\ [][Next]_<<x, inc, mode>>

Cands == {k * inc : k \in ((x \div inc) - 2)..((x \div inc) + 2)}
UniqueAndAlg ==
  LET S == {R \in Cands : RoundOkInt(mode, x, inc, R)} IN
  /\ S = {RoundAlg(mode, x, inc)}
\* the typed copy that Apalache checks for ALL integers (AP_Round.tla) is the same pair of definitions
AP == INSTANCE AP_Round
SameAsTyped ==
  /\ AP!RoundAlg(mode, x, inc) = RoundAlg(mode, x, inc)
  /\ \A R \in Cands : AP!RoundOkInt(mode, x, inc, R) = RoundOkInt(mode, x, inc, R)
BigAgrees ==
  \A R \in Cands :
     RoundOk(mode, BOf(x), BOf(inc), BOf(R), BOf(R \div inc)) = RoundOkInt(mode, x, inc, R)
=======================================================================
