--------------------------- MODULE Calendar ---------------------------
(* The proleptic Gregorian calendar, stated from first principles:        *)
(* the 4/100/400 leap rule, the month-length table, and "1970-01-01 is    *)
(* day 0 and a Thursday".  No Neri-Schneider, no magic constants shared   *)
(* with the implementation.  CalendarWalk.tla model-checks every closed   *)
(* form in here against a pure successor machine over all 7,304,484 days. *)
(* Weekdays are ISO numbers: Monday = 1 .. Sunday = 7.                    *)
EXTENDS Integers, Sequences

YearMin == -9999
YearMax == 9999

IsLeap(y) == (y % 4 = 0 /\ y % 100 # 0) \/ y % 400 = 0

DaysInMonth(y, m) ==
  CASE m \in {1, 3, 5, 7, 8, 10, 12} -> 31
    [] m \in {4, 6, 9, 11}           -> 30
    [] m = 2                          -> IF IsLeap(y) THEN 29 ELSE 28

DaysInYear(y) == IF IsLeap(y) THEN 366 ELSE 365

ValidDate(y, m, d) ==
  /\ y \in YearMin..YearMax
  /\ m \in 1..12
  /\ d >= 1 /\ d <= DaysInMonth(y, m)

\* number of leap years in 1..n (n may be negative or zero: floor division)
LeapsThrough(n) == (n \div 4) - (n \div 100) + (n \div 400)

\* epoch day of January 1st of year y.  1969 has LeapsThrough = 477.
DaysBeforeYear(y) == 365 * (y - 1970) + (LeapsThrough(y - 1) - 477)

CumDays == <<0, 31, 59, 90, 120, 151, 181, 212, 243, 273, 304, 334>>
DaysBeforeMonth(y, m) == CumDays[m] + (IF m > 2 /\ IsLeap(y) THEN 1 ELSE 0)

DayOfYear(y, m, d) == DaysBeforeMonth(y, m) + d
\* "as if the year were not leap": Feb 29 has none
DayOfYearNoLeap(y, m, d) ==
  IF m = 2 /\ d = 29 THEN 0 ELSE CumDays[m] + d

EpochDayOf(y, m, d) == DaysBeforeYear(y) + DayOfYear(y, m, d) - 1

EpochDayMin == EpochDayOf(YearMin, 1, 1)    \* -4371587
EpochDayMax == EpochDayOf(YearMax, 12, 31)  \*  2932896

YearOfEpochDay(n) ==
  LET a == 1970 + ((n * 400) \div 146097)
  IN  CHOOSE y \in (a - 1)..(a + 1) :
        DaysBeforeYear(y) <= n /\ n < DaysBeforeYear(y + 1)

DateOfEpochDay(n) ==
  LET y   == YearOfEpochDay(n)
      doy == n - DaysBeforeYear(y) + 1
      m   == CHOOSE mm \in 1..12 :
               /\ DaysBeforeMonth(y, mm) < doy
               /\ doy <= DaysBeforeMonth(y, mm) + DaysInMonth(y, mm)
  IN  <<y, m, doy - DaysBeforeMonth(y, m)>>

\* ISO weekday number of an epoch day; day 0 is a Thursday (4)
WeekdayOfDay(n) == ((n + 3) % 7) + 1
WeekdayOf(y, m, d) == WeekdayOfDay(EpochDayOf(y, m, d))

\* ISO 8601 week date: the week belongs to the year that holds its Thursday
IsoWeekOfDay(n) ==
  LET wd  == WeekdayOfDay(n)
      thu == n - wd + 4
      iy  == YearOfEpochDay(thu)
      wk  == ((thu - DaysBeforeYear(iy)) \div 7) + 1
  IN  <<iy, wk, wd>>

\* Monday of ISO week 1 of year iy is the Monday of the week holding Jan 4
IsoWeek1Monday(iy) ==
  LET j4 == DaysBeforeYear(iy) + 3 IN j4 - (WeekdayOfDay(j4) - 1)
DayOfIsoWeek(iy, w, wd) == IsoWeek1Monday(iy) + 7 * (w - 1) + (wd - 1)
WeeksInIsoYear(iy) == (IsoWeek1Monday(iy + 1) - IsoWeek1Monday(iy)) \div 7
\* valid iff a week of that year and the day is inside the supported range
ValidIsoWeekDate(iy, w, wd) ==
  /\ iy \in YearMin..YearMax /\ wd \in 1..7 /\ w >= 1
  /\ w <= WeeksInIsoYear(iy)
  /\ DayOfIsoWeek(iy, w, wd) \in EpochDayMin..EpochDayMax

\* nth (1..5 or -1..-5) given weekday of a month; 0 when there is none
NthWeekdayOfMonth(y, m, nth, wd) ==
  LET dim == DaysInMonth(y, m) IN
  IF nth > 0
  THEN LET first == WeekdayOf(y, m, 1)
           day   == 1 + ((wd - first) % 7) + 7 * (nth - 1)
       IN  IF day <= dim THEN day ELSE 0
  ELSE LET last == WeekdayOf(y, m, dim)
           day  == dim - ((last - wd) % 7) - 7 * ((0 - nth) - 1)
       IN  IF day >= 1 THEN day ELSE 0

\* nth weekday strictly after (nth > 0) / strictly before (nth < 0) day n
NthWeekdayFromDay(n, nth, wd) ==
  IF nth > 0
  THEN n + 1 + ((wd - WeekdayOfDay(n + 1)) % 7) + 7 * (nth - 1)
  ELSE n - 1 - ((WeekdayOfDay(n - 1) - wd) % 7) - 7 * ((0 - nth) - 1)
=======================================================================
