--------------------------- MODULE Trace_Text ---------------------------
(* C09 (civil types and timestamps): the printed text is read by the       *)
(* independent reader of Rfc3339.tla; the decoded value must be the        *)
(* original (to the configured precision) and jiff's own re-parse must     *)
(* return it too.  Zoned values are handled in Trace_Zoned.tla (they need  *)
(* the zone).                                                              *)
EXTENDS Instant, Rfc3339, TLC, Json, IOUtils

Rec == ndJsonDeserialize(IOEnv.TRACE)
VARIABLE l
vars == <<l>>

\* nanoseconds truncated to p fraction digits (p = -1: all of them)
TruncNs(ns, p) == IF p < 0 THEN ns ELSE (ns \div Pow10(9 - p)) * Pow10(9 - p)
\* digits the printer must emit: exactly p, or (p = -1) the fewest that are lossless
DigitsOk(ns, p, k) == IF p >= 0 THEN k = p
                      ELSE (ns = 0 /\ k = 0) \/ (ns # 0 /\ k \in 1..9 /\ ns % Pow10(9 - k) = 0)
SepOk(r, c) == c = r.sep

PpTsWhy(r) ==
  LET t == InstOfApi(r.sec, r.ns)
      c == CivilOfInst(t, r.off)
      p == RdInstant(r.text, FALSE)
  IN IF ~p.ok THEN "printed timestamp is not valid RFC 3339"
     ELSE IF ~ValidFields(p.fields) THEN "printed timestamp has invalid fields"
     ELSE IF p.sep # r.sep THEN "separator option ignored"
     ELSE IF (r.off = 0 /\ r.zulu = 1) # p.zulu THEN "Z / numeric offset"
     ELSE IF ~DigitsOk(c[3], r.prec, p.digits) THEN "fraction digits / precision"
     ELSE IF p.fields # FieldsOf(<<c[1], c[2], TruncNs(c[3], r.prec)>>) THEN "printed civil fields"
     ELSE IF ~p.zulu /\ p.off # r.off THEN "printed offset"
     \* an independent reader decodes the same instant
     ELSE IF r.prec < 0 /\ InstOfCivil(CivOfFields(p.fields), p.off) # t THEN "text does not denote the instant"
     \* jiff's own parser returns the instant the text denotes
     ELSE IF r.re.st # "ok" THEN "jiff refuses its own output"
     ELSE IF InstOfApi(r.re.rsec, r.re.rns) # InstOfCivil(CivOfFields(p.fields), p.off) THEN "re-parse differs from the text"
     ELSE ""

PpDtWhy(r) ==
  LET c == CivOfFields(r.civil)
      p == RdCivilDateTime(r.text)
  IN IF ~p.ok THEN "printed datetime is not valid"
     ELSE IF p.sep # r.sep THEN "separator option ignored"
     ELSE IF ~DigitsOk(c[3], r.prec, p.digits) THEN "fraction digits / precision"
     ELSE IF p.fields # FieldsOf(<<c[1], c[2], TruncNs(c[3], r.prec)>>) THEN "printed civil fields"
     ELSE IF r.re # p.fields THEN "re-parse differs from the text"
     ELSE ""

PpDateWhy(r) ==
  LET p == RdCivilDate(r.text) IN
  IF ~p.ok THEN "printed date is not valid"
  ELSE IF p.fields # r.date THEN "printed date fields"
  ELSE IF r.re # r.date THEN "re-parse differs"
  ELSE ""

PpTimeWhy(r) ==
  LET p == RdCivilTime(r.text) IN
  IF ~p.ok THEN "printed time is not valid"
  ELSE IF ~DigitsOk(r.tod[4], r.prec, p.digits) THEN "fraction digits / precision"
  ELSE IF p.fields # <<r.tod[1], r.tod[2], r.tod[3], TruncNs(r.tod[4], r.prec)>> THEN "printed time fields"
  ELSE IF r.re # p.fields THEN "re-parse differs from the text"
  ELSE ""

\* ---- the parser on texts of the grammar (not only the printer's output) -----------------------------
RdTsWhy(r) ==
  LET p == RdInstant(r.text, FALSE) IN
  IF ~p.ok THEN "harness: generated text is outside the reader's grammar"
  ELSE IF r.re.st = "panic" THEN "parse_timestamp panicked"
  ELSE IF ~ValidFields(p.fields) THEN (IF r.re.st = "err" THEN "" ELSE "parse_timestamp accepted invalid fields")
  ELSE LET t == InstOfCivil(CivOfFields(p.fields), p.off) IN
       IF ~InTsRange(t) THEN (IF r.re.st = "err" THEN "" ELSE "parse_timestamp accepted an out-of-range instant")
       ELSE IF r.re.st # "ok" THEN "parse_timestamp refuses a valid RFC 3339 text"
       ELSE IF InstOfApi(r.re.rsec, r.re.rns) # t THEN "parse_timestamp: not the instant the text denotes"
       ELSE ""
RdDtWhy(r) ==
  LET p == RdCivilDateTime(r.text) IN
  IF ~p.ok THEN "harness: generated text is outside the reader's grammar"
  ELSE IF r.re = <<-1>> THEN "parse_datetime panicked"
  ELSE IF ~ValidFields(p.fields) THEN (IF r.re = <<>> THEN "" ELSE "parse_datetime accepted invalid fields")
  ELSE IF r.re # p.fields THEN "parse_datetime: not the datetime the text denotes"
  ELSE ""

Why(r) ==
  CASE r.op = "rd_ts"   -> RdTsWhy(r)
    [] r.op = "rd_dt"   -> RdDtWhy(r)
    [] r.op = "pp_ts"   -> PpTsWhy(r)
    [] r.op = "pp_dt"   -> PpDtWhy(r)
    [] r.op = "pp_date" -> PpDateWhy(r)
    [] r.op = "pp_time" -> PpTimeWhy(r)
    [] OTHER            -> "unknown op"

Init == l = 1
Next == /\ l <= Len(Rec)
        /\ LET w == Why(Rec[l]) IN IF w = "" THEN TRUE ELSE PrintT("MISMATCH|" \o ToString(l) \o "|" \o w)
        /\ l' = l + 1
Spec == Init /\ [][Next]_vars
Consumed == TLCGet("stats").diameter = Len(Rec) + 1
=======================================================================
