------------------------------ MODULE Ranges ------------------------------
(* The documented range of every public value type, as a predicate on the  *)
(* projection the harness emits for a value (C05, C17):                    *)
(*   ts    [sec (BigInt), ns]          Timestamp::MIN ..= Timestamp::MAX    *)
(*   zoned [sec, ns, f = <<y,m,d,h,mi,s,ns,off>>]  timestamp in range,      *)
(*         offset in range, civil fields = timestamp + offset               *)
(*   dt / date / time   valid civil fields                                  *)
(*   span  u = ten BigInts             every unit within its limit, one sign*)
(*   sd    [sec (BigInt), ns]          |ns| < 10^9, signs agree             *)
(*   tm    strptime fields             each present field within its range  *)
(*   tz    [offs_ok]                   every reported offset in range       *)
(*   off   [s]                         Offset::MIN ..= Offset::MAX          *)
(*   f64   [finite]  ord  unit  none   nothing to check beyond being a value*)
EXTENDS CivilArith

InRange(lo, x, hi) == lo <= x /\ x <= hi
\* strptime fields; -100000 = absent
TmField(x, lo, hi) == x = -100000 \/ InRange(lo, x, hi)
TmOk(t) == /\ TmField(t[1], YearMin, YearMax) /\ TmField(t[2], 1, 12) /\ TmField(t[3], 1, 31)
           /\ TmField(t[4], 0, 23) /\ TmField(t[5], 0, 59) /\ TmField(t[6], 0, 59) /\ TmField(t[7], 0, 999999999)
           /\ TmField(t[8], OffMin, OffMax) /\ TmField(t[9], 1, 366) /\ TmField(t[10], YearMin, YearMax)
           /\ TmField(t[11], 1, 53) /\ TmField(t[12], 0, 53) /\ TmField(t[13], 0, 53)

SpanOf(u) == [y |-> BToInt(u[1]), mo |-> BToInt(u[2]), w |-> BToInt(u[3]), d |-> BToInt(u[4]), h |-> BToInt(u[5]),
              mi |-> u[6], s |-> u[7], ms |-> u[8], us |-> u[9], ns |-> u[10]]
SpanSane(u) == /\ \A i \in 1..5 : BFitsInt(u[i])
               /\ SpanInLimits(SpanOf(u))
               \* one sign for every unit
               /\ ~(\E i, j \in 1..10 : u[i].s = 1 /\ u[j].s = -1)

ValueWhy(kind, v) ==
  CASE kind = "ts" ->
         (IF ~ApiSignsOk(v.sec, v.ns) \/ ~SecFits(FloorSec(v.sec, v.ns)) THEN "timestamp fields malformed"
          ELSE IF ~InTsRange(InstOfApi(v.sec, v.ns)) THEN "timestamp outside Timestamp::MIN..=MAX" ELSE "")
    [] kind = "zoned" ->
         (IF ~ApiSignsOk(v.sec, v.ns) \/ ~SecFits(FloorSec(v.sec, v.ns)) THEN "timestamp fields malformed"
          ELSE LET t == InstOfApi(v.sec, v.ns) IN
               IF ~InTsRange(t) THEN "zoned timestamp outside Timestamp::MIN..=MAX"
               ELSE IF ~InRange(OffMin, v.f[8], OffMax) THEN "offset outside Offset::MIN..=MAX"
               ELSE IF SubSeq(v.f, 1, 7) # FieldsOf(CivilOfInst(t, v.f[8])) THEN "civil fields are not timestamp + offset"
               ELSE "")
    [] kind \in {"dt", "pieces"} -> (IF ValidFields(v.f) THEN "" ELSE "datetime fields out of range")
    [] kind = "date" -> (IF ValidDate(v.f[1], v.f[2], v.f[3]) THEN "" ELSE "date out of range")
    [] kind = "time" -> (IF InRange(0, v.f[1], 23) /\ InRange(0, v.f[2], 59) /\ InRange(0, v.f[3], 59) /\ InRange(0, v.f[4], 999999999)
                           THEN "" ELSE "time out of range")
    [] kind = "span" -> (IF SpanSane(v.u) THEN "" ELSE "span beyond its unit limits or of mixed sign")
    [] kind = "sd" -> (IF v.ns > -NsPerSec /\ v.ns < NsPerSec /\ ~(v.sec.s = 1 /\ v.ns < 0) /\ ~(v.sec.s = -1 /\ v.ns > 0)
                         THEN "" ELSE "duration seconds and nanoseconds malformed")
    [] kind = "tm" -> (IF ~TmOk(v.tm) THEN "broken-down time field out of range"
                         ELSE IF v.dt # <<>> /\ ~ValidFields(v.dt) THEN "datetime fields out of range" ELSE "")
    \* (whether the transitions of a zone built from hostile data come out in order is
    \* recorded in the event but not demanded: the property asks for answers, not for sense)
    [] kind = "tz" -> (IF v.offs_ok # 1 THEN "accepted time zone reports an offset outside Offset::MIN..=MAX" ELSE "")
    [] kind = "off" -> (IF InRange(OffMin, v.s, OffMax) THEN "" ELSE "offset outside Offset::MIN..=MAX")
    [] kind = "iso" -> (IF ValidIsoWeekDate(v.f[1], v.f[2], v.f[3]) THEN "" ELSE "ISO week date out of range")
    [] kind = "f64" -> (IF v.finite = 1 THEN "" ELSE "non-finite floating point result")
    [] kind \in {"ord", "none", "int"} -> ""
    [] OTHER -> "unknown value kind"
=======================================================================
