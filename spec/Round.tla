----------------------------- MODULE Round -----------------------------
(* Rounding to a multiple of an increment, stated declaratively on exact  *)
(* integers (BigInt): R = m * inc is THE rounding of x under a mode iff   *)
(* |x - R| < inc and R lies on the side the mode prescribes; for the      *)
(* "half" modes R is a nearest multiple and a tie is broken by the mode's  *)
(* rule.  For each x, inc > 0 and mode exactly one R satisfies RoundOk     *)
(* (MC_Round.tla checks that, and that jiff's algorithm, transcribed as   *)
(* RoundAlg, computes it, on bounded integers).                            *)
EXTENDS BigInt

Modes == {"ceil", "floor", "expand", "trunc",
          "half-ceil", "half-floor", "half-expand", "half-trunc", "half-even"}

BigEven(m) == m.m = <<>> \/ m.m[1] % 2 = 0

\* x, inc, R, m are BigInts, inc > 0
RoundOk(mode, x, inc, R, m) ==
  LET d  == BSub(x, R)                      \* > 0: R below x ; < 0: R above x
      c  == BCmp(BMulSmall(BAbs(d), 2), inc)  \* < 0 nearer than half, = 0 tie
      up == d.s < 0
      dn == d.s > 0
  IN  /\ R = BMul(m, inc)
      /\ BLt(BAbs(d), inc)
      /\ CASE mode = "floor"  -> ~up
           [] mode = "ceil"   -> ~dn
           [] mode = "trunc"  -> IF x.s >= 0 THEN ~up ELSE ~dn
           [] mode = "expand" -> IF x.s >= 0 THEN ~dn ELSE ~up
           [] mode = "half-ceil"   -> c < 0 \/ (c = 0 /\ up)
           [] mode = "half-floor"  -> c < 0 \/ (c = 0 /\ dn)
           [] mode = "half-expand" -> c < 0 \/ (c = 0 /\ (IF x.s >= 0 THEN up ELSE dn))
           [] mode = "half-trunc"  -> c < 0 \/ (c = 0 /\ (IF x.s >= 0 THEN dn ELSE up))
           [] mode = "half-even"   -> c < 0 \/ (c = 0 /\ BigEven(m))

\* ---- the same on native integers (for model checking in small scope) -----
Abs(i) == IF i < 0 THEN 0 - i ELSE i
Sgn(i) == IF i > 0 THEN 1 ELSE IF i < 0 THEN -1 ELSE 0
RoundOkInt(mode, x, inc, R) ==
  LET d == x - R  c == Sgn(2 * Abs(d) - inc)  up == d < 0  dn == d > 0  m == R \div inc IN
  /\ R % inc = 0 /\ Abs(d) < inc
  /\ CASE mode = "floor"  -> ~up
       [] mode = "ceil"   -> ~dn
       [] mode = "trunc"  -> IF x >= 0 THEN ~up ELSE ~dn
       [] mode = "expand" -> IF x >= 0 THEN ~dn ELSE ~up
       [] mode = "half-ceil"   -> c < 0 \/ (c = 0 /\ up)
       [] mode = "half-floor"  -> c < 0 \/ (c = 0 /\ dn)
       [] mode = "half-expand" -> c < 0 \/ (c = 0 /\ (IF x >= 0 THEN up ELSE dn))
       [] mode = "half-trunc"  -> c < 0 \/ (c = 0 /\ (IF x >= 0 THEN dn ELSE up))
       [] mode = "half-even"   -> c < 0 \/ (c = 0 /\ m % 2 = 0)

\* transcription of jiff's RoundMode::round (src/util/round/mode.rs):
\* truncating quotient and remainder, then a per-mode adjustment
TruncDiv(a, b) == Sgn(a) * (Abs(a) \div b)
RoundAlg(mode, x, inc) ==
  LET quot == TruncDiv(x, inc)
      rem  == x - quot * inc
      sign == IF rem < 0 THEN -1 ELSE 1
      tiebreaker == Abs(rem * 2)
      tie == tiebreaker = inc
      expandIsNearer == tiebreaker > inc
      q2 == CASE mode = "ceil"   -> IF sign > 0 /\ rem # 0 THEN quot + 1 ELSE quot
              [] mode = "floor"  -> IF sign < 0 /\ rem # 0 THEN quot - 1 ELSE quot
              [] mode = "expand" -> IF rem # 0 THEN quot + sign ELSE quot
              [] mode = "trunc"  -> quot
              [] mode = "half-ceil"   -> IF expandIsNearer \/ (tie /\ sign > 0) THEN quot + sign ELSE quot
              [] mode = "half-floor"  -> IF expandIsNearer \/ (tie /\ sign < 0) THEN quot + sign ELSE quot
              [] mode = "half-expand" -> IF expandIsNearer \/ tie THEN quot + sign ELSE quot
              [] mode = "half-trunc"  -> IF expandIsNearer THEN quot + sign ELSE quot
              [] mode = "half-even"   -> IF expandIsNearer \/ (tie /\ quot % 2 = 1) THEN quot + sign ELSE quot
  IN  q2 * inc
=======================================================================
