----------------------------- MODULE ZonedOps -----------------------------
(* Engine B for C13: the operation alphabet on a zoned datetime and the    *)
(* one piece of abstract state a history carries, the time zone the value  *)
(* is in (slot 1 or 2: with_time_zone switches it, every other operation   *)
(* keeps it).  TLC enumerates every history up to MaxLen over the alphabet *)
(* (model checking) or samples longer ones (simulation); the harness runs  *)
(* each on real Zoned values from instants around transitions, choosing    *)
(* the magnitudes; Trace_Zoned.tla checks every intermediate value for     *)
(* well-formedness, Eq / Ord / Hash and instant preservation.              *)
(*                                                                         *)
(*  0 checked_add(span, any units)     8 last_of_month                     *)
(*  1 checked_add(single small unit)   9 round(unit, increment, mode)      *)
(*  2 checked_sub(days/hours/minutes) 10 with().hour().minute()            *)
(*  3 start_of_day                    11 with().month().day()              *)
(*  4 end_of_day                      12 nth_weekday                       *)
(*  5 tomorrow                        13 Display -> parse                  *)
(*  6 yesterday                       14 datetime().to_zoned(same zone)    *)
(*  7 first_of_month                  15 with_time_zone(other zone)        *)
(* 16 checked_add(SignedDuration)     17 saturating_add / saturating_sub   *)
(* 18 with().offset(...) resolution   19 strftime -> strptime (%Q and %z)  *)
EXTENDS Integers, Sequences, TLC, Json

CONSTANT MaxLen
Ops == 0..19
SwitchesZone(op) == op = 15

VARIABLES hist, slot
vars == <<hist, slot>>
Init == hist = <<>> /\ slot = 1
Next == /\ Len(hist) < MaxLen
        /\ \E op \in Ops : /\ hist' = Append(hist, [op |-> op, slot |-> IF SwitchesZone(op) THEN 3 - slot ELSE slot])
                           /\ slot' = IF SwitchesZone(op) THEN 3 - slot ELSE slot
Spec == Init /\ [][Next]_vars

\* the zone slot is a function of the number of switches so far
SlotInv == slot = 1 + (Len(SelectSeq(hist, LAMBDA h : SwitchesZone(h.op))) % 2)
\* prints every complete history
EmitFull == Len(hist) < MaxLen \/ PrintT(<<"HIST", ToJson([i \in 1..Len(hist) |-> hist[i].op])>>)
=======================================================================
