-------------------------- MODULE TzHandleSim --------------------------
(* Engine B for C20: TLC generates handle programs (new / clone / drop,   *)
(* optionally executed on another thread) together with the projection   *)
(* the real code must show after every step: per slot the pointer tag,   *)
(* the heap object it refers to and that object's strong count; per heap *)
(* object how often it has been freed; and the value equality of every   *)
(* pair of live handles.                                                 *)
EXTENDS TzHandle, Json

CONSTANT Len_

VARIABLE hist
simvars == <<vars, hist>>

SlotSeq == CHOOSE s \in [1..Cardinality(Slot) -> Slot] : \A i, j \in 1..Cardinality(Slot) : i # j => s[i] # s[j]

\* expected projection of the state after a step
Proj ==
  [slots |-> [i \in 1..Cardinality(Slot) |->
                LET h == handle'[SlotSeq[i]] IN
                IF h.live THEN <<1, TagOf(NormKind(h.kind, h.val)), h.obj, IF h.obj > 0 THEN rc'[h.obj] ELSE 0>>
                ELSE <<0, 0, 0, 0>>],
   freed |-> [o \in 1..MaxObj |-> freed'[o]],
   eq |-> [i \in 1..Cardinality(Slot) |-> [j \in 1..Cardinality(Slot) |->
             LET a == handle'[SlotSeq[i]]  b == handle'[SlotSeq[j]]
                 ka == NormKind(a.kind, a.val)  kb == NormKind(b.kind, b.val)
             IN  IF a.live /\ b.live THEN (IF ka = kb /\ (ka \in {"utc", "unknown"} \/ a.val = b.val) THEN 1 ELSE 0) ELSE -1]]]

Idx(h) == CHOOSE i \in 1..Cardinality(Slot) : SlotSeq[i] = h

SimInit == Init /\ hist = <<>>
SimNext ==
  /\ Len(hist) < Len_
  /\ \E h \in Slot, thr \in {0, 1} :
       \/ \E k \in Kinds, v \in Content :
            New(h, k, v) /\ hist' = Append(hist, [op |-> "new", h |-> Idx(h), kind |-> k, val |-> v, thr |-> 0, exp |-> Proj])
       \/ \E g \in Slot :
            Clone(h, g) /\ hist' = Append(hist, [op |-> "clone", h |-> Idx(h), g |-> Idx(g), thr |-> thr, exp |-> Proj])
       \/ Drop(h) /\ hist' = Append(hist, [op |-> "drop", h |-> Idx(h), thr |-> thr, exp |-> Proj])
SimSpec == SimInit /\ [][SimNext]_simvars

Done == Len(hist) = Len_
Dump == Done => PrintT(<<"PROG", ToJson(hist)>>)
SimInv == RcInv /\ FreeInv /\ NoUseAfterFree /\ EqLaws
=======================================================================
