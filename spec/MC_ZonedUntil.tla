--------------------------- MODULE MC_ZonedUntil ---------------------------
(* Engine C for the zoned difference (C07): is the span that the            *)
(* specification *expects* from Zoned::until (ZUntil of SpanRel.tla, the    *)
(* operator the trace specifications of C07 and C11 judge jiff with) a      *)
(* span with the properties C07 states?  Every zone of a tiny universe      *)
(* (transitions at half-hour marks around a midnight that is also a month   *)
(* boundary, offsets -1h / 0 / +1h: gaps, folds, set-backs and set-forwards *)
(* that cross midnight) x every ordered pair of probe instants x every      *)
(* largest unit from days to years:                                         *)
(*    a (+) ZUntil(a, b) = b,  one sign (that of b - a),  nothing above the *)
(*    largest unit, and less than a day of time units unless a transition   *)
(*    lengthens the last day.                                               *)
(* A design that followed Temporal's day-correction search where the civil  *)
(* dates run against the instants fails this model (and jiff failed the     *)
(* same inputs: KNOWN_FINDINGS D46).                                        *)
EXTENDS SpanRel, TLC

CONSTANT NMarks
\* epoch day 59 is 1970-03-01: the midnight between day 58 and 59 ends February
D0 == 59
Marks == {<<D0 - 1, 84600>>} \cup {<<D0, 1800 * k>> : k \in 0..(NMarks - 2)}
Offs == {-3600, 0, 3600}
NoRule == [has |-> 0, std |-> <<0, "X">>, hasdst |-> 0]

RECURSIVE SeqsOver(_)
SeqsOver(S) ==
  IF S = {} THEN {<<>>}
  ELSE LET m == CHOOSE x \in S : \A y \in S : TLe(<<y[1], y[2], 0>>, <<x[1], x[2], 0>>)
           rest == SeqsOver(S \ {m})
       IN rest \cup {Append(r, <<m[1], m[2], k>>) : r \in rest, k \in 1..3}
Zones == {[types |-> <<<<o1, 0, "A">>, <<o2, 1, "B">>, <<o3, 0, "C">>>>, trans |-> tr, rule |-> NoRule] :
            o1 \in Offs, o2 \in Offs, o3 \in Offs, tr \in SeqsOver(Marks)}

\* probe instants: around every mark, and a month and a day away on either side
Near(m) == {AddNs(<<m[1], m[2], 0>>, d) : d \in {-1, 0, 1}} \cup {NormT(m[1], m[2] + 900, 0), NormT(m[1], m[2] - 900, 500000000)}
Probes == UNION {Near(m) : m \in Marks}
          \cup {<<D0 - 31, 84000, 0>>, <<D0 - 2, 43200, 0>>, <<D0 + 1, 600, 1>>, <<D0 + 31, 3000, 0>>}

VARIABLES z, a, b
vars == <<z, a, b>>
\* one initial state per zone; the pairs are successor states, so that the workers share them
P0 == CHOOSE p \in Probes : TRUE
Init == z \in Zones /\ a = P0 /\ b = P0
Next == a = P0 /\ b = P0 /\ a' \in Probes /\ b' \in Probes /\ z' = z
Spec == Init /\ [][Next]_vars

SignOf(sp) == IF \E k \in 0..9 : SGet(sp, k).s = 1 THEN 1 ELSE IF \E k \in 0..9 : SGet(sp, k).s = -1 THEN -1 ELSE 0

UntilOk ==
  \A L \in 6..9 :
    LET u == ZUntil(z, a, b, L) IN
    u.ok =>
      /\ OneSign(u.sp)
      /\ SignOf(u.sp) = Sign3(a, b)
      /\ \A k \in (L + 1)..9 : SGet(u.sp, k) = BZero
      /\ (ZAddSettled(z, a, u.sp) => ZAdd(z, a, u.sp) = b)
      \* the time units never reach two days
      /\ BLt(BAbs(SpanTimeNs(u.sp)), BMulSmall(BDayNs, 2))
\* start of a civil day (C06), as the trace specification expects it: the least instant whose civil date is
\* that day (end_of_day is not part of the property: the specification follows its documentation)
DayOk ==
  \A d \in {D0 - 1, D0} :
    LET s == StartOfDayC(z, d) IN
    (s # <<>> /\ StartSettled(z, d)) =>
          /\ CivilAt(z, s)[1] = d
          /\ CivilAt(z, AddNs(s, -1))[1] # d
          /\ (CivilAt(z, a)[1] = d => TLe(s, a))
\* the unsettled cases are rare: the model is not vacuous
Settles == \A L \in 6..9 : ZUntil(z, a, b, L).ok \/ Sign3(a, b) # 0
=======================================================================
