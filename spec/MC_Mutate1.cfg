SPECIFICATION Spec
CONSTANT MaxLen = 1
INVARIANT Emit
CHECK_DEADLOCK FALSE
