--------------------------- MODULE Trace_Civil ---------------------------
(* Trace validation for C08 (civil arithmetic), C10 (rounding of          *)
(* Timestamp / Time / DateTime / SignedDuration / Offset) and C07         *)
(* (differences of civil types and timestamps).                            *)
EXTENDS CivilOps, TLC, Json, IOUtils

Rec == ndJsonDeserialize(IOEnv.TRACE)
VARIABLE l
vars == <<l>>

\* results are always sequences: the fields when Ok, <<>> for Err, <<-1>>
\* for a panic (TLC refuses to compare values of different shapes)
Eq(x, exp) == x = exp
ResIs(x, exp) == x = exp        \* exp = <<>> means "must be an error"
IsSeq(x) == x # <<>> /\ x # <<-1>> /\ x # <<-2>>

DateFieldsOfDay(n) == DateOfEpochDay(n)

\* ---- C08: Date + span ------------------------------------------------------------
DateExp(r, sp) ==
  LET e == DateAddSpan(r.date[1], r.date[2], r.date[3], sp) IN
  IF e = <<>> THEN <<>> ELSE DateFieldsOfDay(e[1])
DateAddWhy(r) ==
  LET ea == DateExp(r, r.span)
      es == DateExp(r, SpanNeg(r.span))
      sg == SpanSign(r.span)
  IN  IF ~ResIs(r.add, ea) THEN "Date::checked_add(span)"
      ELSE IF ~ResIs(r.sub, es) THEN "Date::checked_sub(span) is not addition of the negated span"
      ELSE IF ~Eq(r.sat, IF ea # <<>> THEN ea ELSE IF sg > 0 THEN <<9999, 12, 31>> ELSE <<-9999, 1, 1>>)
           THEN "Date::saturating_add(span)"
      ELSE ""

\* ---- C08: DateTime + span -----------------------------------------------------------
DtExp(c, sp) ==
  LET e == DateTimeAddSpan(c, sp) IN IF e = <<>> THEN <<>> ELSE FieldsOf(e)
DtAddWhy(r) ==
  LET c == CivOfFields(r.civil)
      ea == DtExp(c, r.span)
      es == DtExp(c, SpanNeg(r.span))
      sg == SpanSign(r.span)
  IN  IF ~ResIs(r.add, ea) THEN "DateTime::checked_add(span)"
      ELSE IF ~ResIs(r.sub, es) THEN "DateTime::checked_sub(span) is not addition of the negated span"
      ELSE IF ~Eq(r.sat, IF ea # <<>> THEN ea ELSE IF sg > 0 THEN FieldsOf(CivMax) ELSE FieldsOf(CivMin))
           THEN "DateTime::saturating_add(span)"
      ELSE ""

\* ---- C08: absolute durations on DateTime / Date / Time --------------------------------
DurAddWhy(r) ==
  LET c == CivOfFields(r.civil)
      T == BNanosOfApi(r.dsec, r.dns)
      ea == LET e == DateTimeAddNs(c, T) IN IF e = <<>> THEN <<>> ELSE FieldsOf(e)
      es == LET e == DateTimeAddNs(c, BNeg(T)) IN IF e = <<>> THEN <<>> ELSE FieldsOf(e)
      da == LET e == DateAddNs(r.civil[1], r.civil[2], r.civil[3], T) IN IF e = <<>> THEN <<>> ELSE DateFieldsOfDay(e[1])
      tw == TimeWrapNs(c[2], c[3], T)
      tws == TimeWrapNs(c[2], c[3], BNeg(T))
      tc == TimeCheckedNs(c[2], c[3], T)
  IN  IF ~ResIs(r.add, ea) THEN "DateTime::checked_add(duration)"
      ELSE IF ~ResIs(r.sub, es) THEN "DateTime::checked_sub(duration)"
      ELSE IF ~Eq(r.sat, IF ea # <<>> THEN ea ELSE IF T.s > 0 THEN FieldsOf(CivMax) ELSE FieldsOf(CivMin))
           THEN "DateTime::saturating_add(duration)"
      ELSE IF ~ResIs(r.dadd, da) THEN "Date::checked_add(duration)"
      ELSE IF ~Eq(r.dsat, IF da # <<>> THEN da ELSE IF T.s > 0 THEN <<9999, 12, 31>> ELSE <<-9999, 1, 1>>)
           THEN "Date::saturating_add(duration)"
      ELSE IF ~Eq(r.twrap, TimeFields(tw[1], tw[2])) THEN "Time::wrapping_add(duration)"
      ELSE IF ~Eq(r.twraps, TimeFields(tws[1], tws[2])) THEN "Time::wrapping_sub(duration)"
      ELSE IF ~ResIs(r.tchk, IF tc = <<>> THEN <<>> ELSE TimeFields(tc[1], tc[2])) THEN "Time::checked_add(duration)"
      ELSE IF ~Eq(r.tsat, IF tc # <<>> THEN TimeFields(tc[1], tc[2])
                        ELSE IF T.s > 0 THEN TimeFields(86399, 999999999) ELSE TimeFields(0, 0))
           THEN "Time::saturating_add(duration)"
      \* unsigned std Duration of the same magnitude, applied in the same direction
      ELSE IF r.uadd # <<-2>> /\ r.uadd # ea THEN "DateTime +/- std Duration"
      ELSE IF r.utwrap # <<-2>> /\ r.utwrap # TimeFields(tw[1], tw[2]) THEN "Time wrapping +/- std Duration"
      ELSE ""

\* ---- C08: Time + span ------------------------------------------------------------------
TimeAddWhy(r) ==
  LET sod == SodOf(r.tod)  ns == r.tod[4]
      T == SpanTimeNs(r.span)
      cal == SpanHasCalendar(r.span)
      sg == SpanSign(r.span)
      tw == TimeWrapNs(sod, ns, T)
      tws == TimeWrapNs(sod, ns, BNeg(T))
      tc == IF cal THEN <<>> ELSE TimeCheckedNs(sod, ns, T)
      tcs == IF cal THEN <<>> ELSE TimeCheckedNs(sod, ns, BNeg(T))
  IN  IF ~Eq(r.wrap, TimeFields(tw[1], tw[2])) THEN "Time::wrapping_add(span)"
      ELSE IF ~Eq(r.wraps, TimeFields(tws[1], tws[2])) THEN "Time::wrapping_sub(span)"
      ELSE IF ~ResIs(r.chk, IF tc = <<>> THEN <<>> ELSE TimeFields(tc[1], tc[2])) THEN "Time::checked_add(span)"
      ELSE IF ~ResIs(r.chks, IF tcs = <<>> THEN <<>> ELSE TimeFields(tcs[1], tcs[2])) THEN "Time::checked_sub(span)"
      ELSE IF ~Eq(r.sat, IF tc # <<>> THEN TimeFields(tc[1], tc[2])
                       ELSE IF sg > 0 THEN TimeFields(86399, 999999999) ELSE TimeFields(0, 0))
           THEN "Time::saturating_add(span)"
      ELSE ""

SeriesWhy(r) ==
  IF r.st # "ok" THEN "panic in series"
  ELSE LET c == CivOfFields(r.civil) IN
    IF \E k \in 1..Len(r.items) :
         ScaleOk(r.span, k - 1) /\ r.items[k] # DtExp(c, SpanScale(r.span, k - 1))
    THEN "DateTime::series item"
    \* the series is start + k * period with k * period formed as a Span: it may
    \* also end when that product leaves the Span unit limits
    ELSE IF Len(r.items) < r.n /\ ScaleOk(r.span, Len(r.items))
            /\ SpanInLimits(SpanScale(r.span, Len(r.items)))
            /\ DtExp(c, SpanScale(r.span, Len(r.items))) # <<>>
    THEN "DateTime::series ended early"
    ELSE IF \E k \in 1..Len(r.ditems) :
         ScaleOk(r.span, k - 1) /\
         LET e == DateAddSpan(r.civil[1], r.civil[2], r.civil[3], SpanScale(r.span, k - 1))
         IN  e = <<>> \/ r.ditems[k] # DateFieldsOfDay(e[1])
    THEN "Date::series item"
    ELSE ""



RoundTimeWhy(r) ==
  LET legal == UnitRank(r.unit) <= 5 /\ SmallIncOk(r.unit, r.k) IN
  IF ~legal THEN (IF r.st = "err" THEN "" ELSE "Time::round accepted an illegal unit/increment")
  ELSE IF r.st # "ok" THEN "Time::round refused a legal unit/increment"
  ELSE LET x == TodNs(SodOf(r.tod), r.tod[4])
           inc == BMul(r.k, UnitNs(r.unit))
           tg == Target(r.mode, x, inc, r.mf)
           rt == TodNs(SodOf(r.res), r.res[4])
       IN  IF tg[1] = 0 THEN "harness witness inconsistent (Time::round)"
           \* documented: rounding up to 24:00 wraps to 00:00
           ELSE IF rt # (IF tg[2] = BDayNs THEN BZero ELSE tg[2]) THEN "Time::round value"
           ELSE ""

RoundDtWhy(r) ==
  LET legal == UnitRank(r.unit) <= 6 /\ SmallIncOk(r.unit, r.k) IN
  IF ~legal THEN (IF r.st = "err" THEN "" ELSE "DateTime::round accepted an illegal unit/increment")
  ELSE IF r.st = "panic" THEN "DateTime::round panicked"
  ELSE LET c == CivOfFields(r.civil)
           x == TodNs(c[2], c[3])
           inc == BMul(r.k, UnitNs(r.unit))
           tg == Target(r.mode, x, inc, r.mf)
           \* the carry into the next day is +1 day for every year sign
           exp == IF tg[2] = BDayNs THEN <<c[1] + 1, 0, 0>>
                  ELSE LET d == DurOfNs(tg[2]) IN <<c[1], d[3], d[4]>>
       IN  IF tg[1] = 0 THEN "harness witness inconsistent (DateTime::round)"
           ELSE IF exp[1] > EpochDayMax
                THEN (IF r.st = "err" THEN "" ELSE "DateTime::round returned a value beyond DateTime::MAX")
           ELSE IF r.st # "ok" THEN "DateTime::round refused a representable result"
           ELSE IF r.res # FieldsOf(exp) THEN "DateTime::round value"
           ELSE ""

RoundTsWhy(r) ==
  LET unitOk == UnitRank(r.unit) <= 5
      kpos == r.k.s = 1
      witOk == unitOk /\ kpos /\ BAdd(BMul(r.dq, r.k), r.dr) = UnitsPerDay(r.unit) /\ r.dr.s >= 0 /\ BLt(r.dr, r.k)
      legal == witOk /\ r.dr = BZero /\ BLe(r.k, UnitsPerDay(r.unit))
  IN
  IF unitOk /\ kpos /\ ~witOk THEN "harness witness for divisibility is inconsistent"
  ELSE IF ~legal THEN (IF r.st = "err" THEN "" ELSE "Timestamp::round accepted an illegal unit/increment")
  ELSE IF r.st = "panic" THEN "Timestamp::round panicked"
  ELSE LET x == BNanosOfApi(r.sec, r.ns)
           inc == BMul(r.k, UnitNs(r.unit))
           tg == Target(r.mode, x, inc, r.mf)
           lo == BNanosOfApi(BSecMin, 0)
           hi == BNanosOfApi(BSecMax, 999999999)
           inRange == BLe(lo, tg[2]) /\ BLe(tg[2], hi)
       IN  IF tg[1] = 0 THEN "harness witness inconsistent (Timestamp::round)"
           ELSE IF ~inRange THEN (IF r.st = "err" THEN "" ELSE "Timestamp::round returned an out-of-range value")
           ELSE IF r.st # "ok" THEN "Timestamp::round refused a representable result"
           ELSE IF ~ApiSignsOk(r.rsec, r.rns) THEN "Timestamp::round result has mixed signs"
           ELSE IF BNanosOfApi(r.rsec, r.rns) # tg[2] THEN "Timestamp::round value"
           ELSE ""

RoundSdWhy(r) ==
  IF UnitRank(r.unit) > 5 THEN (IF r.st = "err" THEN "" ELSE "SignedDuration::round accepted a calendar unit")
  ELSE IF r.k.s # 1 THEN (IF r.st = "err" THEN "" ELSE "SignedDuration::round accepted a non-positive increment")
  ELSE IF r.st = "panic" THEN "SignedDuration::round panicked"
  ELSE IF ~SdIncOk(r.unit, r.k)
       THEN (IF r.st = "err" THEN "" ELSE "SignedDuration::round accepted an increment that does not divide the next unit")
  ELSE LET x == BNanosOfApi(r.sec, r.ns)
           inc == BMul(r.k, UnitNs(r.unit))
           tg == Target(r.mode, x, inc, r.mf)
           sn == BDivTruncE9(tg[2])
           fits == BLe(I64Min, sn[1]) /\ BLe(sn[1], I64Max)
       IN  IF tg[1] = 0 THEN "harness witness inconsistent (SignedDuration::round)"
           ELSE IF ~fits THEN (IF r.st = "err" THEN "" ELSE "SignedDuration::round returned a value although the result overflows")
           ELSE IF r.st # "ok" THEN "SignedDuration::round refused a representable result"
           ELSE IF r.rsec # sn[1] \/ r.rns # sn[2] THEN "SignedDuration::round value"
           ELSE ""

RoundOffWhy(r) ==
  IF UnitRank(r.unit) \notin 3..5 \/ r.k.s # 1
  THEN (IF r.st = "err" THEN "" ELSE "Offset::round accepted an illegal unit/increment")
  ELSE IF r.st = "panic" THEN "Offset::round panicked"
  ELSE IF ~SdIncOk(r.unit, r.k)
       THEN (IF r.st = "err" THEN "" ELSE "Offset::round accepted an increment that does not divide the next unit")
  ELSE LET x == BMulE9(BOf(r.off))
           inc == BMul(r.k, UnitNs(r.unit))
           tg == Target(r.mode, x, inc, r.mf)
           sn == BDivTruncE9(tg[2])
           fits == BLe(BOf(OffMin), sn[1]) /\ BLe(sn[1], BOf(OffMax))
       IN  IF tg[1] = 0 THEN "harness witness inconsistent (Offset::round)"
           ELSE IF ~fits THEN (IF r.st = "err" THEN "" ELSE "Offset::round returned an out-of-range offset")
           ELSE IF r.st # "ok" THEN "Offset::round refused a representable result"
           ELSE IF BOf(r.res) # sn[1] THEN "Offset::round value"
           ELSE ""

SpanEq(a, b) == a = b




SpanOfRec(x) == x     \* the JSON span record has exactly the spec's shape

DurWhy(r, T) ==   \* duration_until must be the exact nanosecond distance
  IF <<r.dsec, r.dns>> # BDivTruncE9(T) THEN "duration_until is not the exact distance" ELSE ""

\* since = negation of until (same largest unit)
SinceWhy(r) == IF r.st = "ok" /\ r.sst = "ok" /\ r.since # SpanNeg(r.span) THEN "since is not the negation of until"
               ELSE IF r.st # r.sst THEN "since and until disagree on failure" ELSE ""

UntilDateWhy(r) ==
  LET L == LargestRank(r.largest) IN
  IF L < 6 THEN (IF r.st # "panic" THEN "" ELSE "Date::until panicked")   \* not a permitted largest unit: out of scope
  ELSE LET e == DateDiff(r.a, r.b, L)
           exp == [SpanZero EXCEPT !.y = e[1], !.mo = e[2], !.w = e[3], !.d = e[4]]
       IN
  \* a difference that does not fit the Span unit limits (Date::MIN -> MAX in months) is an error
  IF ~SpanInLimits(exp) THEN (IF r.st = "err" THEN "" ELSE "Date::until returned a span beyond the unit limits")
  ELSE IF r.st # "ok" THEN "Date::until failed"
  ELSE LET back == DateAddSpan(r.a[1], r.a[2], r.a[3], r.span)
           T == BMul(BOf(EpochDayOf(r.b[1], r.b[2], r.b[3]) - EpochDayOf(r.a[1], r.a[2], r.a[3])), BDayNs)
       IN  IF back = <<>> \/ (back # <<>> /\ back[1] # EpochDayOf(r.b[1], r.b[2], r.b[3])) THEN "a + (a until b) # b"
           ELSE IF r.span # exp THEN "Date::until is not the balanced difference"
           ELSE IF SinceWhy(r) # "" THEN SinceWhy(r)
           ELSE DurWhy(r, T)

UntilTimeWhy(r) ==
  LET L == LargestRank(r.largest) IN
  IF L > 5 THEN (IF r.st # "panic" THEN "" ELSE "Time::until panicked")
  ELSE IF r.st # "ok" THEN "Time::until failed"
  ELSE LET T == BSub(TodNs(SodOf(r.b), r.b[4]), TodNs(SodOf(r.a), r.a[4]))
           exp == ExpTimeSpan(T, L)
       IN  IF r.span # exp THEN "Time::until is not the balanced exact difference"
           ELSE IF SinceWhy(r) # "" THEN SinceWhy(r)
           ELSE DurWhy(r, T)

UntilTsWhy(r) ==
  LET L == LargestRank(r.largest) IN
  IF L > 5 THEN (IF r.st # "panic" THEN "" ELSE "Timestamp::until panicked")
  ELSE LET T == BSub(BNanosOfApi(r.bsec, r.bns), BNanosOfApi(r.asec, r.ans))
           exp == ExpTimeSpan(T, L)
       IN  IF ~SpanInLimits(exp) THEN (IF r.st = "err" THEN "" ELSE "Timestamp::until returned a span beyond the unit limits")
           ELSE IF r.st # "ok" THEN "Timestamp::until failed"
           ELSE IF r.span # exp THEN "Timestamp::until is not the balanced exact difference"
           ELSE IF SinceWhy(r) # "" THEN SinceWhy(r)
           ELSE DurWhy(r, T)

UntilDtWhy(r) ==
  LET L == LargestRank(r.largest)
      ca == CivOfFields(r.a)  cb == CivOfFields(r.b)
      T == BAdd(BMul(BOf(cb[1] - ca[1]), BDayNs), BSub(TodNs(cb[2], cb[3]), TodNs(ca[2], ca[3])))
  IN
  IF L <= 5
  THEN LET exp == ExpTimeSpan(T, L) IN
       IF ~HoursFit(T, L) \/ ~SpanInLimits(exp)
       THEN (IF r.st = "err" THEN "" ELSE "DateTime::until returned a span beyond the unit limits")
       ELSE IF r.st # "ok" THEN "DateTime::until failed"
       ELSE IF r.span # exp THEN "DateTime::until is not the balanced exact difference"
       ELSE IF SinceWhy(r) # "" THEN SinceWhy(r)
       ELSE DurWhy(r, T)
  ELSE LET sign == T.s
           todA == <<ca[2], ca[3]>>  todB == <<cb[2], cb[3]>>
           todLt(p, q) == p[1] < q[1] \/ (p[1] = q[1] /\ p[2] < q[2])
           \* the day of the intermediate datetime X = <<dayX, tod(a)>> with
           \* X + time part = b, |time part| < 24h, of the overall sign
           dayX == IF sign > 0 THEN (IF todLt(todB, todA) THEN cb[1] - 1 ELSE cb[1])
                   ELSE IF sign < 0 THEN (IF todLt(todA, todB) THEN cb[1] + 1 ELSE cb[1])
                   ELSE cb[1]
           Tt == BSub(T, BMul(BOf(dayX - ca[1]), BDayNs))
           e == DateDiff(DateOfEpochDay(ca[1]), DateOfEpochDay(dayX), L)
           tp == ExpTimeSpan(Tt, 5)
           exp == [tp EXCEPT !.y = e[1], !.mo = e[2], !.w = e[3], !.d = e[4]]
           back == DateTimeAddSpan(ca, r.span)
       IN  IF ~SpanInLimits(exp) THEN (IF r.st = "err" THEN "" ELSE "DateTime::until returned a span beyond the unit limits")
           ELSE IF r.st # "ok" THEN "DateTime::until failed"
           ELSE IF back # cb THEN "a + (a until b) # b"
           ELSE IF r.span # exp THEN "DateTime::until is not the balanced difference"
           ELSE IF SinceWhy(r) # "" THEN SinceWhy(r)
           ELSE DurWhy(r, T)

\* ---- Timestamp +/- span / duration (scope "beyond") ---------------------------------------------------
TsPlus(t, T) == LET e == DateTimeAddNs(t, T) IN IF e # <<>> /\ InTsRange(e) THEN e ELSE <<>>
TsResIs(x, e) == IF x.st = "panic" THEN FALSE
                 ELSE IF e = <<>> THEN x.st = "err"
                 ELSE x.st = "ok" /\ ApiSignsOk(x.rsec, x.rns) /\ InstOfApi(x.rsec, x.rns) = e
TsAddWhy(r) ==
  LET t == InstOfApi(r.sec, r.ns)
      cal == SpanHasCalendar(r.span)
      T == SpanTimeNs(r.span)
      D == BNanosOfApi(r.dsec, r.dns)
      ea == TsPlus(t, T)  es == TsPlus(t, BNeg(T))
      da == TsPlus(t, D)  ds == TsPlus(t, BNeg(D))
      Clamp(e, up) == IF e # <<>> THEN e ELSE IF up THEN TsMax ELSE TsMin
  IN IF cal THEN (IF r.add.st = "err" /\ r.sub.st = "err" /\ r.sat.st = "err" THEN "" ELSE "Timestamp arithmetic accepted a span with units above hours")
     ELSE IF ~TsResIs(r.add, ea) THEN "Timestamp::checked_add(span)"
     ELSE IF ~TsResIs(r.sub, es) THEN "Timestamp::checked_sub(span)"
     ELSE IF ~TsResIs(r.sat, Clamp(ea, T.s > 0)) THEN "Timestamp::saturating_add(span)"
     ELSE IF ~TsResIs(r.dadd, da) THEN "Timestamp::checked_add(duration)"
     ELSE IF ~TsResIs(r.dsub, ds) THEN "Timestamp::checked_sub(duration)"
     ELSE IF ~TsResIs(r.dsat, Clamp(da, D.s > 0)) THEN "Timestamp::saturating_add(duration)"
     ELSE ""

\* ---- Time::with() (scope "beyond") ---------------------------------------------------------------------------
\* r.o = <<h, mi, s, subsec ns>>; r.set / r.val index 1..7: hour, minute, second, millisecond, microsecond,
\* nanosecond, subsec_nanosecond (which excludes the three before it)
TWithWhy(r) ==
  LET Hi == <<23, 59, 59, 999, 999, 999, 999999999>>
      ok == /\ \A i \in 1..7 : r.set[i] = 1 => r.val[i] \in 0..Hi[i]
            /\ (r.set[7] = 1 => r.set[4] = 0 /\ r.set[5] = 0 /\ r.set[6] = 0)
      F(i, orig) == IF r.set[i] = 1 THEN r.val[i] ELSE orig
      ons == r.o[4]
      sub == IF r.set[7] = 1 THEN r.val[7]
             ELSE F(4, ons \div 1000000) * 1000000 + F(5, (ons \div 1000) % 1000) * 1000 + F(6, ons % 1000)
      exp == <<F(1, r.o[1]), F(2, r.o[2]), F(3, r.o[3]), sub>>
  IN IF ~ok THEN (IF r.st = "err" THEN "" ELSE "Time::with() accepted an invalid combination")
     ELSE IF r.st # "ok" THEN "Time::with() refused a valid combination"
     ELSE IF r.res # exp THEN "Time::with(): not the time the fields denote"
     ELSE ""

Why(r) ==
  CASE r.op = "date_add"   -> DateAddWhy(r)
    [] r.op = "twith"      -> TWithWhy(r)
    [] r.op = "ts_add"     -> TsAddWhy(r)
    [] r.op = "dt_add"     -> DtAddWhy(r)
    [] r.op = "dur_add"    -> DurAddWhy(r)
    [] r.op = "time_add"   -> TimeAddWhy(r)
    [] r.op = "series"     -> SeriesWhy(r)
    [] r.op = "round_time" -> RoundTimeWhy(r)
    [] r.op = "round_dt"   -> RoundDtWhy(r)
    [] r.op = "round_ts"   -> RoundTsWhy(r)
    [] r.op = "round_sd"   -> RoundSdWhy(r)
    [] r.op = "round_off"  -> RoundOffWhy(r)
    [] r.op = "until_date" -> UntilDateWhy(r)
    [] r.op = "until_time" -> UntilTimeWhy(r)
    [] r.op = "until_ts"   -> UntilTsWhy(r)
    [] r.op = "until_dt"   -> UntilDtWhy(r)
    [] OTHER               -> "unknown op"

Init == l = 1
Next == /\ l <= Len(Rec)
        /\ LET w == Why(Rec[l]) IN IF w = "" THEN TRUE ELSE PrintT("MISMATCH|" \o ToString(l) \o "|" \o w)
        /\ l' = l + 1
Spec == Init /\ [][Next]_vars
Consumed == TLCGet("stats").diameter = Len(Rec) + 1
=======================================================================
