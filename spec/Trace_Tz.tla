---------------------------- MODULE Trace_Tz ----------------------------
(* Trace validation for the time-zone properties C03 (instant lookups),   *)
(* C04 (civil resolution), C14 (transition iterators) and C18 (all        *)
(* back-ends agree).  A "zone" event installs the abstract zone read from  *)
(* the same data by the independent reader; every later event is an       *)
(* observation of jiff on that zone and is recomputed from TzLookup.tla.  *)
EXTENDS TzLookup, TLC, Json, IOUtils

Rec == ndJsonDeserialize(IOEnv.TRACE)

VARIABLES l, zl          \* position; line of the zone event in force
vars == <<l, zl>>

Zone == Rec[zl]

InstOfRec(r) == InstOfApi(r.sec, r.ns)

\* ---- info: to_offset_info / to_offset / to_datetime at an instant ----------
InfoWhy(r) ==
  LET t == InstOfRec(r)
      e == InfoAt(Zone, t)
  IN  IF r.st # "ok" THEN "panic in offset lookup"
      ELSE IF r.off # e[1] THEN "offset at instant"
      ELSE IF r.dst # e[2] THEN "DST flag at instant"
      ELSE IF r.ab # e[3] THEN "abbreviation at instant"
      ELSE IF r.off2 # e[1] THEN "to_offset disagrees with to_offset_info"
      ELSE IF r.civil # FieldsOf(CivilOfInst(t, e[1])) THEN "to_datetime"
      ELSE ""

\* ---- amb: to_ambiguous_timestamp classification and the four strategies -----
TsOk(x, t) == x.st = "ok" /\ <<x.rsec, x.rns>> = ApiOfInst(t)
StratWhy(r, name, cl, c) ==
  LET o == StrategyOffset(name, cl)  x == r[name] IN
  IF o = NoOffset THEN (IF x.st = "err" THEN "" ELSE "reject accepted an ambiguous civil time")
  ELSE LET t == InstOfCivil(c, o) IN
       IF InTsRange(t)
       THEN IF TsOk(x, t) THEN "" ELSE "strategy " \o name
       ELSE IF x.st = "err" THEN "" ELSE "strategy " \o name \o " returned an out-of-range instant"

AmbWhy(r) ==
  IF r.st # "ok" THEN "panic in civil lookup"
  ELSE
  LET c == CivOfFields(r.civil)
      cl == Classify(Zone, c)
  IN  IF cl[1] = "m"
      THEN \* three or more pre-images / no unique gap: soundness only
           IF r.kind = "u" /\ r.b \notin Pre(Zone, c) THEN "unsound offset (multi)" ELSE ""
      ELSE IF <<r.kind, r.b, r.a>> # cl THEN "classification (" \o cl[1] \o " expected)"
      ELSE LET w1 == StratWhy(r, "compatible", cl, c)
               w2 == StratWhy(r, "earlier", cl, c)
               w3 == StratWhy(r, "later", cl, c)
               w4 == StratWhy(r, "reject", cl, c)
           IN  IF w1 # "" THEN w1 ELSE IF w2 # "" THEN w2 ELSE IF w3 # "" THEN w3 ELSE IF w4 # "" THEN w4
               \* TimeZone::to_timestamp / to_zoned / DateTime::to_zoned use compatible
               ELSE IF r.tzts # r.compatible THEN "TimeZone::to_timestamp is not the compatible strategy"
               ELSE IF r.zoned # r.compatible THEN "DateTime::to_zoned is not the compatible strategy"
               \* an instant from a non-gap civil time displays that civil time
               ELSE IF cl[1] # "g" /\ r.compatible.st = "ok" /\ r.shows # r.civil
                    THEN "resolved instant does not display the civil time"
               ELSE ""

\* ---- iter: following()/preceding() from a start instant --------------------
\* next/previous change from cur in direction dir; <<>> when none in range
Neighbour(dir, cur) ==
  LET x == IF dir = "f" THEN NextChangeAfter(Zone, cur) ELSE PrevChangeBefore(Zone, cur)
  IN  IF x = <<>> THEN x ELSE IF InTsRange(x) THEN x ELSE <<>>

RECURSIVE IterFrom(_, _, _)
IterFrom(r, k, cur) ==
  IF k > Len(r.items)
  THEN IF r["end"] = "stuck" THEN "iterator yields the same transition forever"
       ELSE IF r["end"] = "none" /\ Neighbour(r.dir, cur) # <<>> THEN "iterator ended although a transition remains"
       ELSE ""
  ELSE LET it == r.items[k]
           T == InstOfApi(it.sec, it.ns)
           e == Neighbour(r.dir, cur)
       IN  IF (r.dir = "f" /\ TLe(T, cur)) \/ (r.dir = "p" /\ TLe(cur, T))
           THEN "yielded an instant not strictly beyond the start"
           ELSE IF e # <<>> /\ ((r.dir = "f" /\ TLt(e, T)) \/ (r.dir = "p" /\ TLt(T, e)))
           THEN "omitted a transition"
           ELSE IF ~(IsChange(Zone, T) \/ IsTableTime(Zone, T))
           THEN "yielded an instant that is not a transition"
           ELSE IF <<it.off, it.dst, it.ab>> # InfoAt(Zone, T) THEN "transition reports wrong offset info"
           ELSE IterFrom(r, k + 1, T)

IterWhy(r) == IF r.st # "ok" THEN "panic in transition iterator"
              ELSE IterFrom(r, 1, InstOfRec(r))

\* ---- load: jiff refused a zone the independent reader accepts ----------------
LoadWhy(r) == "zone refused: " \o r.msg

\* C18: a name in any letter case finds the zone, which reports the canonical spelling
\* and is the same zone; the database lists it
LookupWhy(r) ==
  IF r.st = "panic" THEN "time zone lookup panicked"
  ELSE IF r.st # "ok" THEN (IF r.cls = "available" THEN "the database does not list the zone" ELSE "lookup by name is not case-insensitive")
  ELSE IF r.got # r.want THEN "lookup does not return the canonical spelling"
  ELSE IF r.same # 1 THEN "lookup in another letter case returned a different zone"
  ELSE ""

Why(r) ==
  CASE r.op = "zone" -> ""
    [] r.op = "lookup" -> LookupWhy(r)
    [] r.op = "info" -> InfoWhy(r)
    [] r.op = "amb"  -> AmbWhy(r)
    [] r.op = "iter" -> IterWhy(r)
    [] r.op = "load" -> LoadWhy(r)
    [] OTHER         -> "unknown op"

Init == l = 1 /\ zl = 0
Next == /\ l <= Len(Rec)
        /\ LET r == Rec[l] IN
           /\ zl' = IF r.op = "zone" THEN l ELSE zl
           /\ LET w == Why(r) IN IF w = "" THEN TRUE ELSE PrintT("MISMATCH|" \o ToString(l) \o "|" \o w)
        /\ l' = l + 1
Spec == Init /\ [][Next]_vars
Consumed == TLCGet("stats").diameter = Len(Rec) + 1
=======================================================================
