--------------------------- MODULE Trace_Value ---------------------------
(* C12: Span and SignedDuration as value types.                            *)
(*  Span: ten unit magnitudes and one sign; a setter stores |v| when       *)
(*  |v| <= limit (refused otherwise); a negative value makes the whole      *)
(*  span negative, a non-negative value keeps the sign of a non-zero span   *)
(*  (documented: "the sign of a span applies to the entire span").          *)
(*  SignedDuration: an exact integer N of nanoseconds with                   *)
(*  trunc(N / 10^9) in i64; every operation is exact arithmetic on N        *)
(*  truncated toward zero, overflow exactly when the result is not          *)
(*  representable.                                                           *)
EXTENDS CivilOps, TLC, Json, IOUtils

Rec == ndJsonDeserialize(IOEnv.TRACE)
VARIABLE l
vars == <<l>>

TruncDivN(x, k) == IF x >= 0 THEN x \div k ELSE 0 - ((0 - x) \div k)

\* ---- SignedDuration ---------------------------------------------------------
NsOf(x) == BNanosOfApi(x[1], x[2])            \* x = <<secs (Big), nanos>>
\* representable: seconds (truncated toward zero) fit an i64
Repr(N) == LET sn == BDivTruncE9(N) IN BLe(I64Min, sn[1]) /\ BLe(sn[1], I64Max)
SplitNs(N) == LET sn == BDivTruncE9(N) IN <<sn[1], sn[2]>>
SdMax == BAdd(BMulE9(I64Max), BOf(999999999))
SdMin == BSub(BMulE9(I64Min), BOf(999999999))
SignsOk(x) == ApiSignsOk(x[1], x[2])

\* Option/Result of a duration: r.st, r.v = <<secs, nanos>>
OptWhy(r, N, what) ==
  IF r.st = "panic" THEN what \o ": panic"
  ELSE IF ~Repr(N) THEN (IF r.st = "none" THEN "" ELSE what \o ": overflow not reported")
  ELSE IF r.st # "ok" THEN what \o ": refused a representable result"
  ELSE IF ~SignsOk(r.v) THEN what \o ": seconds and nanoseconds of opposite sign"
  ELSE IF r.v # SplitNs(N) THEN what
  ELSE ""
SatWhy(v, N, what) ==
  LET e == IF Repr(N) THEN N ELSE IF N.s > 0 THEN SdMax ELSE SdMin IN
  IF v # SplitNs(e) THEN what ELSE ""

First(ws) == IF \E i \in DOMAIN ws : ws[i] # "" THEN ws[CHOOSE i \in DOMAIN ws : ws[i] # "" /\ \A j \in 1..(i-1) : ws[j] = ""] ELSE ""

SdBinWhy(r) ==
  LET A == NsOf(r.a)  B == NsOf(r.b) IN
  First(<<OptWhy(r.add, BAdd(A, B), "SignedDuration::checked_add"),
          OptWhy(r.sub, BSub(A, B), "SignedDuration::checked_sub"),
          SatWhy(r.sadd, BAdd(A, B), "SignedDuration::saturating_add"),
          SatWhy(r.ssub, BSub(A, B), "SignedDuration::saturating_sub")>>)

\* division by k # 0 checked relationally: N = q * k + rem, |rem| < |k|, rem has the sign of N
DivOk(N, k, q) ==
  LET rem == BSub(N, BMul(q, BOf(k))) IN BLt(BAbs(rem), BAbs(BOf(k))) /\ (rem.s = 0 \/ rem.s = N.s)
SdMulDivWhy(r) ==
  LET A == NsOf(r.a)  P == BMul(A, BOf(r.k)) IN
  First(<<OptWhy(r.mul, P, "SignedDuration::checked_mul"),
          SatWhy(r.smul, P, "SignedDuration::saturating_mul"),
          IF r.k = 0 THEN (IF r.div.st = "none" THEN "" ELSE "SignedDuration::checked_div by zero")
          ELSE IF r.div.st = "panic" THEN "SignedDuration::checked_div: panic"
          ELSE IF r.div.st = "none"
               THEN \* only MIN / -1 style overflow
                    (IF r.k = -1 /\ ~Repr(BNeg(A)) THEN "" ELSE "SignedDuration::checked_div refused a representable result")
          ELSE IF ~SignsOk(r.div.v) \/ ~DivOk(A, r.k, NsOf(r.div.v)) THEN "SignedDuration::checked_div"
          ELSE "">>)

TruncDivBig(N, k) == BDivTrunc(N, k)[1]      \* k small
SdUnaryWhy(r) ==
  LET A == NsOf(r.a)
      absA == BAbs(A)
  IN First(<<OptWhy(r.neg, BNeg(A), "SignedDuration::checked_neg"),
             IF r.as_ms # BDivTruncE6(A)[1] THEN "as_millis" ELSE "",
             IF r.as_us # BDivTruncE3(A)[1] THEN "as_micros" ELSE "",
             IF r.as_ns # A THEN "as_nanos" ELSE "",
             IF r.as_h # TruncDivBig(r.a[1], 3600) THEN "as_hours" ELSE "",
             IF r.as_m # TruncDivBig(r.a[1], 60) THEN "as_mins" ELSE "",
             IF r.sub_ms # TruncDivN(r.a[2], 1000000) \/ r.sub_us # TruncDivN(r.a[2], 1000) THEN "subsec_millis/micros" ELSE "",
             IF r.sign # A.s THEN "signum" ELSE "",
             IF (r.zero = 1) # (A.s = 0) THEN "is_zero" ELSE "",
             IF (r.isneg = 1) # (A.s < 0) \/ (r.ispos = 1) # (A.s > 0) THEN "is_negative/is_positive" ELSE "",
             \* unsigned_abs is always representable as a std Duration
             IF <<r.uabs[1], r.uabs[2]>> # SplitNs(absA) THEN "unsigned_abs" ELSE "",
             \* TryFrom<SignedDuration> for std Duration fails exactly for negative values
             IF A.s < 0 THEN (IF r.tostd.st = "none" THEN "" ELSE "negative duration converted to std Duration")
             ELSE IF r.tostd.st # "ok" \/ r.tostd.v # SplitNs(A) THEN "TryFrom<SignedDuration> for std Duration" ELSE "">>)

\* constructors from a unit count v (Big i64); u in {"s","ms","us","ns","h","mi"}
SdFromWhy(r) ==
  LET N == CASE r.u = "s" -> BMulE9(r.v) [] r.u = "ms" -> BMul(r.v, B1E6) [] r.u = "us" -> BMul(r.v, B1E3)
             [] r.u = "ns" -> r.v [] r.u = "h" -> BMul(r.v, B3600E9) [] r.u = "mi" -> BMul(r.v, B60E9)
  IN IF ~Repr(N) THEN (IF r.st = "panic" THEN "" ELSE "from_<unit> did not reject an unrepresentable value")
     ELSE IF r.st # "ok" THEN "from_<unit> failed on a representable value"
     ELSE IF ~SignsOk(r.r) \/ r.r # SplitNs(N) THEN "from_<unit> value"
     ELSE ""

\* SignedDuration::new(secs, nanos) with any i32 nanos: normalised value, panic iff unrepresentable
SdNewWhy(r) ==
  LET N == BAdd(BMulE9(r.secs), BOf(r.nanos)) IN
  IF ~Repr(N) THEN (IF r.st = "panic" THEN "" ELSE "SignedDuration::new did not reject an unrepresentable value")
  ELSE IF r.st # "ok" THEN "SignedDuration::new failed on a representable value"
  ELSE IF ~SignsOk(r.r) \/ r.r # SplitNs(N) THEN "SignedDuration::new normalisation"
  ELSE ""

\* TryFrom<std Duration>: secs is a u64
SdStdWhy(r) ==
  IF BLe(r.usecs, I64Max)
  THEN (IF r.st = "ok" /\ r.r = <<r.usecs, r.unanos>> THEN "" ELSE "TryFrom<Duration> for SignedDuration")
  ELSE (IF r.st = "none" THEN "" ELSE "TryFrom<Duration> accepted more than i64::MAX seconds")

\* ---- floats: value = sgn * m * 2^e, m < 2^53 (Big), |e| <= 1100 --------------------------
RECURSIVE BPow2(_)
BPow2(k) == IF k <= 13 THEN BOf(2^k) ELSE BMulSmall(BPow2(k - 13), 8192)
\* | A * 2^ea  -  B * 2^eb | <= T * 2^et   (all Big / native exponents), exact
\* X = f.s * f.m * 2^f.e seconds; N nanoseconds.  |N - X * 10^9| <= tol ns ?
WithinNs(N, f, tol) ==
  LET X9 == BMulE9(IF f.s < 0 THEN BNeg(f.m) ELSE f.m) IN      \* X * 10^9 * 2^-e
  IF f.e >= 0
  THEN BLe(BAbs(BSub(N, BMul(X9, BPow2(f.e)))), BOf(tol))
  ELSE BLe(BAbs(BSub(BMul(N, BPow2(0 - f.e)), X9)), BMul(BOf(tol), BPow2(0 - f.e)))
\* is X beyond the representable range (|X| >= 2^63 seconds, or > max)?
FloatTooBig(f) == f.e + 53 > 64 \/ (f.e >= 0 /\ ~Repr(BMulE9(BMul(IF f.s < 0 THEN BNeg(f.m) ELSE f.m, BPow2(f.e)))))
SdFloatWhy(r) ==
  IF r.f.kind # "finite" THEN (IF r.from.st = "none" THEN "" ELSE "try_from_secs_f64 accepted a non-finite value")
  ELSE IF r.f.e < -200 \/ r.f.e > 70 THEN
       \* tiny values round to zero, huge ones must be refused
       (IF r.f.e > 70 THEN (IF r.from.st = "none" THEN "" ELSE "try_from_secs_f64 accepted a huge value")
        ELSE IF r.from.st = "ok" /\ BLe(BAbs(NsOf(r.from.v)), BOf(1)) THEN "" ELSE "try_from_secs_f64 of a tiny value")
  \* exactly 2^63 seconds (one second beyond the maximum, and the float that
  \* i64::MAX itself rounds to): the suite pins "saturate to i64::MAX seconds";
  \* both that and an error are accepted
  ELSE IF r.f.s > 0 /\ r.f.e = 11 /\ r.f.m = BPow2(52)
       THEN (IF r.from.st = "none" \/ (r.from.st = "ok" /\ r.from.v[1] = I64Max) THEN "" ELSE "try_from_secs_f64 at 2^63")
  ELSE IF FloatTooBig(r.f) THEN (IF r.from.st = "none" THEN "" ELSE "try_from_secs_f64 accepted an unrepresentable value")
  ELSE IF r.from.st # "ok" THEN "try_from_secs_f64 refused a representable value"
  ELSE IF ~SignsOk(r.from.v) THEN "try_from_secs_f64: mixed signs"
  ELSE IF ~WithinNs(NsOf(r.from.v), r.f, 1) THEN "try_from_secs_f64 is more than 1ns off"
  ELSE ""
\* ---- duration x float, duration / float: the exact product (quotient) E of the nanosecond count
\* and the float's exact value, to a relative 2^-45 plus 2 ns; documented to panic when E cannot be
\* represented (or the float is not finite, or the divisor is zero)
FSigned(f) == IF f.s < 0 THEN BNeg(f.m) ELSE IF f.s = 0 THEN BZero ELSE f.m
MaxNs == BAdd(BMulE9(I64Max), BOf(999999999))
\* |A - B| * 2^45 <= |B| + S, all as integers scaled alike
Close(A, B, S) == BLe(BMul(BAbs(BSub(A, B)), BPow2(45)), BAdd(BAbs(B), S))
SdFMulWhy(r) ==
  LET N == NsOf(r.a)  R == NsOf(r.res.v)  x == FSigned(r.f)  e == r.f.e
      nonfinite == r.f.kind # "finite"
      bad == nonfinite \/ (r.kind = "div" /\ r.f.s = 0)
  IN
  \* anything divided by an infinity is zero
  IF r.kind = "div" /\ r.f.kind = "inf"
  THEN (IF r.res.st = "ok" /\ R = BZero THEN "" ELSE "division by an infinity is not zero")
  ELSE IF bad THEN (IF r.res.st = "panic" THEN "" ELSE "float arithmetic accepted a non-finite factor or a zero divisor")
  ELSE IF e > 200 \/ e < -1000 THEN ""       \* astronomically large / small factors: only "no wrong value" below would apply
  ELSE LET \* both sides of "R = E" scaled to integers: R * sR ~ E' ; slack S' = 2 ns * scale
           big == BPow2(IF e >= 0 THEN e ELSE 0 - e)
           lhs == IF r.kind = "mul" THEN (IF e >= 0 THEN R ELSE BMul(R, big))
                  ELSE (IF e >= 0 THEN BMul(R, BMul(x, big)) ELSE BMul(R, x))
           rhs == IF r.kind = "mul" THEN (IF e >= 0 THEN BMul(BMul(N, x), big) ELSE BMul(N, x))
                  ELSE (IF e >= 0 THEN N ELSE BMul(N, big))
           unit == IF r.kind = "mul" THEN (IF e >= 0 THEN BOf(1) ELSE big)
                   ELSE (IF e >= 0 THEN BAbs(BMul(x, big)) ELSE BAbs(x))
           slack == BMul(BMul(unit, BOf(2)), BPow2(45))
           \* is the exact result beyond the representable range?  |E| > MaxNs  <=>  |rhs| > MaxNs * unit
           over == BLt(BMul(MaxNs, unit), BAbs(rhs))
           near == BLt(BMul(BMul(MaxNs, unit), BPow2(40)), BMul(BAbs(rhs), BAdd(BPow2(40), BOf(1))))
       IN IF r.res.st = "panic" THEN (IF near THEN "" ELSE "float arithmetic panicked on a representable result")
          ELSE IF over /\ ~BLt(BMul(BAbs(rhs), BPow2(40)), BMul(BMul(MaxNs, unit), BAdd(BPow2(40), BOf(1)))) THEN "float arithmetic returned a value for an unrepresentable result"
          ELSE IF ~SignsOk(r.res.v) THEN "float arithmetic: mixed signs"
          ELSE IF ~Close(lhs, rhs, slack) THEN "float arithmetic is not the exact product / quotient (to 2^-45)"
          ELSE ""

\* a / b as f64: |q * Nb - Na| <= 2^-45 |Na| (+ tiny)
SdFRatioWhy(r) ==
  LET Na == NsOf(r.a)  Nb == NsOf(r.b)  q == FSigned(r.q)  e == r.q.e IN
  IF r.st = "panic" THEN "div_duration_f64 panicked"
  ELSE IF Nb = BZero THEN (IF r.q.kind # "finite" THEN "" ELSE "division by a zero duration gave a finite number")
  ELSE IF r.q.kind # "finite" THEN "div_duration_f64 is not finite"
  ELSE IF e > 200 \/ e < -1000 THEN ""
  ELSE LET big == BPow2(IF e >= 0 THEN e ELSE 0 - e)
           lhs == IF e >= 0 THEN BMul(BMul(q, big), Nb) ELSE BMul(q, Nb)
           rhs == IF e >= 0 THEN Na ELSE BMul(Na, big)
           unit == IF e >= 0 THEN BOf(1) ELSE big
       IN IF Close(lhs, rhs, BMul(BAbs(Nb), unit)) THEN "" ELSE "div_duration_f64 is not the exact ratio (to 2^-45)"

\* as_secs_f64: within 2 ulp of the exact value: |m*2^e*10^9 - N| <= 2 * 2^e * 10^9
SdToFloatWhy(r) ==
  LET N == NsOf(r.a)  f == r.f IN
  IF f.kind # "finite" THEN "as_secs_f64 is not finite"
  ELSE LET X9 == BMulE9(IF f.s < 0 THEN BNeg(f.m) ELSE f.m)
           ulp9 == BMulE9(BOf(2))
       IN IF f.e >= 0
          THEN (IF BLe(BAbs(BSub(N, BMul(X9, BPow2(f.e)))), BMul(ulp9, BPow2(f.e))) THEN "" ELSE "as_secs_f64 is more than 2 ulp off")
          ELSE (IF BLe(BAbs(BSub(BMul(N, BPow2(0 - f.e)), X9)), ulp9) THEN "" ELSE "as_secs_f64 is more than 2 ulp off")

\* ---- Span ------------------------------------------------------------------------------
\* state <<sign, mags>> with mags a sequence of ten BigInt magnitudes (y, mo, w, d, h, mi, s, ms, us, ns)
LimOf(i) == CASE i = 1 -> BOf(LimY) [] i = 2 -> BOf(LimMo) [] i = 3 -> BOf(LimW) [] i = 4 -> BOf(LimD) [] i = 5 -> BOf(LimH)
              [] i = 6 -> LimMi [] i = 7 -> LimS [] i = 8 -> LimMs [] i = 9 -> LimUs [] i = 10 -> LimNs
AllZero(m) == \A i \in 1..10 : m[i] = BZero
SetUnit(st, i, v) ==       \* v Big, assumed within the limit
  LET m2 == [st[2] EXCEPT ![i] = BAbs(v)]
      sg == IF v.s < 0 THEN -1 ELSE IF AllZero(m2) THEN 0 ELSE IF AllZero(st[2]) THEN 1 ELSE st[1]
  IN <<sg, m2>>
\* what the getters must return
Gets(st) == [i \in 1..10 |-> IF st[1] < 0 THEN BNeg(st[2][i]) ELSE st[2][i]]
ZeroSpanSt == <<0, [i \in 1..10 |-> BZero]>>

RECURSIVE BuildFrom(_, _, _)
\* r.steps[k] = [i (unit 1..10), v (Big), st ("ok"|"err"|"panic"), get (sequence of ten Bigs after the step)]
BuildFrom(r, k, st) ==
  IF k > Len(r.steps) THEN ""
  ELSE LET s == r.steps[k]
           legal == BLe(BAbs(s.v), LimOf(s.i))
           st2 == IF legal THEN SetUnit(st, s.i, s.v) ELSE st
       IN IF s.st = "panic" THEN "Span setter panicked"
          ELSE IF legal /\ s.st # "ok" THEN "Span setter refused a value within the unit limit"
          ELSE IF ~legal /\ s.st # "err" THEN "Span setter accepted a value beyond the unit limit"
          ELSE IF s.get # Gets(st2) THEN "Span does not hold what it was given (or units of mixed sign)"
          ELSE IF s.sign # st2[1] THEN "Span::signum"
          ELSE BuildFrom(r, k + 1, st2)
SpanBuildWhy(r) == BuildFrom(r, 1, ZeroSpanSt)

\* operations on a span given by its getters g (ten Bigs, one sign)
SpanOpsWhy(r) ==
  LET g == r.g
      neg == [i \in 1..10 |-> BNeg(g[i])]
      ab == [i \in 1..10 |-> BAbs(g[i])]
      prod == [i \in 1..10 |-> BMul(g[i], r.k)]
      fits == \A i \in 1..10 : BLe(BAbs(prod[i]), LimOf(i))
      T == BAdd(BMul(g[5], B3600E9), BAdd(BMul(g[6], B60E9), BAdd(BMulE9(g[7]), BAdd(BMul(g[8], B1E6), BAdd(BMul(g[9], B1E3), g[10])))))
      cal == \E i \in 1..4 : g[i] # BZero
  IN First(<<IF r.neg # neg THEN "Span::negate" ELSE "",
             IF r.abs # ab THEN "Span::abs" ELSE "",
             IF r.mul.st = "panic" THEN "Span::checked_mul panicked"
             ELSE IF fits THEN (IF r.mul.st = "ok" /\ r.mul.g = prod THEN "" ELSE "Span::checked_mul")
             ELSE (IF r.mul.st = "err" THEN "" ELSE "Span::checked_mul accepted a product beyond a unit limit"),
             IF (r.fw_self = 1) /\ ((r.fw_other = 1) = (r.og = g)) THEN "" ELSE "Span::fieldwise equality",
             \* SignedDuration::try_from(span): calendar units need a reference
             IF cal THEN (IF r.tosd.st = "none" THEN "" ELSE "Span with calendar units converted to SignedDuration without a reference")
             ELSE IF r.tosd.st # "ok" \/ r.tosd.v # SplitNs(T) THEN "SignedDuration::try_from(Span)" ELSE "">>)

\* Span::try_from(SignedDuration)
SdToSpanWhy(r) ==
  LET A == NsOf(r.a)
      fits == BLe(BAbs(r.a[1]), LimS)
      n == r.a[2]
      exp == <<BZero, BZero, BZero, BZero, BZero, BZero, r.a[1], BOf(TruncDivN(n, 1000000)),
               BOf(TruncDivN(n - 1000000 * TruncDivN(n, 1000000), 1000)), BOf(n - 1000 * TruncDivN(n, 1000))>>
  IN IF ~fits THEN (IF r.st = "none" THEN "" ELSE "Span::try_from(SignedDuration) beyond the seconds limit accepted")
     ELSE IF r.st # "ok" THEN "Span::try_from(SignedDuration) refused"
     ELSE IF r.g # exp THEN "Span::try_from(SignedDuration)"
     ELSE ""

Why(r) ==
  CASE r.op = "sd_bin"     -> SdBinWhy(r)
    [] r.op = "sd_muldiv"  -> SdMulDivWhy(r)
    [] r.op = "sd_unary"   -> SdUnaryWhy(r)
    [] r.op = "sd_from"    -> SdFromWhy(r)
    [] r.op = "sd_new"     -> SdNewWhy(r)
    [] r.op = "sd_std"     -> SdStdWhy(r)
    [] r.op = "sd_float"   -> SdFloatWhy(r)
    [] r.op = "sd_tofloat" -> SdToFloatWhy(r)
    [] r.op = "sd_fmul"    -> SdFMulWhy(r)
    [] r.op = "sd_fratio"  -> SdFRatioWhy(r)
    [] r.op = "sd_tospan"  -> SdToSpanWhy(r)
    [] r.op = "span_build" -> SpanBuildWhy(r)
    [] r.op = "span_ops"   -> SpanOpsWhy(r)
    [] OTHER               -> "unknown op"

Init == l = 1
Next == /\ l <= Len(Rec)
        /\ LET w == Why(Rec[l]) IN IF w = "" THEN TRUE ELSE PrintT("MISMATCH|" \o ToString(l) \o "|" \o w)
        /\ l' = l + 1
Spec == Init /\ [][Next]_vars
Consumed == TLCGet("stats").diameter = Len(Rec) + 1
=======================================================================
