SPECIFICATION Spec
INVARIANTS Ok
CHECK_DEADLOCK FALSE
