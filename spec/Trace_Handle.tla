--------------------------- MODULE Trace_Handle ---------------------------
(* C20, fixed-offset handles: for EVERY offset -93599..93599 the handle    *)
(* reproduces the offset exactly (the sign survives the pointer packing),  *)
(* carries the FIXED tag (UTC for offset 0), is not reference counted and  *)
(* equals its clone.                                                       *)
EXTENDS Integers, Sequences, TLC, Json, IOUtils
Rec == ndJsonDeserialize(IOEnv.TRACE)
VARIABLE l
vars == <<l>>
Why(r) ==
  IF r.st # "ok" THEN "panic with a fixed-offset time zone"
  ELSE IF r.got # r.off THEN "fixed-offset handle does not reproduce its offset"
  ELSE IF r.off # 0 /\ r.fixed # r.off THEN "to_fixed_offset"
  ELSE IF r.tag # (IF r.off = 0 THEN 1 ELSE 3) THEN "pointer tag of a fixed offset"
  ELSE IF r.counted # 0 THEN "a fixed offset must not be reference counted"
  ELSE IF r.eq # 1 THEN "a handle does not equal its clone"
  ELSE ""
Init == l = 1
Next == /\ l <= Len(Rec)
        /\ LET w == Why(Rec[l]) IN IF w = "" THEN TRUE ELSE PrintT("MISMATCH|" \o ToString(l) \o "|" \o w)
        /\ l' = l + 1
Spec == Init /\ [][Next]_vars
Consumed == TLCGet("stats").diameter = Len(Rec) + 1
=======================================================================
