--------------------------- MODULE Trace_Handle ---------------------------
(* C20, fixed-offset handles: for EVERY offset -93599..93599 the handle    *)
(* reproduces the offset exactly (the sign survives the pointer packing),  *)
(* carries the FIXED tag (UTC for offset 0), is not reference counted and  *)
(* equals its clone.                                                       *)
EXTENDS Integers, Sequences, TLC, Json, IOUtils
Rec == ndJsonDeserialize(IOEnv.TRACE)
VARIABLE l
vars == <<l>>
\* many threads cloning, querying and dropping one handle at once: afterwards the base
\* handle is the only owner, nothing was freed while it lived, and dropping it frees the
\* heap object exactly once (handles without a heap object never free anything)
RaceWhy(r) ==
  IF r.st # "ok" THEN "panic while threads cloned and dropped a time zone concurrently"
  ELSE IF r.bad_answers # 0 THEN "a clone answered differently from (or compared unequal to) its origin under concurrency"
  ELSE IF r.counted = 1 /\ r.strong_before # 1 THEN "a fresh heap-backed handle does not start with one owner"
  ELSE IF r.counted = 1 /\ r.strong_after # 1 THEN "the reference count did not return to one after all clones were dropped"
  ELSE IF r.frees_live # 0 THEN "the heap object was freed while a handle was alive"
  ELSE IF r.frees_after # r.counted THEN "the heap object was not freed exactly once after its last handle"
  ELSE ""

Why(r) ==
  IF r.op = "race" THEN RaceWhy(r)
  ELSE IF r.st # "ok" THEN "panic with a fixed-offset time zone"
  ELSE IF r.got # r.off THEN "fixed-offset handle does not reproduce its offset"
  ELSE IF r.off # 0 /\ r.fixed # r.off THEN "to_fixed_offset"
  ELSE IF r.tag # (IF r.off = 0 THEN 1 ELSE 3) THEN "pointer tag of a fixed offset"
  ELSE IF r.counted # 0 THEN "a fixed offset must not be reference counted"
  ELSE IF r.eq # 1 THEN "a handle does not equal its clone"
  ELSE ""
Init == l = 1
Next == /\ l <= Len(Rec)
        /\ LET w == Why(Rec[l]) IN IF w = "" THEN TRUE ELSE PrintT("MISMATCH|" \o ToString(l) \o "|" \o w)
        /\ l' = l + 1
Spec == Init /\ [][Next]_vars
Consumed == TLCGet("stats").diameter = Len(Rec) + 1
=======================================================================
