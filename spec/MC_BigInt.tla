--------------------------- MODULE MC_BigInt ---------------------------
(* BigInt.tla against TLC's native arithmetic on values that exercise    *)
(* limb boundaries, carries, borrows and sign combinations.              *)
EXTENDS BigInt, TLC

Mags == {0, 1, 2, 7, 9999, 10000, 10001, 19999, 20000, 99999, 100000, 123456,
         86399, 86400, 99999999, 100000000, 100000001, 999999999, 1000000000,
         1073741823, 40000, 46340, 65535, 65536}
Vals == Mags \cup {0 - v : v \in Mags}
Small == {1, 2, 3, 7, 60, 1000, 9999, 10000, 10001, 86400, 100000, 200000}

VARIABLES a, b
Init == a \in Vals /\ b \in Vals
Next == UNCHANGED <<a, b>>
Spec == Init /\ [][Next]_<<a, b>>

Sgn(x) == IF x > 0 THEN 1 ELSE IF x < 0 THEN -1 ELSE 0
Abs(x) == IF x < 0 THEN 0 - x ELSE x
TruncDiv(x, k) == Sgn(x) * (Abs(x) \div k)

AddOk == /\ IsBig(BOf(a)) /\ BToInt(BOf(a)) = a
         /\ BAdd(BOf(a), BOf(b)) = BOf(a + b)
         /\ BSub(BOf(a), BOf(b)) = BOf(a - b)
         /\ BCmp(BOf(a), BOf(b)) = Sgn(a - b)
         /\ BNeg(BOf(a)) = BOf(0 - a)
MulOk == (Abs(a) <= 46340 /\ Abs(b) <= 46340) =>
            /\ BMul(BOf(a), BOf(b)) = BOf(a * b)
            /\ (Abs(b) <= 200000 => BMulSmall(BOf(a), b) = BOf(a * b))
DivOk == \A k \in Small :
            /\ BDivFloor(BOf(a), k) = <<BOf(a \div k), a % k>>
            /\ BDivTrunc(BOf(a), k) = <<BOf(TruncDiv(a, k)), a - k * TruncDiv(a, k)>>
\* beyond native range: algebraic laws on big products
BigLaws ==
  LET A == BMulE9(BOf(a))  B == BMulE9(BOf(b)) IN
  /\ BDivTruncE9(BAdd(A, BOf(b % 1000000000))) =
        (IF Sgn(a) * Sgn(b % 1000000000) >= 0 THEN <<BOf(a), b % 1000000000>>
         ELSE BDivTruncE9(BAdd(A, BOf(b % 1000000000))))
  /\ BSub(BAdd(A, B), B) = A
  /\ BMul(A, B) = BMul(B, A)
  /\ BDivTruncE9(BMul(A, BOf(b))) [1] = BMul(BOf(a), BOf(b))
  /\ BCmp(A, B) = Sgn(a - b)
  /\ IsBig(BMul(A, B))
=======================================================================
