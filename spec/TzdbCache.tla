--------------------------- MODULE TzdbCache ---------------------------
(* The zoneinfo time zone database cache of jiff                          *)
(* (src/tz/db/zoneinfo/enabled.rs, src/util/cache.rs), one action per      *)
(* critical section of the code:                                           *)
(*                                                                         *)
(*   Database::get(q):                                                     *)
(*     Fast      zones.read():  cached and not expired -> return clone     *)
(*     NamesR    names.read():  name known -> info                         *)
(*     NamesW    names.write(): refresh the index if ITS ttl expired,      *)
(*                              then look the name up again (None if       *)
(*                              still unknown)                             *)
(*     Slow      zones.write(): cached -> revalidate by mtime (reuse and   *)
(*                              extend) or reload from disk (on failure    *)
(*                              return None and KEEP the stale entry);     *)
(*                              not cached -> load and insert              *)
(*   Database::reset():  zones.write() { names.write() { clear }; clear }  *)
(*   Database::available(): names.write(): refresh the index if ITS ttl    *)
(*                              expired, return the index                  *)
(*   environment:        ReplaceFile / RemoveFile / AddFile / Tick         *)
(*                                                                         *)
(* A file is a version number > 0 (its content) and an mtime; replacing a  *)
(* file always gives a fresh version and a fresh mtime.  0 = absent.       *)
(* Staleness WITHIN the ttl is the documented design and is allowed.       *)
EXTENDS Integers, FiniteSets, Sequences, TLC

CONSTANTS Thread, Name, MaxVer, MaxClock, TTL, MaxOps

VARIABLES
  disk,      \* [Name -> [ver, mt]]      ver = 0: no such file
  names,     \* SUBSET Name               the cached directory listing
  namesExp,  \* clock value after which the listing is expired (-1 = expired)
  cache,     \* [Name -> [ver, mt, exp]]  ver = 0: not cached
  clock,
  nextVer,   \* next fresh version / mtime
  zlW, zlR,  \* zones lock: writer (a thread or "none"), set of readers
  nlW, nlR,  \* names lock
  pc, arg, ret, info,   \* per thread: program counter, queried name, result, name found?
  ops,       \* number of operations started (bounds the model)
  \* ---- ghosts (not part of the implementation state) ----
  seen,      \* [Thread -> SUBSET Nat] versions the queried file had while the lookup was running
  how        \* [Thread -> STRING] which path produced the result

vars == <<disk, names, namesExp, cache, clock, nextVer, zlW, zlR, nlW, nlR, pc, arg, ret, info, ops, seen, how>>

None == "none"
Absent == [ver |-> 0, mt |-> 0]
NotCached == [ver |-> 0, mt |-> 0, exp |-> -1]

Expired(exp) == exp < 0 \/ clock > exp          \* Expiration::is_expired: now > t
OnDisk == {n \in Name : disk[n].ver > 0}

Init ==
  /\ disk \in [Name -> {[ver |-> 1, mt |-> 1], Absent}]
  /\ names = {n \in Name : disk[n].ver > 0}      \* ZoneInfoNames::new walks the directory
  /\ namesExp = TTL
  /\ cache = [n \in Name |-> NotCached]
  /\ clock = 0 /\ nextVer = 2
  /\ zlW = None /\ zlR = {} /\ nlW = None /\ nlR = {}
  /\ pc = [t \in Thread |-> "idle"] /\ arg = [t \in Thread |-> CHOOSE n \in Name : TRUE]
  /\ ret = [t \in Thread |-> 0] /\ info = [t \in Thread |-> FALSE]
  /\ ops = 0
  /\ seen = [t \in Thread |-> {}] /\ how = [t \in Thread |-> "none"]

CanRead(w) == w = None
CanWrite(w, r) == w = None /\ r = {}

\* ---- Database::get ---------------------------------------------------------------
Start(t, n) ==
  /\ pc[t] = "idle" /\ ops < MaxOps
  /\ pc' = [pc EXCEPT ![t] = "fast"] /\ arg' = [arg EXCEPT ![t] = n]
  /\ seen' = [seen EXCEPT ![t] = {disk[n].ver}] /\ how' = [how EXCEPT ![t] = "none"]
  /\ ops' = ops + 1
  /\ UNCHANGED <<disk, names, namesExp, cache, clock, nextVer, zlW, zlR, nlW, nlR, ret, info>>

\* zones.read() ... the guard is dropped at the end of the block
Fast(t) ==
  /\ pc[t] = "fast" /\ CanRead(zlW)
  /\ LET c == cache[arg[t]] IN
     IF c.ver > 0 /\ ~Expired(c.exp)
     THEN /\ ret' = [ret EXCEPT ![t] = c.ver] /\ pc' = [pc EXCEPT ![t] = "done"]
          /\ how' = [how EXCEPT ![t] = "fast"]
     ELSE /\ pc' = [pc EXCEPT ![t] = "names_r"] /\ UNCHANGED <<ret, how>>
  /\ UNCHANGED <<disk, names, namesExp, cache, clock, nextVer, zlW, zlR, nlW, nlR, arg, info, ops, seen>>

NamesR(t) ==
  /\ pc[t] = "names_r" /\ CanRead(nlW)
  /\ IF arg[t] \in names
     THEN pc' = [pc EXCEPT ![t] = "slow"] /\ info' = [info EXCEPT ![t] = TRUE]
     ELSE pc' = [pc EXCEPT ![t] = "names_w"] /\ UNCHANGED info
  /\ UNCHANGED <<disk, names, namesExp, cache, clock, nextVer, zlW, zlR, nlW, nlR, arg, ret, ops, seen, how>>

\* names.write(): attempt_refresh + lookup.  `listing` is what the directory
\* walk sees (the files on disk; the trace spec lets it be any listing the
\* directory had while the walk was running)
NamesWWith(t, listing) ==
  /\ pc[t] = "names_w" /\ CanWrite(nlW, nlR)
  /\ LET refresh == Expired(namesExp)
         nn == IF refresh THEN listing ELSE names
     IN /\ names' = nn
        /\ namesExp' = IF refresh THEN clock + TTL ELSE namesExp
        /\ IF arg[t] \in nn
           THEN pc' = [pc EXCEPT ![t] = "slow"] /\ info' = [info EXCEPT ![t] = TRUE] /\ UNCHANGED <<ret, how>>
           ELSE /\ pc' = [pc EXCEPT ![t] = "done"] /\ ret' = [ret EXCEPT ![t] = 0]
                /\ how' = [how EXCEPT ![t] = "unknown-name"] /\ UNCHANGED info
  /\ UNCHANGED <<disk, cache, clock, nextVer, zlW, zlR, nlW, nlR, arg, ops, seen>>
NamesW(t) == NamesWWith(t, OnDisk)

\* zones.write(): the whole match is one critical section.  `d` is the state
\* of the queried file as the section sees it (the trace spec lets it be any
\* state the file had while the section was running)
SlowWith(t, d) ==
  /\ pc[t] = "slow" /\ CanWrite(zlW, zlR)
  /\ LET n == arg[t]  c == cache[n] IN
     IF c.ver > 0
     THEN IF d.ver > 0 /\ d.mt = c.mt
          THEN \* revalidate: same mtime -> reuse and extend
               /\ cache' = [cache EXCEPT ![n].exp = clock + TTL]
               /\ ret' = [ret EXCEPT ![t] = c.ver] /\ how' = [how EXCEPT ![t] = "revalidated"]
          ELSE IF d.ver > 0
          THEN \* reload
               /\ cache' = [cache EXCEPT ![n] = [ver |-> d.ver, mt |-> d.mt, exp |-> clock + TTL]]
               /\ ret' = [ret EXCEPT ![t] = d.ver] /\ how' = [how EXCEPT ![t] = "reloaded"]
          ELSE \* file gone: None, stale entry kept
               /\ UNCHANGED cache
               /\ ret' = [ret EXCEPT ![t] = 0] /\ how' = [how EXCEPT ![t] = "gone"]
     ELSE IF d.ver > 0
          THEN /\ cache' = [cache EXCEPT ![n] = [ver |-> d.ver, mt |-> d.mt, exp |-> clock + TTL]]
               /\ ret' = [ret EXCEPT ![t] = d.ver] /\ how' = [how EXCEPT ![t] = "inserted"]
          ELSE /\ UNCHANGED cache
               /\ ret' = [ret EXCEPT ![t] = 0] /\ how' = [how EXCEPT ![t] = "gone"]
  /\ pc' = [pc EXCEPT ![t] = "done"]
  /\ UNCHANGED <<disk, names, namesExp, clock, nextVer, zlW, zlR, nlW, nlR, arg, info, ops, seen>>
Slow(t) == SlowWith(t, disk[arg[t]])

Finish(t) ==
  /\ pc[t] = "done" /\ pc' = [pc EXCEPT ![t] = "idle"]
  /\ UNCHANGED <<disk, names, namesExp, cache, clock, nextVer, zlW, zlR, nlW, nlR, arg, ret, info, ops, seen, how>>

\* ---- Database::reset: zones.write() { names.write() { clear listing }; clear zones } ------
ResetStart(t) ==
  /\ pc[t] = "idle" /\ ops < MaxOps /\ CanWrite(zlW, zlR)
  /\ zlW' = t /\ pc' = [pc EXCEPT ![t] = "reset_names"] /\ ops' = ops + 1
  /\ UNCHANGED <<disk, names, namesExp, cache, clock, nextVer, zlR, nlW, nlR, arg, ret, info, seen, how>>
\* under the names lock (the zones lock stays held)
ResetNames(t) ==
  /\ pc[t] = "reset_names" /\ CanWrite(nlW, nlR)
  /\ names' = {} /\ namesExp' = -1
  /\ pc' = [pc EXCEPT ![t] = "reset_zones"]
  /\ UNCHANGED <<disk, cache, clock, nextVer, zlW, zlR, nlW, nlR, arg, ret, info, ops, seen, how>>
\* still under the zones lock, which is released afterwards
ResetZones(t) ==
  /\ pc[t] = "reset_zones"
  /\ cache' = [n \in Name |-> NotCached]
  /\ zlW' = None /\ pc' = [pc EXCEPT ![t] = "idle"]
  /\ UNCHANGED <<disk, names, namesExp, clock, nextVer, zlR, nlW, nlR, arg, ret, info, ops, seen, how>>

\* ---- Database::available: one critical section under the names write lock -------------------
\* the result is the listing after the section (names'); `listing` as in NamesWWith
AvailWith(t, listing) ==
  /\ pc[t] = "idle" /\ ops < MaxOps /\ CanWrite(nlW, nlR)
  /\ LET refresh == Expired(namesExp) IN
     /\ names' = IF refresh THEN listing ELSE names
     /\ namesExp' = IF refresh THEN clock + TTL ELSE namesExp
  /\ ops' = ops + 1
  /\ UNCHANGED <<disk, cache, clock, nextVer, zlW, zlR, nlW, nlR, pc, arg, ret, info, seen, how>>
Avail(t) == AvailWith(t, OnDisk)

\* ---- environment ---------------------------------------------------------------------------
Note(n, v) == [t \in Thread |-> IF pc[t] \notin {"idle"} /\ arg[t] = n THEN seen[t] \cup {v} ELSE seen[t]]
ReplaceFile(n) ==
  /\ nextVer <= MaxVer /\ disk[n].ver > 0
  /\ disk' = [disk EXCEPT ![n] = [ver |-> nextVer, mt |-> nextVer]]
  /\ nextVer' = nextVer + 1 /\ seen' = Note(n, nextVer)
  /\ UNCHANGED <<names, namesExp, cache, clock, zlW, zlR, nlW, nlR, pc, arg, ret, info, ops, how>>
RemoveFile(n) ==
  /\ disk[n].ver > 0 /\ nextVer <= MaxVer
  /\ disk' = [disk EXCEPT ![n] = Absent] /\ seen' = Note(n, 0)
  /\ UNCHANGED <<names, namesExp, cache, clock, nextVer, zlW, zlR, nlW, nlR, pc, arg, ret, info, ops, how>>
AddFile(n) ==
  /\ disk[n].ver = 0 /\ nextVer <= MaxVer
  /\ disk' = [disk EXCEPT ![n] = [ver |-> nextVer, mt |-> nextVer]]
  /\ nextVer' = nextVer + 1 /\ seen' = Note(n, nextVer)
  /\ UNCHANGED <<names, namesExp, cache, clock, zlW, zlR, nlW, nlR, pc, arg, ret, info, ops, how>>
Tick ==
  /\ clock < MaxClock /\ clock' = clock + 1
  /\ UNCHANGED <<disk, names, namesExp, cache, nextVer, zlW, zlR, nlW, nlR, pc, arg, ret, info, ops, seen, how>>

Next ==
  \/ \E t \in Thread : \/ \E n \in Name : Start(t, n)
                       \/ Fast(t) \/ NamesR(t) \/ NamesW(t) \/ Slow(t) \/ Finish(t)
                       \/ ResetStart(t) \/ ResetNames(t) \/ ResetZones(t) \/ Avail(t)
  \/ \E n \in Name : ReplaceFile(n) \/ RemoveFile(n) \/ AddFile(n)
  \/ Tick

Spec == Init /\ [][Next]_vars
FairSpec == Spec /\ \A t \in Thread : WF_vars(Fast(t) \/ NamesR(t) \/ NamesW(t) \/ Slow(t) \/ Finish(t) \/ ResetNames(t) \/ ResetZones(t))

\* ---- properties -------------------------------------------------------------------------------
TypeOK ==
  /\ \A n \in Name : cache[n].ver >= 0 /\ disk[n].ver >= 0
  /\ zlW \in Thread \cup {None} /\ nlW \in Thread \cup {None}

\* a cache entry always holds a version its OWN file once had, with that
\* version's mtime (never torn, never another name's data)
CacheCoherent == \A n \in Name : cache[n].ver > 0 => cache[n].mt = cache[n].ver /\ cache[n].ver < nextVer

\* what a finished lookup may have returned:
\*  - via the fast path: the cached version, which was validated against the
\*    disk at most TTL ago (documented staleness)
\*  - via any slow path: a version the file had while the lookup was running
\*    (in particular the current one when nothing changed meanwhile)
\*  - None only if the file was absent at some moment of the lookup, or the
\*    directory listing (itself cached for TTL) does not know the name
ReturnOk ==
  \A t \in Thread : pc[t] = "done" =>
     CASE how[t] = "fast"         -> ret[t] > 0
       [] how[t] = "unknown-name" -> ret[t] = 0
       [] how[t] = "gone"         -> ret[t] = 0 /\ 0 \in seen[t]
       [] OTHER                   -> ret[t] > 0 /\ ret[t] \in seen[t]

\* after the ttl has passed (or a reset), a lookup never returns a version
\* older than what was on disk when it started, unless the file changed
\* again while it ran: the slow path returns exactly the disk content it saw
FreshAfterExpiry ==
  \A t \in Thread : (pc[t] = "done" /\ how[t] \in {"revalidated", "reloaded", "inserted"} /\ Cardinality(seen[t]) = 1)
                      => ret[t] = disk[arg[t]].ver

\* lock discipline: never a writer together with readers
LockInv == (zlW # None => zlR = {}) /\ (nlW # None => nlR = {})

\* every started operation can finish (no deadlock between the two locks)
Progress == \A t \in Thread : pc[t] # "idle" ~> pc[t] = "idle"
=======================================================================
