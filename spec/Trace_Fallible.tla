------------------------- MODULE Trace_Fallible -------------------------
(* C05: a fallible operation returns Ok or Err, never panics, in a build   *)
(* with debug assertions (dbg) and in one without (rel); both builds give  *)
(* the same result; an Ok value lies inside its type's documented range    *)
(* (Ranges.tla).  Each event is one call made with identical arguments in  *)
(* both builds.                                                            *)
EXTENDS Ranges, TLC, Json, IOUtils

Rec == ndJsonDeserialize(IOEnv.TRACE)
VARIABLE l
vars == <<l>>

Why(r) ==
  IF r.op # "call" THEN "unknown op"
  ELSE IF r.dbg.st = "panic" THEN "panicked (build with debug assertions)"
  ELSE IF r.rel.st = "panic" THEN "panicked (build without debug assertions)"
  ELSE IF r.dbg.st # r.rel.st THEN "one build returns Ok where the other returns Err"
  ELSE IF r.dbg.st = "err" THEN ""
  ELSE IF r.dbg.kind # r.rel.kind \/ r.dbg.val # r.rel.val THEN "the two builds return different values"
  ELSE ValueWhy(r.dbg.kind, r.dbg.val)

Init == l = 1
Next == /\ l <= Len(Rec)
        /\ LET w == Why(Rec[l]) IN IF w = "" THEN TRUE ELSE PrintT("MISMATCH|" \o ToString(l) \o "|" \o w)
        /\ l' = l + 1
Spec == Init /\ [][Next]_vars
Consumed == TLCGet("stats").diameter = Len(Rec) + 1
=======================================================================
