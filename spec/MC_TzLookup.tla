---------------------------- MODULE MC_TzLookup ----------------------------
(* Engine C for the zone semantics: every zone of a tiny universe (up to    *)
(* NMarks transitions at half-hour marks, three local time types over three  *)
(* offsets, no footer rule) x every probe instant.  The operators that the  *)
(* trace specifications of C03 / C04 / C14 use (binary searches, next /    *)
(* previous change, pre-images and their classification) are checked       *)
(* against their plain definitions by quantification over the universe.    *)
EXTENDS TzLookup, TLC

CONSTANT NMarks
Marks == {<<0, 1800 * k>> : k \in 1..NMarks}
Offs == {-3600, 0, 3600}
NoRule == [has |-> 0, std |-> <<0, "X">>, hasdst |-> 0]

\* probe instants: every mark, one nanosecond and half an hour around it
Probes == UNION {{<<0, m[2], 0>>, AddNs(<<0, m[2], 0>>, -1), AddNs(<<0, m[2], 0>>, 1), <<0, m[2] + 900, 0>>} : m \in Marks} \cup {<<0, 0, 0>>}

VARIABLES z, t
vars == <<z, t>>

\* all strictly increasing sequences over a set of marks, each with a type index
RECURSIVE SeqsOver(_)
SeqsOver(S) ==
  IF S = {} THEN {<<>>}
  ELSE LET m == CHOOSE x \in S : \A y \in S : x[2] >= y[2]
           rest == SeqsOver(S \ {m})
       IN rest \cup {Append(r, <<m[1], m[2], k>>) : r \in rest, k \in 1..3}

Zones == {[types |-> <<<<o1, 0, "A">>, <<o2, 1, "B">>, <<o3, 0, "C">>>>, trans |-> tr, rule |-> NoRule] :
            o1 \in Offs, o2 \in Offs, o3 \in Offs, tr \in SeqsOver(Marks)}

Init == z \in Zones /\ t \in Probes
Next == UNCHANGED vars
Spec == Init /\ [][Next]_vars

TableTimes == {TT(z, i) : i \in 1..NTrans(z)}
Changes == {T \in TableTimes : IsChange(z, T)}
Least(S) == CHOOSE x \in S : \A y \in S : x = y \/ TLt(x, y)
Greatest(S) == CHOOSE x \in S : \A y \in S : x = y \/ TLt(y, x)

SearchOk == LastAtOrBefore(z, t) = Cardinality({i \in 1..NTrans(z) : TLe(TT(z, i), t)})
NextOk == LET after == {T \in Changes : TLt(t, T)} IN
          NextChangeAfter(z, t) = IF after = {} THEN <<>> ELSE Least(after)
PrevOk == LET before == {T \in Changes : TLt(T, t)} IN
          PrevChangeBefore(z, t) = IF before = {} THEN <<>> ELSE Greatest(before)
\* an instant is a pre-image of the civil time it displays
SoundOk == OffAt(z, t) \in Pre(z, CivilOfInst(t, OffAt(z, t)))
\* the classification of the civil time read at any offset
ClassOk == \A o \in Offs :
  LET c == CivilOfInst(t, o)  cl == Classify(z, c)  P == Pre(z, c) IN
  /\ (cl[1] = "u" <=> Cardinality(P) = 1)
  /\ (cl[1] = "f" => Cardinality(P) = 2 /\ cl[2] > cl[3] /\ TLt(InstOfCivil(c, cl[2]), InstOfCivil(c, cl[3])))
  \* a gap: nothing displays c; between the two candidate instants the zone changes
  /\ (cl[1] = "g" => P = {} /\ cl[2] < cl[3]
                     /\ \E T \in Changes : TLt(InstOfCivil(c, cl[3]), T) /\ TLe(T, InstOfCivil(c, cl[2])))
  \* a resolved instant of an unambiguous or folded time displays it
  /\ (cl[1] \in {"u", "f"} => \A s \in {"compatible", "earlier", "later"} :
        LET oo == StrategyOffset(s, cl) IN CivilOfInst(InstOfCivil(c, oo), OffAt(z, InstOfCivil(c, oo))) = c)
=======================================================================
