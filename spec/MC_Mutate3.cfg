SPECIFICATION Spec
CONSTANT MaxLen = 3
INVARIANT EmitFull
CHECK_DEADLOCK FALSE
