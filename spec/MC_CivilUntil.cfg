SPECIFICATION Spec
CONSTANTS
  First = 19686
  Last = 20152
INVARIANTS UntilOk
CHECK_DEADLOCK FALSE
