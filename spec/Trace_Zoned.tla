--------------------------- MODULE Trace_Zoned ---------------------------
(* Trace validation of Zoned datetimes: C06 (DST-aware arithmetic, start   *)
(* of day), C13 (every Zoned is consistent with its zone; Eq/Ord/Hash on   *)
(* the instant; zone changes keep the instant), the zoned clauses of C07   *)
(* (differences) and C10 (rounding).  "zone" events install up to two      *)
(* zones (slot 1 / slot 2); every Zoned result is reported as              *)
(*   [st, sec, ns, off, civil]                                             *)
(* and is checked for well-formedness wherever it appears.                 *)
EXTENDS SpanRel, Rfc3339, TLC, Json, IOUtils

Rec == ndJsonDeserialize(IOEnv.TRACE)
VARIABLES l, z1, z2
vars == <<l, z1, z2>>

ZoneOf(slot) == IF slot = 2 THEN Rec[z2] ELSE Rec[z1]
InstOfZ(x) == InstOfApi(x.sec, x.ns)

\* ---- C13: well-formedness of a reported Zoned ---------------------------------
WfWhy(z, x) ==
  IF x.st # "ok" THEN ""
  ELSE IF ~ApiSignsOk(x.sec, x.ns) THEN "Zoned timestamp has mixed signs"
  ELSE LET t == InstOfZ(x) IN
       IF ~InTsRange(t) THEN "Zoned instant out of range"
       ELSE IF x.off # OffAt(z, t) THEN "Zoned offset is not the zone's offset at its instant"
       ELSE IF x.civil # FieldsOf(CivilOfInst(t, x.off)) THEN "Zoned civil datetime is not instant + offset"
       ELSE ""

\* expected instant e (<<>> = must be Err) against a reported Zoned x
ResWhy(z, x, e, what) ==
  IF x.st = "panic" THEN what \o ": panic"
  ELSE IF e = <<>> THEN (IF x.st = "err" THEN "" ELSE what \o ": accepted although the result is out of range")
  ELSE IF x.st # "ok" THEN what \o ": refused a representable result"
  ELSE IF WfWhy(z, x) # "" THEN WfWhy(z, x)
  ELSE IF InstOfZ(x) # e THEN what
  ELSE ""

First(ws) == IF \E i \in DOMAIN ws : ws[i] # "" THEN ws[CHOOSE i \in DOMAIN ws : ws[i] # "" /\ \A j \in 1..(i-1) : ws[j] = ""] ELSE ""

\* ---- C06: Zoned + span / duration ---------------------------------------------------
ZAddWhy(r) ==
  LET z == ZoneOf(r.zi)  t == InstOfZ(r.z)  sp == r.span IN
  IF ~ZAddSettled(z, t, sp) \/ ~ZAddSettled(z, t, SpanNeg(sp)) THEN ""     \* >= 3 pre-images: outside the wording
  ELSE LET ea == ZAdd(z, t, sp)
           es == ZAdd(z, t, SpanNeg(sp))
           sat == IF ea # <<>> THEN ea ELSE IF SpanSign(sp) > 0 THEN TsMax ELSE TsMin
       IN First(<<WfWhy(z, r.z),
                  ResWhy(z, r.add, ea, "Zoned::checked_add(span)"),
                  ResWhy(z, r.sub, es, "Zoned::checked_sub(span) is not addition of the negated span"),
                  ResWhy(z, r.sat, sat, "Zoned::saturating_add(span)")>>)

ZDurWhy(r) ==
  LET z == ZoneOf(r.zi)  t == InstOfZ(r.z)  T == BNanosOfApi(r.dsec, r.dns)
      ea == InstPlusNs(t, T)  es == InstPlusNs(t, BNeg(T))
  IN First(<<ResWhy(z, r.add, ea, "Zoned::checked_add(duration)"),
             ResWhy(z, r.sub, es, "Zoned::checked_sub(duration)")>>)

\* ---- C06: start / end of day, neighbours -----------------------------------------------
ZDayWhy(r) ==
  LET z == ZoneOf(r.zi)  t == InstOfZ(r.z)
      c == CivilAt(z, t)
      sod == StartOfDay(z, t)
      \* end of day = the last instant of the civil date: 23:59:59.999999999
      \* resolved to the LATER instant of a fold and the EARLIER one of a gap
      \* (the reverse of "compatible", as documented)
      eodc == <<c[1], 86399, 999999999>>
      eod == IF Settled(z, eodc) THEN EndOfDayC(z, eodc) ELSE <<>>
      oneDay == [SpanZero EXCEPT !.d = 1]
  IN First(<<IF StartSettled(z, c[1]) THEN ResWhy(z, r.sod, sod, "Zoned::start_of_day is not the first instant of the civil day") ELSE "",
             IF Settled(z, eodc) THEN ResWhy(z, r.eod, eod, "Zoned::end_of_day") ELSE "",
             IF ZAddSettled(z, t, oneDay) THEN ResWhy(z, r.tom, ZAdd(z, t, oneDay), "Zoned::tomorrow") ELSE "",
             IF ZAddSettled(z, t, SpanNeg(oneDay)) THEN ResWhy(z, r.yes, ZAdd(z, t, SpanNeg(oneDay)), "Zoned::yesterday") ELSE "">>)

\* ---- C07: zoned differences -------------------------------------------------------------
ZUntilWhy(r) ==
  LET z == ZoneOf(r.zi)  a == InstOfZ(r.a)  b == InstOfZ(r.b)
      L == UnitRank(r.largest)
      T == InstDiffNs(a, b)
      durw == IF <<r.dsec, r.dns>> # BDivTruncE9(T) THEN "duration_until is not the exact distance" ELSE ""
      sincew == IF r.st = "ok" /\ r.sst = "ok" /\ r.since # SpanNeg(r.span) THEN "since is not the negation of until"
                ELSE IF r.st # r.sst THEN "since and until disagree on failure" ELSE ""
  IN
  IF r.st = "panic" \/ r.sst = "panic" THEN "Zoned::until panicked"
  ELSE IF L <= 5
  THEN LET exp == ExpTimeSpan(T, L) IN
       IF ~HoursFit(T, L) \/ ~SpanInLimits(exp) THEN (IF r.st = "err" THEN "" ELSE "Zoned::until returned a span beyond the unit limits")
       ELSE IF r.st # "ok" THEN "Zoned::until failed"
       ELSE IF r.span # exp THEN "Zoned::until is not the balanced exact difference"
       ELSE First(<<sincew, durw>>)
  ELSE LET sign == Sign3(a, b)
           ca == CivilAt(z, a)  cb == CivilAt(z, b)
       IN
       IF sign = 0 THEN (IF r.st = "ok" /\ r.span = SpanZero THEN "" ELSE "Zoned::until of equal instants is not zero")
       \* same civil day: the difference is just the elapsed time
       ELSE IF ca[1] = cb[1]
       THEN (IF r.st # "ok" THEN "Zoned::until failed"
             ELSE IF r.span # ExpTimeSpan(T, 5) THEN "Zoned::until on one civil day is not the elapsed time"
             ELSE First(<<sincew, durw>>))
       \* civil dates ordered against the instants (the clock was set back across midnight in between): no
       \* calendar unit of the right sign fits; the difference is the elapsed time (settled when under a day)
       ELSE IF (sign > 0 /\ cb[1] < ca[1]) \/ (sign < 0 /\ cb[1] > ca[1])
       THEN (IF r.st # "ok" THEN "Zoned::until failed"
             ELSE IF ZAddSettled(z, a, r.span) /\ ZAdd(z, a, r.span) # b THEN "a + (a until b) # b"
             ELSE IF BLt(BAbs(T), BDayNs) /\ r.span # ExpTimeSpan(T, 5) THEN "Zoned::until across a set-back over midnight is not the elapsed time"
             ELSE First(<<sincew, durw>>))
       ELSE LET dc == DayCorr(z, a, ca, cb, b, sign) IN
            IF dc < 0 THEN ""     \* no admissible intermediate day (exotic zone): unsettled
            ELSE LET dayX == cb[1] - dc * sign
                     i == Interm(z, a, ca, cb, sign, dc)
                     e == DateDiff(DateOfEpochDay(ca[1]), DateOfEpochDay(dayX), L)
                     Tt == InstDiffNs(i, b)
                     tp == ExpTimeSpan(Tt, 5)
                     exp == [tp EXCEPT !.y = e[1], !.mo = e[2], !.w = e[3], !.d = e[4]]
                     back == ZAdd(z, a, r.span)
                 IN  IF ~Settled(z, <<dayX, ca[2], ca[3]>>) THEN ""
                     ELSE IF ~SpanInLimits(exp) THEN (IF r.st = "err" THEN "" ELSE "Zoned::until returned a span beyond the unit limits")
                     ELSE IF r.st # "ok" THEN "Zoned::until failed"
                     ELSE IF ZAddSettled(z, a, r.span) /\ back # b THEN "a + (a until b) # b"
                     ELSE IF r.span # exp THEN "Zoned::until is not the balanced difference"
                     ELSE First(<<sincew, durw>>)

\* ---- C10: zoned rounding ----------------------------------------------------------------------
ZRoundWhy(r) ==
  LET z == ZoneOf(r.zi)  t == InstOfZ(r.z)
      legal == UnitRank(r.unit) <= 6 /\ SmallIncOk(r.unit, r.k)
  IN
  IF ~legal THEN (IF r.res.st = "err" THEN "" ELSE "Zoned::round accepted an illegal unit/increment")
  ELSE IF r.res.st = "panic" THEN "Zoned::round panicked"
  ELSE IF r.unit = "d"
  THEN \* start of the civil day or of the next one, by the elapsed fraction of the day's real length
       LET c == CivilAt(z, t)
           s0 == StartOfDayC(z, c[1])
           s1 == StartOfDayC(z, c[1] + 1)
       IN IF s0 = <<>> \/ s1 = <<>> \/ ~InTsRange(s0) \/ ~StartSettled(z, c[1]) \/ ~StartSettled(z, c[1] + 1) THEN ""
          ELSE IF ~InTsRange(s1) /\ r.res.st = "err" THEN ""    \* last day of the range: the day length is not computable
          \* a civil day interrupted by a fold across midnight (St. John's 1987-10-24: 00:01 -> 23:01): the
          \* instant lies outside [start of its day, start of the next): the wording does not settle this
          ELSE IF ~(TLe(s0, t) /\ TLt(t, s1)) THEN ""
          ELSE LET x == InstDiffNs(s0, t)  len == InstDiffNs(s0, s1)
                   up == RoundOk(r.mode, x, len, len, BOf(1))
                   e == IF up /\ x # BZero THEN (IF InTsRange(s1) THEN s1 ELSE <<>>) ELSE s0
               IN ResWhy(z, r.res, e, "Zoned::round to days")
  ELSE LET c == CivilAt(z, t)
           x == TodNs(c[2], c[3])
           inc == BMul(r.k, UnitNs(r.unit))
           tg == Target(r.mode, x, inc, r.mf)
           rc == IF tg[2] = BDayNs THEN <<c[1] + 1, 0, 0>> ELSE LET d == DurOfNs(tg[2]) IN <<c[1], d[3], d[4]>>
           orig == OffAt(z, t)
       IN IF tg[1] = 0 THEN "harness witness inconsistent (Zoned::round)"
          ELSE IF rc[1] > EpochDayMax THEN (IF r.res.st = "err" THEN "" ELSE "Zoned::round beyond the range")
          ELSE IF ~Settled(z, rc) THEN ""
          ELSE LET e == IF orig \in Pre(z, rc) THEN InstOfCivil(rc, orig) ELSE Compat(z, rc)
               IN ResWhy(z, r.res, IF e # <<>> /\ InTsRange(e) THEN e ELSE <<>>, "Zoned::round (civil rounding, prefer original offset)")

\* ---- C13: a step of an operation history ---------------------------------------------------
\* r.cur is the Zoned after the step (zone slot r.zi), r.prev the one before
\* (slot r.pzi); r.eq / r.ord / r.heq compare them through the public
\* Eq / Ord / Hash; r.keep = 1 when the operation must keep the instant.
\* the with-builders: replace civil fields (or the offset) and resolve again.  Defaults as documented:
\* offset conflicts prefer the (original or given) offset when the zone assigns it to the new civil time,
\* otherwise the civil time is resolved with the compatible strategy.
\* Returns <<"skip">>, <<"err">> or <<"at", instant>>.
WithExpect(z, r) ==
  LET t == InstOfZ(r.prev)  c == CivilAt(z, t)  o == OffAt(z, t)  dt == DateOfEpochDay(c[1])
      Prefer(c2, off) == IF ~Settled(z, c2) THEN <<"skip">>
                         ELSE LET e == IF off \in Pre(z, c2) THEN InstOfCivil(c2, off) ELSE Compat(z, c2) IN
                              IF e # <<>> /\ InTsRange(e) THEN <<"at", e>> ELSE <<"err">>
  IN CASE r.args.kind = "hm" -> Prefer(<<c[1], r.args.h * 3600 + r.args.mi * 60 + (c[2] % 60), c[3]>>, o)
       [] r.args.kind = "md" -> IF ~ValidDate(dt[1], r.args.m, r.args.d) THEN <<"err">>
                                ELSE Prefer(<<EpochDayOf(dt[1], r.args.m, r.args.d), c[2], c[3]>>, o)
       [] r.args.kind = "off" ->
            (CASE r.args.oc = "always-offset" -> LET e == InstOfCivil(c, r.args.off) IN IF InTsRange(e) THEN <<"at", e>> ELSE <<"err">>
               [] r.args.oc = "always-tz" -> (IF ~Settled(z, c) THEN <<"skip">> ELSE LET e == Compat(z, c) IN IF e # <<>> THEN <<"at", e>> ELSE <<"err">>)
               [] r.args.oc = "prefer" -> Prefer(c, r.args.off)
               [] OTHER -> IF ~Settled(z, c) THEN <<"skip">>
                           ELSE IF r.args.off \in Pre(z, c) THEN <<"at", InstOfCivil(c, r.args.off)>> ELSE <<"err">>)
       \* the civil datetime resolved again / moved to the first or last day of its month, compatibly
       [] r.args.kind = "rez" -> Prefer(c, NoOffset)
       [] r.args.kind = "fom" -> Prefer(<<EpochDayOf(dt[1], dt[2], 1), c[2], c[3]>>, NoOffset)
       [] r.args.kind = "lom" -> Prefer(<<EpochDayOf(dt[1], dt[2], DaysInMonth(dt[1], dt[2])), c[2], c[3]>>, NoOffset)
       [] r.args.kind = "sod" -> IF ~StartSettled(z, c[1]) THEN <<"skip">>
                                 ELSE LET e == StartOfDay(z, t) IN IF e = <<>> THEN <<"err">> ELSE <<"at", e>>
       [] r.args.kind = "day" -> LET sp == [SpanZero EXCEPT !.d = r.args.n] IN
                                 IF ~ZAddSettled(z, t, sp) THEN <<"skip">>
                                 ELSE LET e == ZAdd(z, t, sp) IN IF e = <<>> THEN <<"err">> ELSE <<"at", e>>
       [] OTHER -> <<"skip">>
WithWhy(z, r) ==
  LET e == WithExpect(z, r) IN
  IF e[1] = "skip" THEN ""
  ELSE IF e[1] = "err" THEN (IF r.cur.st = "err" THEN "" ELSE "'" \o r.name \o "' accepted although the documented resolution fails")
  ELSE IF r.cur.st # "ok" THEN "'" \o r.name \o "' refused a resolvable civil time"
  ELSE IF InstOfZ(r.cur) # e[2] THEN "'" \o r.name \o "': not the instant the documented resolution gives"
  ELSE ""

ZStepWhy(r) ==
  LET z == ZoneOf(r.zi) IN
  IF r.cur.st = "panic" THEN "operation '" \o r.name \o "' panicked"
  ELSE IF r.args.kind # "none" /\ r.zi = r.pzi /\ WithWhy(z, r) # "" THEN WithWhy(z, r)
  ELSE IF r.cur.st # "ok" THEN ""
  ELSE LET w == WfWhy(z, r.cur) IN
    IF w # "" THEN w \o " (after " \o r.name \o ")"
    ELSE LET a == InstOfZ(r.prev)  b == InstOfZ(r.cur) IN
      IF r.keep = 1 /\ a # b THEN "zone change altered the instant"
      ELSE IF (r.eq = 1) # (a = b) THEN "Zoned equality does not depend on the instant only"
      ELSE IF r.ord # Sign3(a, b) THEN "Zoned ordering does not depend on the instant only"
      ELSE IF a = b /\ r.heq # 1 THEN "equal Zoned values hash differently"
      ELSE ""

\* ---- C09: RFC 9557 text of a zoned datetime ----------------------------------------------
DigitsFewest(ns, k) == (ns = 0 /\ k = 0) \/ (ns # 0 /\ k \in 1..9 /\ ns % Pow10(9 - k) = 0 /\ (k = 1 \/ ns % Pow10(10 - k) # 0))
AbsI2(i) == IF i < 0 THEN 0 - i ELSE i
ZTextWhy(r) ==
  LET z == ZoneOf(r.zi)  t == InstOfZ(r.z)
      c == CivilAt(z, t)  o == OffAt(z, t)
      p == RdInstant(r.text, TRUE)
  IN IF ~p.ok THEN "printed zoned datetime is not valid RFC 9557"
     ELSE IF ~DigitsFewest(c[3], p.digits) THEN "fraction digits"
     ELSE IF p.fields # FieldsOf(c) THEN "printed civil fields"
     ELSE IF p.zulu \/ p.offsecs THEN "offset not printed as +-hh:mm"
     ELSE IF AbsI2(p.off - o) > 30 THEN "printed offset is not the offset rounded to the minute"
     ELSE IF p.name # r.name THEN "annotation is not the time zone"
     \* an independent RFC 9557 reader: the civil time in the annotated zone,
     \* the printed offset selecting among the instants that show it
     \* two instants show this civil time with offsets that round to the same minute (a fold of
     \* a few seconds, e.g. Anchorage 1900-08-20 -09:59:36 -> -10:00): no RFC 9557 text can tell them apart
     ELSE IF Cardinality({x \in Pre(z, c) : AbsI2(x - p.off) <= 30}) >= 2 THEN ""
     ELSE IF {x \in Pre(z, c) : AbsI2(x - p.off) <= 30} # {o} THEN "the text does not determine the instant"
     ELSE IF r.re.st # "ok" THEN "jiff refuses its own output"
     ELSE IF InstOfZ(r.re) # t THEN "re-parse yields a different instant"
     ELSE IF r.re.off # o \/ r.re.civil # FieldsOf(c) THEN "re-parse yields different fields"
     ELSE IF r.rename # 1 THEN "re-parse yields a different time zone"
     ELSE ""

\* ---- C11: spans relative to a reference (SpanRel.tla) ----------------------------------------
\* the balanced form of n uniform nanoseconds with largest unit L fits the span limits
NsFits(n, L) ==
  IF L <= 5 THEN HoursFit(n, L) /\ SpanInLimits(ExpTimeSpan(n, L))
  ELSE LET a == BalanceAbs(BAbs(n), 6) IN BFitsInt(a[1]) /\ BToInt(a[1]) <= LimD

UnitLimit(k) == CASE k = 9 -> BOf(LimY) [] k = 8 -> BOf(LimMo) [] k = 7 -> BOf(LimW) [] k = 6 -> BOf(LimD) [] k = 5 -> BOf(LimH)
                  [] k = 4 -> LimMi [] k = 3 -> LimS [] k = 2 -> LimMs [] k = 1 -> LimUs [] k = 0 -> LimNs

SpRoundWhy(r) ==
  LET z == ZoneOf(1)
      S == UnitRank(r.smallest)  L == UnitRank(r.largest)
      g == RoundGoal(z, r.ref, r.span, S, L, r.inc, r.mode, r.mf)
      out == r.res.span
      reach == IF RSettled(z, r.ref, out) THEN RAdd(z, r.ref, out) ELSE <<>>
  IN
  IF r.res.st = "panic" THEN "Span::round panicked"
  ELSE IF g.st = "skip" THEN ""
  ELSE IF g.st = "witness" THEN "harness witness inconsistent (Span::round)"
  ELSE IF g.st = "err" THEN (IF r.res.st = "err" THEN "" ELSE "Span::round accepted a request it must refuse")
  ELSE IF r.res.st = "err"
  THEN (IF g.st = "ns" /\ ~NsFits(g.n, L) THEN ""
        ELSE IF g.st = "weak" THEN ""
        ELSE IF g.st = "set" /\ g.errok THEN ""
        ELSE IF g.st = "set" /\ (\E p \in g.ps : LET u == RUntil(z, r.ref, p, L) IN ~u.ok \/ ~SpanInLimits(u.sp)) THEN ""
        ELSE IF g.st = "pos" /\ (LET u == RUntil(z, r.ref, g.p, L) IN ~u.ok \/ ~SpanInLimits(u.sp)) THEN ""
        ELSE "Span::round refused a representable result")
  ELSE IF ~SpanInLimits(out) THEN "Span::round returned a span beyond the unit limits"
  \* (without a reference the total is a multiple of the increment; its days need not be when weeks are the largest unit)
  ELSE IF ~ShapeOk(out, S, L, r.inc, r.q) /\ ~(g.st = "ns" /\ ShapeOk(out, S, L, BZero, BZero) /\ SGet(out, S) = BZero)
          /\ ~(g.st = "weak" /\ S >= 6 /\ OneSign(out) /\ \A k \in 0..9 : (k > L \/ k < S) => SGet(out, k) = BZero)
          /\ ~(g.st = "ns" /\ S = 6 /\ L = 7 /\ (\A k \in 0..5 : SGet(out, k) = BZero) /\ SGet(out, 8) = BZero /\ SGet(out, 9) = BZero /\ OneSign(out))
       THEN "Span::round: units outside smallest..largest, mixed signs, or not a multiple of the increment"
  ELSE IF g.st = "ns" THEN (IF UniformNs(out) = g.n THEN "" ELSE "Span::round (no reference): not the mode's multiple of the increment")
  ELSE IF ~RSettled(z, r.ref, out) THEN ""
  ELSE IF reach = <<>> THEN "reference + rounded span is out of range"
  ELSE IF g.st = "pos"
       THEN (IF reach = g.p THEN "" ELSE IF S = 0 /\ r.inc = BOf(1) THEN "balancing changed reference + span" ELSE "Span::round: reference + result is not the neighbour the mode prescribes")
  ELSE IF g.st = "set"
       \* (a result that reaches reference + span itself is exact, whatever balanced form it has:
       \*  2024-02-29 + 102y and 2024-02-29 + 101y 11mo 30d are the same day)
       THEN (IF reach \in g.ps \/ reach = RAdd(z, r.ref, r.span) THEN "" ELSE "Span::round: reference + result is not the neighbour the mode prescribes" \o (IF "DEBUG" \in DOMAIN IOEnv THEN " want=" \o ToString(g.ps) \o " got=" \o ToString(reach) \o " t0=" \o ToString(RAdd(z, r.ref, r.span)) ELSE ""))
  ELSE \* weak
       LET d == Dist(g.t0, reach)  two == BMulSmall(BAbs(d), 2) IN
       \* (a zoned day whose length is no multiple of the increment is re-rounded from the day boundary,
       \*  which can add up to one more increment; a calendar step is up to 25 hours per day long)
       IF ~BLt(BAbs(d), BAdd(g.incNs, g.slack)) THEN "Span::round: result further than one increment from reference + span"
       ELSE IF g.sgn = 0 /\ d # BZero THEN "Span::round of a zero distance moved"
       \* (steps of days / weeks inside a larger unit: balancing to the month boundary can land on either side)
       ELSE IF S >= 6 THEN ""
       ELSE CASE r.mode = "ceil"   -> (IF d.s >= 0 THEN "" ELSE "Span::round(ceil) went down")
              [] r.mode = "floor"  -> (IF d.s <= 0 THEN "" ELSE "Span::round(floor) went up")
              [] r.mode = "expand" -> (IF d.s * g.sgn >= 0 THEN "" ELSE "Span::round(expand) went toward zero")
              [] r.mode = "trunc"  -> (IF d.s * g.sgn <= 0 THEN "" ELSE "Span::round(trunc) went away from zero")
              [] OTHER             -> (IF BLe(two, BAdd(g.incNs, BMulSmall(g.slack, 2))) THEN "" ELSE "Span::round(half-*) is not a nearest multiple")

SpTotalWhy(r) ==
  LET z == ZoneOf(1)  g == TotalGoal(z, r.ref, r.span, UnitRank(r.unit)) IN
  IF r.res.st = "panic" THEN "Span::total panicked"
  ELSE IF g.st = "skip" THEN ""
  ELSE IF g.st = "err" THEN (IF r.res.st = "err" THEN "" ELSE "Span::total accepted a request it must refuse")
  ELSE IF g.st = "maybe-err" THEN ""
  \* the count does not fit the unit's own limit in a Span: the intermediate balanced span cannot exist
  ELSE IF r.res.st = "err" /\ ~BLe(BAbs(g.num), BMul(g.den, UnitLimit(UnitRank(r.unit)))) THEN ""
  ELSE IF r.res.st = "err" THEN "Span::total refused"
  ELSE IF r.res.f.kind # "finite" THEN "Span::total is not a finite number"
  ELSE IF ~FloatNear(r.res.f, g.num, g.den) THEN "Span::total is not the exact count of the unit"
  ELSE ""

SpAddWhy(r) ==
  LET z == ZoneOf(1)
      g == AddGoal(z, r.ref, r.a, IF r.sub = 1 THEN SpanNeg(r.b) ELSE r.b)
      out == r.res.span
      what == IF r.sub = 1 THEN "Span::checked_sub" ELSE "Span::checked_add"
  IN
  IF r.res.st = "panic" THEN what \o " panicked"
  ELSE IF g.st = "skip" THEN ""
  ELSE IF g.st = "err" THEN (IF r.res.st = "err" THEN "" ELSE what \o " accepted a request it must refuse")
  ELSE IF r.res.st = "err"
       THEN (IF g.st = "ns" /\ ~NsFits(g.n, IF g.top <= 5 THEN g.top ELSE 6) THEN ""
             ELSE IF g.st = "pos" /\ (LET u == RUntil(z, r.ref, g.p, g.top) IN ~u.ok \/ ~SpanInLimits(u.sp)) THEN ""
             ELSE what \o " refused a representable sum")
  ELSE IF ~SpanInLimits(out) \/ ~OneSign(out) THEN what \o " returned a span beyond the limits or of mixed signs"
  ELSE IF SLargest(out) > g.top THEN what \o " returned a unit larger than both operands have"
  ELSE IF g.st = "ns" THEN (IF UniformNs(out) = g.n THEN "" ELSE what \o " is not the exact sum")
  ELSE IF ~RSettled(z, r.ref, out) THEN ""
  ELSE IF RAdd(z, r.ref, out) # g.p THEN what \o ": reference + result is not (reference + a) + b"
  ELSE ""

SpDurWhy(r) ==
  LET z == ZoneOf(1)  g == DurGoal(z, r.ref, r.span) IN
  IF r.res.st = "panic" THEN "Span::to_duration panicked"
  ELSE IF g.st = "skip" THEN ""
  ELSE IF g.st = "err" THEN (IF r.res.st = "err" THEN "" ELSE "Span::to_duration accepted a request it must refuse")
  ELSE IF r.res.st = "err" THEN (IF BLe(BAbs(g.n), BMul(I64Max, BPow10_9)) THEN "Span::to_duration refused" ELSE "")
  ELSE IF <<r.res.sec, r.res.ns>> # BDivTruncE9(g.n) THEN "Span::to_duration is not the exact time between reference and reference + span"
  ELSE ""

SpCmpWhy(r) ==
  LET z == ZoneOf(1)  g == CompareGoal(z, r.ref, r.a, r.b) IN
  IF r.res.st = "panic" THEN "Span::compare panicked"
  ELSE IF g.st = "skip" THEN ""
  ELSE IF g.st = "err" THEN (IF r.res.st = "err" THEN "" ELSE "Span::compare accepted a request it must refuse")
  ELSE IF r.res.st = "err" THEN "Span::compare refused"
  ELSE IF r.res.o # g.o THEN "Span::compare does not order the spans as reference + a and reference + b"
  ELSE ""

Why(r) ==
  CASE r.op = "zone"    -> ""
    [] r.op = "z_text"  -> ZTextWhy(r)
    [] r.op = "z_add"   -> ZAddWhy(r)
    [] r.op = "z_dur"   -> ZDurWhy(r)
    [] r.op = "z_day"   -> ZDayWhy(r)
    [] r.op = "z_until" -> ZUntilWhy(r)
    [] r.op = "z_round" -> ZRoundWhy(r)
    [] r.op = "z_step"  -> ZStepWhy(r)
    [] r.op = "sp_round" -> SpRoundWhy(r)
    [] r.op = "sp_total" -> SpTotalWhy(r)
    [] r.op = "sp_cmp"   -> SpCmpWhy(r)
    [] r.op = "sp_add"   -> SpAddWhy(r)
    [] r.op = "sp_dur"   -> SpDurWhy(r)
    [] OTHER            -> "unknown op"

Init == l = 1 /\ z1 = 0 /\ z2 = 0
Next == /\ l <= Len(Rec)
        /\ LET r == Rec[l] IN
           /\ z1' = IF r.op = "zone" /\ r.slot = 1 THEN l ELSE z1
           /\ z2' = IF r.op = "zone" /\ r.slot = 2 THEN l ELSE z2
           /\ LET w == Why(r) IN IF w = "" THEN TRUE ELSE PrintT("MISMATCH|" \o ToString(l) \o "|" \o w)
        /\ l' = l + 1
Spec == Init /\ [][Next]_vars
Consumed == TLCGet("stats").diameter = Len(Rec) + 1
=======================================================================
