SPECIFICATION Spec
CONSTANT MaxLen = 9
INVARIANT SlotInv
INVARIANT EmitFull
CHECK_DEADLOCK FALSE
