SPECIFICATION Spec
INVARIANTS AddOk MulOk DivOk BigLaws
CHECK_DEADLOCK FALSE
