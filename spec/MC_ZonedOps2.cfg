SPECIFICATION Spec
CONSTANT MaxLen = 2
INVARIANT SlotInv
INVARIANT EmitFull
CHECK_DEADLOCK FALSE
