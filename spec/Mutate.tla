----------------------------- MODULE Mutate -----------------------------
(* Mutation plans for parser inputs (C17).  A plan is a sequence of steps  *)
(* <<operator, position, argument>> applied by the harness to a valid      *)
(* text: operators are the grammar-aware mutations of the property's       *)
(* quantifier (0 truncate, 1 delete, 2 duplicate, 3 swap neighbours,       *)
(* 4 overflow a digit run, 5 flip a sign, 6 swap a separator, 7 insert     *)
(* non-UTF-8 bytes, 8 very long run, 9 flip case, 10 insert blank/zero,    *)
(* 11 replace a digit, 12 insert a multi-byte or NUL character, 13 splice  *)
(* with another valid text); the position is an eighth of the input's      *)
(* length and the argument selects the operator's variant.  TLC enumerates *)
(* every plan up to MaxLen (model checking) or samples longer ones         *)
(* (simulation); each reachable state is a plan and is printed.            *)
EXTENDS Integers, Sequences, TLC, Json

CONSTANT MaxLen
Ops == 0..13
Pos == 0..8
Arg == 0..3

VARIABLE plan
Init == plan = <<>>
Next == /\ Len(plan) < MaxLen
        /\ \E o \in Ops, p \in Pos, a \in Arg : plan' = Append(plan, <<o, p, a>>)
Spec == Init /\ [][Next]_plan

\* always true; prints the plan of every state TLC reaches
Emit == plan = <<>> \/ PrintT(<<"HIST", ToJson(plan)>>)
\* simulation: print only complete plans
EmitFull == Len(plan) < MaxLen \/ PrintT(<<"HIST", ToJson(plan)>>)
=======================================================================
