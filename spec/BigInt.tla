---------------------------- MODULE BigInt ----------------------------
(* Exact integers beyond TLC's 32-bit Int.  A value is a record          *)
(*   [s |-> -1 | 0 | 1,  m |-> little-endian sequence of base-10^4 limbs] *)
(* with no most-significant zero limb; zero is [s |-> 0, m |-> <<>>].     *)
(* Every intermediate product stays below 2^31:                          *)
(*   limb * small + carry  with small <= 200000  -> < 2.01e9.             *)
(* MC_BigInt.tla model-checks these operators against native arithmetic. *)
EXTENDS Integers, Sequences

Base == 10000

BZero == [s |-> 0, m |-> <<>>]

RECURSIVE MagOfNat(_)
MagOfNat(n) == IF n = 0 THEN <<>> ELSE <<n % Base>> \o MagOfNat(n \div Base)

\* from a native (32-bit) integer
BOf(i) == IF i = 0 THEN BZero
          ELSE IF i > 0 THEN [s |-> 1, m |-> MagOfNat(i)]
          ELSE IF i < -2147483647 THEN [s |-> -1, m |-> <<3648, 4748, 21>>]   \* 0 - i would overflow TLC's ints
          ELSE [s |-> -1, m |-> MagOfNat(0 - i)]

RECURSIVE MagTrim(_)
MagTrim(a) == IF a = <<>> THEN a
              ELSE IF a[Len(a)] = 0 THEN MagTrim(SubSeq(a, 1, Len(a) - 1))
              ELSE a

Mk(s, m) == LET t == MagTrim(m) IN IF t = <<>> THEN BZero ELSE [s |-> s, m |-> t]

\* well-formedness of a value received from outside
IsBig(a) == /\ DOMAIN a = {"s", "m"}
            /\ a.s \in {-1, 0, 1}
            /\ \A i \in DOMAIN a.m : a.m[i] \in 0..(Base - 1)
            /\ (a.s = 0) <=> (a.m = <<>>)
            /\ (a.m # <<>> => a.m[Len(a.m)] # 0)

RECURSIVE MagCmpFrom(_, _, _)
MagCmpFrom(a, b, i) == IF i = 0 THEN 0
                       ELSE IF a[i] < b[i] THEN -1
                       ELSE IF a[i] > b[i] THEN 1
                       ELSE MagCmpFrom(a, b, i - 1)
MagCmp(a, b) == IF Len(a) < Len(b) THEN -1
                ELSE IF Len(a) > Len(b) THEN 1
                ELSE MagCmpFrom(a, b, Len(a))

Limb(a, i) == IF i <= Len(a) THEN a[i] ELSE 0

RECURSIVE MagAddFrom(_, _, _, _)
MagAddFrom(a, b, i, carry) ==
  IF i > Len(a) /\ i > Len(b)
  THEN IF carry = 0 THEN <<>> ELSE <<carry>>
  ELSE LET t == Limb(a, i) + Limb(b, i) + carry
       IN  <<t % Base>> \o MagAddFrom(a, b, i + 1, t \div Base)
MagAdd(a, b) == MagAddFrom(a, b, 1, 0)

\* requires a >= b
RECURSIVE MagSubFrom(_, _, _, _)
MagSubFrom(a, b, i, borrow) ==
  IF i > Len(a) THEN <<>>
  ELSE LET t == a[i] - Limb(b, i) - borrow
       IN  IF t < 0 THEN <<t + Base>> \o MagSubFrom(a, b, i + 1, 1)
                    ELSE <<t>> \o MagSubFrom(a, b, i + 1, 0)
MagSub(a, b) == MagTrim(MagSubFrom(a, b, 1, 0))

BNeg(a) == [s |-> 0 - a.s, m |-> a.m]
BAbs(a) == [s |-> IF a.s = 0 THEN 0 ELSE 1, m |-> a.m]
BSign(a) == a.s

BAdd(a, b) ==
  IF a.s = 0 THEN b
  ELSE IF b.s = 0 THEN a
  ELSE IF a.s = b.s THEN [s |-> a.s, m |-> MagAdd(a.m, b.m)]
  ELSE LET c == MagCmp(a.m, b.m) IN
       IF c = 0 THEN BZero
       ELSE IF c > 0 THEN Mk(a.s, MagSub(a.m, b.m))
       ELSE Mk(b.s, MagSub(b.m, a.m))
BSub(a, b) == BAdd(a, BNeg(b))

BCmp(a, b) ==
  IF a.s # b.s THEN (IF a.s < b.s THEN -1 ELSE 1)
  ELSE IF a.s = 0 THEN 0
  ELSE a.s * MagCmp(a.m, b.m)
BLt(a, b) == BCmp(a, b) < 0
BLe(a, b) == BCmp(a, b) <= 0
BEq(a, b) == a = b

\* 0 <= k <= 200000
RECURSIVE MagMulSmallFrom(_, _, _, _)
MagMulSmallFrom(a, k, i, carry) ==
  IF i > Len(a)
  THEN MagOfNat(carry)
  ELSE LET t == a[i] * k + carry
       IN  <<t % Base>> \o MagMulSmallFrom(a, k, i + 1, t \div Base)
MagMulSmall(a, k) == IF k = 0 THEN <<>> ELSE MagMulSmallFrom(a, k, 1, 0)

\* |k| <= 200000
BMulSmall(a, k) ==
  IF k = 0 \/ a.s = 0 THEN BZero
  ELSE IF k > 0 THEN [s |-> a.s, m |-> MagMulSmall(a.m, k)]
  ELSE [s |-> 0 - a.s, m |-> MagMulSmall(a.m, 0 - k)]

RECURSIVE Zeros(_)
Zeros(n) == IF n = 0 THEN <<>> ELSE <<0>> \o Zeros(n - 1)

RECURSIVE MagMulFrom(_, _, _)
MagMulFrom(a, b, j) ==
  IF j > Len(b) THEN <<>>
  ELSE MagAdd(Zeros(j - 1) \o MagMulSmall(a, b[j]), MagMulFrom(a, b, j + 1))
BMul(a, b) == IF a.s = 0 \/ b.s = 0 THEN BZero
              ELSE Mk(a.s * b.s, MagMulFrom(a.m, b.m, 1))

\* magnitude division by 1 <= k <= 200000, most significant limb first;
\* returns <<quotient magnitude, remainder (native)>>
RECURSIVE MagDivFrom(_, _, _, _)
MagDivFrom(a, k, i, rem) ==
  IF i = 0 THEN <<<<>>, rem>>
  ELSE LET cur == rem * Base + a[i]
           rest == MagDivFrom(a, k, i - 1, cur % k)
       IN  <<rest[1] \o <<cur \div k>>, rest[2]>>
MagDivMod(a, k) == LET r == MagDivFrom(a, k, Len(a), 0) IN <<MagTrim(r[1]), r[2]>>

\* truncating division (toward zero) by 1 <= k <= 200000: <<q, r>> with
\* a = q*k + r, |r| < k, sign(r) = sign(a) or r = 0
BDivTrunc(a, k) ==
  LET qr == MagDivMod(a.m, k) IN <<Mk(a.s, qr[1]), a.s * qr[2]>>

\* floor division by 1 <= k <= 200000: <<q, r>> with 0 <= r < k
BDivFloor(a, k) ==
  LET t == BDivTrunc(a, k) IN
  IF t[2] < 0 THEN <<BSub(t[1], BOf(1)), t[2] + k>> ELSE t

\* fits a native int when below 2*10^9
BFitsInt(a) == Len(a.m) <= 2 \/ (Len(a.m) = 3 /\ a.m[3] < 20)
BToInt(a) == a.s * (Limb(a.m, 1) + Base * Limb(a.m, 2) + Base * Base * Limb(a.m, 3))

BPow10_9 == [s |-> 1, m |-> <<0, 0, 10>>]      \* 10^9
BMulE9(a) == BMul(a, BPow10_9)
\* truncating division by 10^9 = 10^4 * 10^5 : <<q, r>> with r native
BDivTruncE9(a) ==
  LET d1 == BDivTrunc(a, 10000)
      d2 == BDivTrunc(d1[1], 100000)
  IN  <<d2[1], d2[2] * 10000 + d1[2]>>
BDivTruncE6(a) ==
  LET d1 == BDivTrunc(a, 1000)
      d2 == BDivTrunc(d1[1], 1000)
  IN  <<d2[1], d2[2] * 1000 + d1[2]>>
BDivTruncE3(a) == BDivTrunc(a, 1000)
=======================================================================
