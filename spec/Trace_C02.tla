--------------------------- MODULE Trace_C02 ---------------------------
(* C02: instant <-> civil datetime under a fixed offset; unit views and   *)
(* constructors of Timestamp.  The harness sends the raw API integers     *)
(* (seconds as limbs); all floor divisions are done here.                 *)
EXTENDS Instant, TLC, Json, IOUtils

Rec == ndJsonDeserialize(IOEnv.TRACE)
VARIABLE l
vars == <<l>>

\* value of a Result<Timestamp>: r.st, r.rsec, r.rns
SameTs(r, api) == r.st = "ok" /\ r.rsec = api[1] /\ r.rns = api[2]

\* ---- ts_civil: Offset::to_datetime and back ------------------------------
TsCivilWhy(r) ==
  IF ~ApiSignsOk(r.sec, r.ns) THEN "timestamp reports seconds and nanoseconds of opposite sign"
  ELSE LET t == InstOfApi(r.sec, r.ns)
           c == CivilOfInst(t, r.off)
       IN
    IF ~InTsRange(t) THEN "timestamp out of documented range"
    ELSE IF r.civil # FieldsOf(c) THEN "Offset::to_datetime"
    ELSE IF r.civil2 # FieldsOf(c) THEN "Timestamp::to_zoned(fixed).datetime"
    ELSE IF ~(r.back.st = "ok" /\ r.back.rsec = r.sec /\ r.back.rns = r.ns)
         THEN "Offset::to_timestamp does not invert to_datetime"
    ELSE IF ~(r.back2.st = "ok" /\ r.back2.rsec = r.sec /\ r.back2.rns = r.ns)
         THEN "DateTime::to_zoned(fixed) does not invert"
    ELSE ""

\* ---- civil_ts: civil datetime -> timestamp at offset -------------------------
CivilTsWhy(r) ==
  LET c == CivOfFields(r.civil)
      t == InstOfCivil(c, r.off)
  IN IF InTsRange(t)
     THEN IF SameTs(r, ApiOfInst(t)) THEN "" ELSE "Offset::to_timestamp value"
     ELSE IF r.st = "err" THEN "" ELSE "Offset::to_timestamp accepted an out-of-range instant"

\* ---- ts_new: Timestamp::new(second, nanosecond) ------------------------------
\* Err when the denoted instant is out of range; must be Ok with the exact
\* normalised value when both the second argument and the instant are in
\* range (a second argument outside the range may be refused outright).
TsNewWhy(r) ==
  IF r.ns <= -NsPerSec \/ r.ns >= NsPerSec
  THEN IF r.st = "err" THEN "" ELSE "nanosecond beyond +-999,999,999 accepted"
  ELSE LET fs == FloorSec(r.sec, r.ns)  fn == FloorNs(r.ns)
           secIn == BLe(BSecMin, r.sec) /\ BLe(r.sec, BSecMax)
       IN IF ~SecFits(fs) THEN (IF r.st = "err" THEN "" ELSE "huge second accepted")
          ELSE LET t == InstOfFloor(fs, fn) IN
               IF InTsRange(t)
               THEN IF SameTs(r, ApiOfInst(t)) \/ (~secIn /\ r.st = "err") THEN ""
                    ELSE "Timestamp::new value"
               ELSE IF r.st = "err" THEN "" ELSE "Timestamp::new accepted out-of-range"

\* ---- ts_from: from_second/millisecond/microsecond/nanosecond(v) ---------------
UnitDiv(u, v) == CASE u = "s"  -> <<v, 0>>
                   [] u = "ms" -> LET q == BDivTruncE3(v) IN <<q[1], q[2] * 1000000>>
                   [] u = "us" -> LET q == BDivTruncE6(v) IN <<q[1], q[2] * 1000>>
                   [] u = "ns" -> BDivTruncE9(v)
TsFromWhy(r) ==
  LET p == UnitDiv(r.unit, r.v)
      fs == FloorSec(p[1], p[2])  fn == FloorNs(p[2])
  IN IF ~SecFits(fs) THEN (IF r.st = "err" THEN "" ELSE "huge value accepted")
     ELSE LET t == InstOfFloor(fs, fn) IN
          IF InTsRange(t)
          THEN IF SameTs(r, ApiOfInst(t)) THEN "" ELSE "Timestamp::from_<unit> value"
          ELSE IF r.st = "err" THEN "" ELSE "Timestamp::from_<unit> accepted out-of-range"

\* ---- ts_views: all views denote the same integer ------------------------------
TruncDivN(x, k) == IF x >= 0 THEN x \div k ELSE 0 - ((0 - x) \div k)
TsViewsWhy(r) ==
  IF ~ApiSignsOk(r.sec, r.ns) THEN "seconds and nanoseconds of opposite sign"
  ELSE IF r.as_ms # BAdd(BMulSmall(r.sec, 1000), BOf(TruncDivN(r.ns, 1000000))) THEN "as_millisecond"
  ELSE IF r.as_us # BAdd(BMul(r.sec, BOf(1000000)), BOf(TruncDivN(r.ns, 1000))) THEN "as_microsecond"
  ELSE IF r.as_ns # BNanosOfApi(r.sec, r.ns) THEN "as_nanosecond"
  ELSE IF r.sub_ms # TruncDivN(r.ns, 1000000) THEN "subsec_millisecond"
  ELSE IF r.sub_us # TruncDivN(r.ns, 1000) THEN "subsec_microsecond"
  ELSE IF r.dur_s # r.sec \/ r.dur_ns # r.ns THEN "as_duration"
  ELSE IF r.sign # (IF r.sec.s # 0 THEN r.sec.s ELSE IF r.ns > 0 THEN 1 ELSE IF r.ns < 0 THEN -1 ELSE 0)
       THEN "signum"
  ELSE IF ~(r.rt_ns.st = "ok" /\ r.rt_ns.rsec = r.sec /\ r.rt_ns.rns = r.ns) THEN "from_nanosecond(as_nanosecond)"
  ELSE IF ~(r.rt_dur.st = "ok" /\ r.rt_dur.rsec = r.sec /\ r.rt_dur.rns = r.ns) THEN "from_duration(as_duration)"
  ELSE ""

Why(r) ==
  IF "st" \in DOMAIN r /\ r.st = "panic" THEN "panic"
  ELSE CASE r.op = "ts_civil" -> TsCivilWhy(r)
         [] r.op = "civil_ts" -> CivilTsWhy(r)
         [] r.op = "ts_new"   -> TsNewWhy(r)
         [] r.op = "ts_from"  -> TsFromWhy(r)
         [] r.op = "ts_views" -> TsViewsWhy(r)
         [] OTHER             -> "unknown op"

Init == l = 1
Next == /\ l <= Len(Rec)
        /\ LET w == Why(Rec[l]) IN IF w = "" THEN TRUE ELSE PrintT("MISMATCH|" \o ToString(l) \o "|" \o w)
        /\ l' = l + 1
Spec == Init /\ [][Next]_vars
Consumed == TLCGet("stats").diameter = Len(Rec) + 1
=======================================================================
