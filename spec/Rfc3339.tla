---------------------------- MODULE Rfc3339 ----------------------------
(* An independent reader of RFC 3339 / RFC 9557 text, over the text as a  *)
(* sequence of byte values.  Grammar: RFC 3339 date-time with the          *)
(* extensions jiff documents: years as YYYY or as a sign and six digits,   *)
(* 'T', 't' or ' ' between date and time, 1..9 fraction digits, 'Z'/'z' or *)
(* a numeric offset to the minute or to the second, and an RFC 9557        *)
(* [annotation].  Yields the civil fields, the offset and the annotation.  *)
EXTENDS Integers, Sequences

IsDig(s, i) == i <= Len(s) /\ s[i] \in 48..57
RECURSIVE AllDig(_, _, _)
AllDig(s, i, n) == n = 0 \/ (IsDig(s, i) /\ AllDig(s, i + 1, n - 1))
RECURSIVE NumAt(_, _, _)
\* value of the n digits (n <= 9) starting at i
NumAt(s, i, n) == IF n = 0 THEN 0 ELSE NumAt(s, i, n - 1) * 10 + (s[i + n - 1] - 48)
ChAt(s, i) == IF i <= Len(s) THEN s[i] ELSE 0
RECURSIVE CountDig(_, _)
CountDig(s, i) == IF IsDig(s, i) THEN 1 + CountDig(s, i + 1) ELSE 0
RECURSIVE Pow10(_)
Pow10(k) == IF k = 0 THEN 1 ELSE 10 * Pow10(k - 1)

Bad == [ok |-> FALSE]

\* ---- pieces: each returns [ok, ..., nx] with nx the next index ---------------
RdYear(s, i) ==
  IF ChAt(s, i) \in {43, 45}
  THEN IF AllDig(s, i + 1, 6) /\ ~(s[i] = 45 /\ NumAt(s, i + 1, 6) = 0)
       THEN [ok |-> TRUE, y |-> (IF s[i] = 45 THEN -1 ELSE 1) * NumAt(s, i + 1, 6), nx |-> i + 7]
       ELSE Bad
  ELSE IF AllDig(s, i, 4) THEN [ok |-> TRUE, y |-> NumAt(s, i, 4), nx |-> i + 4] ELSE Bad

RdDate(s, i) ==
  LET yr == RdYear(s, i) IN
  IF ~yr.ok THEN Bad
  ELSE LET j == yr.nx IN
       IF ChAt(s, j) = 45 /\ AllDig(s, j + 1, 2) /\ ChAt(s, j + 3) = 45 /\ AllDig(s, j + 4, 2)
       THEN [ok |-> TRUE, y |-> yr.y, m |-> NumAt(s, j + 1, 2), d |-> NumAt(s, j + 4, 2), nx |-> j + 6]
       ELSE Bad

\* hh:mm:ss[.fraction]
RdTime(s, i) ==
  IF AllDig(s, i, 2) /\ ChAt(s, i + 2) = 58 /\ AllDig(s, i + 3, 2) /\ ChAt(s, i + 5) = 58 /\ AllDig(s, i + 6, 2)
  THEN LET h == NumAt(s, i, 2)  mi == NumAt(s, i + 3, 2)  sc == NumAt(s, i + 6, 2)  j == i + 8 IN
       IF h > 23 \/ mi > 59 \/ sc > 59 THEN Bad
       ELSE IF ChAt(s, j) = 46
       THEN LET k == CountDig(s, j + 1) IN
            IF k = 0 \/ k > 9 THEN Bad
            ELSE [ok |-> TRUE, h |-> h, mi |-> mi, s |-> sc, ns |-> NumAt(s, j + 1, k) * Pow10(9 - k), digits |-> k, nx |-> j + 1 + k]
       ELSE [ok |-> TRUE, h |-> h, mi |-> mi, s |-> sc, ns |-> 0, digits |-> 0, nx |-> j]
  ELSE Bad

\* Z | z | (+|-)hh:mm[:ss]
RdOffset(s, i) ==
  IF ChAt(s, i) \in {90, 122} THEN [ok |-> TRUE, zulu |-> TRUE, off |-> 0, secs |-> FALSE, nx |-> i + 1]
  ELSE IF ChAt(s, i) \in {43, 45} /\ AllDig(s, i + 1, 2) /\ ChAt(s, i + 3) = 58 /\ AllDig(s, i + 4, 2)
  THEN LET sg == IF s[i] = 45 THEN -1 ELSE 1
           hh == NumAt(s, i + 1, 2)  mm == NumAt(s, i + 4, 2) IN
       IF mm > 59 THEN Bad
       ELSE IF ChAt(s, i + 6) = 58 /\ AllDig(s, i + 7, 2)
       THEN (IF NumAt(s, i + 7, 2) > 59 THEN Bad
             ELSE [ok |-> TRUE, zulu |-> FALSE, off |-> sg * (hh * 3600 + mm * 60 + NumAt(s, i + 7, 2)), secs |-> TRUE, nx |-> i + 9])
       ELSE [ok |-> TRUE, zulu |-> FALSE, off |-> sg * (hh * 3600 + mm * 60), secs |-> FALSE, nx |-> i + 6]
  ELSE Bad

\* [annotation] up to the closing bracket
RECURSIVE FindClose(_, _)
FindClose(s, i) == IF i > Len(s) THEN 0 ELSE IF s[i] = 93 THEN i ELSE FindClose(s, i + 1)
RdAnn(s, i) ==
  IF ChAt(s, i) # 91 THEN Bad
  ELSE LET c == FindClose(s, i + 1) IN
       IF c = 0 \/ c = i + 1 THEN Bad ELSE [ok |-> TRUE, name |-> SubSeq(s, i + 1, c - 1), nx |-> c + 1]

\* ---- whole productions: all input must be consumed ---------------------------------
IsSep(c) == c \in {84, 116, 32}     \* 'T' 't' ' '

\* date-time with mandatory offset, optional annotation
RdInstant(s, wantAnn) ==
  LET d == RdDate(s, 1) IN
  IF ~d.ok \/ ~IsSep(ChAt(s, d.nx)) THEN Bad
  ELSE LET t == RdTime(s, d.nx + 1) IN
       IF ~t.ok THEN Bad
       ELSE LET o == RdOffset(s, t.nx) IN
            IF ~o.ok THEN Bad
            ELSE LET a == IF wantAnn THEN RdAnn(s, o.nx) ELSE [ok |-> TRUE, name |-> <<>>, nx |-> o.nx] IN
                 IF ~a.ok \/ a.nx # Len(s) + 1 THEN Bad
                 ELSE [ok |-> TRUE, fields |-> <<d.y, d.m, d.d, t.h, t.mi, t.s, t.ns>>, digits |-> t.digits,
                       off |-> o.off, zulu |-> o.zulu, offsecs |-> o.secs, sep |-> s[d.nx], name |-> a.name]

RdCivilDateTime(s) ==
  LET d == RdDate(s, 1) IN
  IF ~d.ok \/ ~IsSep(ChAt(s, d.nx)) THEN Bad
  ELSE LET t == RdTime(s, d.nx + 1) IN
       IF ~t.ok \/ t.nx # Len(s) + 1 THEN Bad
       ELSE [ok |-> TRUE, fields |-> <<d.y, d.m, d.d, t.h, t.mi, t.s, t.ns>>, digits |-> t.digits, sep |-> s[d.nx]]

RdCivilDate(s) ==
  LET d == RdDate(s, 1) IN
  IF ~d.ok \/ d.nx # Len(s) + 1 THEN Bad ELSE [ok |-> TRUE, fields |-> <<d.y, d.m, d.d>>]

RdCivilTime(s) ==
  LET t == RdTime(s, 1) IN
  IF ~t.ok \/ t.nx # Len(s) + 1 THEN Bad ELSE [ok |-> TRUE, fields |-> <<t.h, t.mi, t.s, t.ns>>, digits |-> t.digits]
=======================================================================
