---------------------------- MODULE CivilOps ----------------------------
(* Pure operators shared by the civil and zoned trace specs: unit tables,  *)
(* increment legality, the rounding target, exact balancing of nanosecond  *)
(* differences, and the calendar part of a date difference (Temporal's     *)
(* surpass criterion).                                                     *)
EXTENDS CivilArith, Round

SodOf(t) == t[1] * 3600 + t[2] * 60 + t[3]       \* <<h, mi, s, ns>>

TimeFields(sod, ns) == <<sod \div 3600, (sod % 3600) \div 60, sod % 60, ns>>

\* ---- C08: series: item k = start + k * period, ending at the first overflow --------------
SpanScale(sp, k) ==
  [y |-> sp.y * k, mo |-> sp.mo * k, w |-> sp.w * k, d |-> sp.d * k, h |-> sp.h * k,
   mi |-> BMulSmall(sp.mi, k), s |-> BMulSmall(sp.s, k), ms |-> BMulSmall(sp.ms, k),
   us |-> BMulSmall(sp.us, k), ns |-> BMulSmall(sp.ns, k)]

\* scaling by k <= 6 keeps native units below 2^31 only when they are
\* below 3*10^8: larger periods are checked for the first two items only
ScaleOk(sp, k) == \A v \in {sp.y, sp.mo, sp.w, sp.d, sp.h} : v * k < 300000000 /\ v * k > -300000000

\* ---- C10: rounding ------------------------------------------------------------------------
UnitNs(u) == CASE u = "ns" -> BOf(1) [] u = "us" -> B1E3 [] u = "ms" -> B1E6 [] u = "s" -> BPow10_9
               [] u = "mi" -> B60E9 [] u = "h" -> B3600E9 [] u = "d" -> BDayNs

UnitRank(u) == CASE u = "ns" -> 0 [] u = "us" -> 1 [] u = "ms" -> 2 [] u = "s" -> 3 [] u = "mi" -> 4
                 [] u = "h" -> 5 [] u = "d" -> 6 [] u = "w" -> 7 [] u = "mo" -> 8 [] u = "y" -> 9

NextUnitCount(u) == CASE u = "ns" -> 1000 [] u = "us" -> 1000 [] u = "ms" -> 1000 [] u = "s" -> 60
                      [] u = "mi" -> 60 [] u = "h" -> 24 [] u = "d" -> 2

\* increments for Time / DateTime / SignedDuration: positive, less than the
\* number of units in the next larger unit, and dividing it
SmallIncOk(u, k) ==
  /\ BFitsInt(k) /\ k.s = 1
  /\ LET n == BToInt(k) IN n < NextUnitCount(u) /\ NextUnitCount(u) % n = 0

\* The harness sends mf = floor(x / inc) computed from the INPUT.  The two
\* neighbouring multiples are R0 = mf * inc <= x < R1 = R0 + inc (checked
\* here by multiplication); the correct rounding is whichever of them
\* satisfies RoundOk (Round.tla shows it is unique).  <<ok, R, m>>
Target(mode, x, inc, mf) ==
  LET R0 == BMul(mf, inc)  R1 == BAdd(R0, inc)  m1 == BAdd(mf, BOf(1)) IN
  IF ~(BLe(R0, x) /\ BLt(x, R1)) THEN <<0, BZero, BZero>>
  ELSE IF RoundOk(mode, x, inc, R0, mf) THEN <<1, R0, mf>>
  ELSE IF RoundOk(mode, x, inc, R1, m1) THEN <<1, R1, m1>>
  ELSE <<0, BZero, BZero>>

\* Timestamp: increment * unit must divide 24 hours (witness: dq * k + dr = units per day)
UnitsPerDay(u) == CASE u = "ns" -> BDayNs [] u = "us" -> BMul(BOf(86400), B1E6) [] u = "ms" -> BOf(86400000)
                    [] u = "s" -> BOf(86400) [] u = "mi" -> BOf(1440) [] u = "h" -> BOf(24)

I64Max == [s |-> 1, m |-> <<5807, 5477, 368, 3372, 922>>]     \* 9223372036854775807

I64Min == BSub(BNeg(I64Max), BOf(1))

\* SignedDuration: documented like Time (increment divides the next unit);
\* hours have no next unit inside a duration: any positive increment
SdIncOk(u, k) == UnitRank(u) <= 5 /\ k.s = 1 /\ (u = "h" \/ SmallIncOk(u, k))

\* ---- C07: differences -----------------------------------------------------------------
SpanZero == [y |-> 0, mo |-> 0, w |-> 0, d |-> 0, h |-> 0,
             mi |-> BZero, s |-> BZero, ms |-> BZero, us |-> BZero, ns |-> BZero]

\* |T| balanced from the unit of rank L (0 = ns .. 5 = hour, 6 = day) downwards,
\* as <<days, hours, minutes, seconds, ms, us, ns>> of BigInts (magnitudes)
BalanceAbs(T, L) ==
  LET sn == BDivTruncE9(T)                 \* <<seconds, ns below the second>>
      n9 == sn[2]
      secs == sn[1]
      mq == IF L >= 4 THEN BDivTrunc(secs, 60) ELSE <<BZero, 0>>
      hq == IF L >= 5 THEN BDivTrunc(mq[1], 60) ELSE <<BZero, 0>>
      dq == IF L >= 6 THEN BDivTrunc(hq[1], 24) ELSE <<BZero, 0>>
  IN  CASE L = 0 -> <<BZero, BZero, BZero, BZero, BZero, BZero, T>>
        [] L = 1 -> <<BZero, BZero, BZero, BZero, BZero, BAdd(BMul(secs, B1E6), BOf(n9 \div 1000)), BOf(n9 % 1000)>>
        [] L = 2 -> <<BZero, BZero, BZero, BZero, BAdd(BMulSmall(secs, 1000), BOf(n9 \div 1000000)),
                      BOf((n9 \div 1000) % 1000), BOf(n9 % 1000)>>
        [] L = 3 -> <<BZero, BZero, BZero, secs, BOf(n9 \div 1000000), BOf((n9 \div 1000) % 1000), BOf(n9 % 1000)>>
        [] L = 4 -> <<BZero, BZero, mq[1], BOf(mq[2]), BOf(n9 \div 1000000), BOf((n9 \div 1000) % 1000), BOf(n9 % 1000)>>
        [] L = 5 -> <<BZero, hq[1], BOf(hq[2]), BOf(mq[2]), BOf(n9 \div 1000000), BOf((n9 \div 1000) % 1000), BOf(n9 % 1000)>>
        [] L = 6 -> <<dq[1], BOf(dq[2]), BOf(hq[2]), BOf(mq[2]), BOf(n9 \div 1000000), BOf((n9 \div 1000) % 1000), BOf(n9 % 1000)>>

Sg(b, sign) == IF sign < 0 THEN BNeg(b) ELSE b

\* expected span of an exact nanosecond difference T (signed) with largest unit rank L <= 5
ExpTimeSpan(T, L) ==
  LET a == BalanceAbs(BAbs(T), L)  sg == T.s IN
  [y |-> 0, mo |-> 0, w |-> 0, d |-> 0, h |-> sg * BToInt(a[2]),
   mi |-> Sg(a[3], sg), s |-> Sg(a[4], sg), ms |-> Sg(a[5], sg), us |-> Sg(a[6], sg), ns |-> Sg(a[7], sg)]

HoursFit(T, L) == L < 5 \/ BFitsInt(BalanceAbs(BAbs(T), L)[2])

Lex3Lt(p, q) == \/ p[1] < q[1] \/ (p[1] = q[1] /\ p[2] < q[2]) \/ (p[1] = q[1] /\ p[2] = q[2] /\ p[3] < q[3])

\* Temporal's ISODateSurpasses on the *unclamped* year-month-day
Surp(a, tot, sign, b) ==
  LET total == a[1] * 12 + (a[2] - 1) + tot
      cand == <<total \div 12, (total % 12) + 1, a[3]>>
  IN  IF sign > 0 THEN Lex3Lt(b, cand) ELSE Lex3Lt(cand, b)

TruncDivI(x, k) == IF x >= 0 THEN x \div k ELSE 0 - ((0 - x) \div k)

\* calendar part <<y, mo, w, d>> of the difference from date a to date b
\* (both <<y, m, d>>), largest unit rank L in 6..9 (day, week, month, year)
DateDiff(a, b, L) ==
  LET na == EpochDayOf(a[1], a[2], a[3])  nb == EpochDayOf(b[1], b[2], b[3])
      sign == IF nb > na THEN 1 ELSE IF nb < na THEN -1 ELSE 0
  IN  IF sign = 0 THEN <<0, 0, 0, 0>>
      ELSE IF L = 6 THEN <<0, 0, 0, nb - na>>
      ELSE IF L = 7 THEN <<0, 0, TruncDivI(nb - na, 7), (nb - na) - 7 * TruncDivI(nb - na, 7)>>
      ELSE LET tot0 == 12 * (b[1] - a[1]) + (b[2] - a[2])
               tot == IF Surp(a, tot0, sign, b) THEN tot0 - sign ELSE tot0
               mid == AddYM(a[1], a[2], a[3], 0, tot)
               days == nb - EpochDayOf(mid[1], mid[2], mid[3])
           IN  IF L = 8 THEN <<0, tot, 0, days>>
               ELSE <<TruncDivI(tot, 12), tot - 12 * TruncDivI(tot, 12), 0, days>>

LargestRank(u) == UnitRank(u)
=======================================================================
