---------------------------- MODULE Strtime ----------------------------
(* strftime / strptime and RFC 2822, from the calendar.                    *)
(*                                                                          *)
(* ExpFmt(fmt, v): the text a format string must produce for a value, each  *)
(* conversion specifier printing the calendar fact it names as POSIX        *)
(* strftime defines it (facts from Calendar.tla / Instant.tla, never from   *)
(* the implementation), with jiff's documented flags (_ - 0 ^ #) and width. *)
(* ExpParse*: what parsing that text with the same format must return: the  *)
(* original value to the precision of the directives present, or an error   *)
(* when the directives do not determine the requested type.                 *)
(* Rd2822: an independent reader of RFC 2822 date-time text.                *)
(*                                                                          *)
(* Text is a sequence of byte values.  A value is a record                  *)
(*   [k   |-> 1 zoned | 2 timestamp | 3 datetime | 4 date | 5 time,         *)
(*    f   |-> <<y, m, d, h, mi, s, ns>>,  off |-> seconds east,             *)
(*    abbr, iana |-> text (iana = <<>>: none),  wdo |-> weekday override]   *)
EXTENDS Instant, Rfc3339

Err == <<-1>>
Cat(a, b) == IF a = Err \/ b = Err THEN Err ELSE a \o b
Min2(a, b) == IF a < b THEN a ELSE b

RECURSIVE DigR(_)
DigR(n) == IF n < 10 THEN <<48 + n>> ELSE DigR(n \div 10) \o <<48 + (n % 10)>>
Rep(c, k) == [i \in 1..k |-> c]
PadTo(ds, c, w) == IF Len(ds) >= w THEN ds ELSE Rep(c, w - Len(ds)) \o ds

\* decimal text of a BigInt
RECURSIVE LimbsTxt(_, _)
LimbsTxt(m, i) == IF i = 0 THEN <<>> ELSE PadTo(DigR(m[i]), 48, 4) \o LimbsTxt(m, i - 1)
BigTxt(b) == IF b.s = 0 THEN <<48>>
             ELSE (IF b.s < 0 THEN <<45>> ELSE <<>>) \o DigR(b.m[Len(b.m)]) \o LimbsTxt(b.m, Len(b.m) - 1)

Up(s)  == [i \in DOMAIN s |-> IF s[i] \in 97..122 THEN s[i] - 32 ELSE s[i]]
Low(s) == [i \in DOMAIN s |-> IF s[i] \in 65..90 THEN s[i] + 32 ELSE s[i]]

WeekdayName == <<<<77, 111, 110, 100, 97, 121>>,
                <<84, 117, 101, 115, 100, 97, 121>>,
                <<87, 101, 100, 110, 101, 115, 100, 97, 121>>,
                <<84, 104, 117, 114, 115, 100, 97, 121>>,
                <<70, 114, 105, 100, 97, 121>>,
                <<83, 97, 116, 117, 114, 100, 97, 121>>,
                <<83, 117, 110, 100, 97, 121>>>>
MonthName == <<<<74, 97, 110, 117, 97, 114, 121>>,
              <<70, 101, 98, 114, 117, 97, 114, 121>>,
              <<77, 97, 114, 99, 104>>,
              <<65, 112, 114, 105, 108>>,
              <<77, 97, 121>>,
              <<74, 117, 110, 101>>,
              <<74, 117, 108, 121>>,
              <<65, 117, 103, 117, 115, 116>>,
              <<83, 101, 112, 116, 101, 109, 98, 101, 114>>,
              <<79, 99, 116, 111, 98, 101, 114>>,
              <<78, 111, 118, 101, 109, 98, 101, 114>>,
              <<68, 101, 99, 101, 109, 98, 101, 114>>>>
Abbr3(s) == SubSeq(s, 1, 3)

\* ---- calendar facts of a value ------------------------------------------------
HasDate(v) == v.k \in {1, 2, 3, 4}
HasTime(v) == v.k \in {1, 2, 3, 5}
HasOff(v)  == v.k \in {1, 2}
HasAbbr(v) == v.k = 1

VDay(v) == EpochDayOf(v.f[1], v.f[2], v.f[3])
VWd(v)  == IF v.wdo # 0 THEN v.wdo ELSE WeekdayOfDay(VDay(v))     \* Monday = 1 .. Sunday = 7
VDoy(v) == DayOfYear(v.f[1], v.f[2], v.f[3])
VIso(v) == IsoWeekOfDay(VDay(v))

\* POSIX: week number of the year with `first` (0 = Sunday, 1 = Monday) as the
\* first day of the week; the days before the first such day are week 0.
FirstDoyOf(y, first) ==
  LET jan1 == WeekdayOfDay(DaysBeforeYear(y)) % 7 IN 1 + ((first - jan1) % 7)
WeekFrom(y, doy, first) ==
  LET fd == FirstDoyOf(y, first) IN IF doy < fd THEN 0 ELSE ((doy - fd) \div 7) + 1

Hour12(h) == ((h + 11) % 12) + 1
TruncDiv(a, b) == IF a >= 0 THEN a \div b ELSE 0 - ((0 - a) \div b)

\* seconds since the Unix epoch of civil fields at an offset (floor), as BigInt
UnixSecOf(f, off) == BSecOf(InstOfCivil(CivOfFields(f), off))

\* ---- directives ------------------------------------------------------------------
\* %[flag][width][:|.[precision]]c
IsFlag(c) == c \in {95, 45, 48, 94, 35}            \* _ - 0 ^ #
RdDirective(fmt, i) ==        \* fmt[i] = '%'
  LET j1   == i + 1
      flag == IF IsFlag(ChAt(fmt, j1)) THEN fmt[j1] ELSE 0
      j2   == IF flag # 0 THEN j1 + 1 ELSE j1
      nd   == CountDig(fmt, j2)
      wid  == IF nd = 0 THEN -1 ELSE NumAt(fmt, j2, nd)
      j3   == j2 + nd
      c3   == ChAt(fmt, j3)
  IN IF c3 = 58 THEN [flag |-> flag, width |-> wid, colon |-> TRUE, dot |-> FALSE, c |-> ChAt(fmt, j3 + 1), nx |-> j3 + 2]
     ELSE IF c3 = 46
     THEN LET pd == CountDig(fmt, j3 + 1) IN
          [flag |-> flag, width |-> (IF pd = 0 THEN -1 ELSE NumAt(fmt, j3 + 1, pd)), colon |-> FALSE, dot |-> TRUE,
           c |-> ChAt(fmt, j3 + 1 + pd), nx |-> j3 + 2 + pd]
     ELSE [flag |-> flag, width |-> wid, colon |-> FALSE, dot |-> FALSE, c |-> c3, nx |-> j3 + 1]

\* all directives of a format, in order
RECURSIVE Dirs(_, _)
Dirs(fmt, i) ==
  IF i > Len(fmt) THEN <<>>
  ELSE IF fmt[i] # 37 THEN Dirs(fmt, i + 1)
  ELSE LET d == RdDirective(fmt, i) IN <<d>> \o Dirs(fmt, d.nx)

\* a number: sign, then the magnitude padded to the width.  conv = 1 counts the
\* sign as part of the width (the C convention), conv = 0 does not (jiff's).
NumTxt(n, defpad0, defw, d, conv) ==
  LET \* directives without a width of their own (%C %u %w %s): which byte an explicit
      \* width pads with is not settled; conv >= 2 tries the other one
      defpad == IF defw = 0 /\ conv >= 2 THEN (IF defpad0 = 32 THEN 48 ELSE 32) ELSE defpad0
      pad == IF d.flag = 48 THEN 48 ELSE IF d.flag = 95 THEN 32 ELSE defpad
      w   == IF d.flag = 45 THEN 0 ELSE IF d.width >= 0 THEN Min2(d.width, 19) ELSE defw
  IN IF n >= 0 THEN PadTo(DigR(n), pad, w)
     ELSE <<45>> \o PadTo(DigR(0 - n), pad, IF conv % 2 = 1 /\ w > 0 THEN w - 1 ELSE w)

\* a name: default case "A" as is, "U" upper; ^ forces upper, # swaps
StrTxt(s, defcase, d) ==
  LET cs == IF d.flag = 94 THEN "U"
            ELSE IF d.flag = 35 THEN (IF defcase = "U" THEN "L" ELSE defcase)
            ELSE defcase
  IN IF cs = "U" THEN Up(s) ELSE IF cs = "L" THEN Low(s) ELSE s

OffTxt(off, colon) ==
  LET a  == IF off < 0 THEN 0 - off ELSE off
      hh == a \div 3600  mm == (a % 3600) \div 60  ss == a % 60
      c  == IF colon THEN <<58>> ELSE <<>>
  IN (IF off < 0 THEN <<45>> ELSE <<43>>) \o PadTo(DigR(hh), 48, 2) \o c \o PadTo(DigR(mm), 48, 2)
     \o (IF ss # 0 THEN c \o PadTo(DigR(ss), 48, 2) ELSE <<>>)

RECURSIVE TrimZeros(_)
TrimZeros(s) == IF s # <<>> /\ s[Len(s)] = 48 THEN TrimZeros(SubSeq(s, 1, Len(s) - 1)) ELSE s
\* fraction digits: precision p (-1: the fewest that are exact)
FracTxt(ns, p) ==
  LET nine == PadTo(DigR(ns), 48, 9) IN
  IF p < 0 THEN TrimZeros(nine) ELSE SubSeq(nine, 1, Min2(p, 9))

NoExt == [flag |-> 0, width |-> -1, colon |-> FALSE, dot |-> FALSE, c |-> 0, nx |-> 0]

\* the text of one directive (Err: the value lacks the field, or the directive
\* cannot express it)
RECURSIVE ExpDir(_, _, _)
ExpDir(v, d, conv) ==
  LET c == d.c
      y == v.f[1]
      Date(x) == IF HasDate(v) THEN x ELSE Err
      Time(x) == IF HasTime(v) THEN x ELSE Err
      Sub(ch) == ExpDir(v, [d EXCEPT !.c = ch, !.colon = FALSE, !.dot = FALSE], conv)
  IN
  IF d.dot
  THEN (IF c # 102 THEN Err
        \* %.f prints nothing at all for a value without a time
        ELSE IF ~HasTime(v) \/ (v.f[7] = 0 /\ d.width < 0) \/ d.width = 0 THEN <<>> ELSE <<46>> \o FracTxt(v.f[7], d.width))
  ELSE IF d.colon
  THEN (IF c = 122 THEN (IF HasOff(v) THEN OffTxt(v.off, TRUE) ELSE Err)
        ELSE IF c = 81 THEN (IF v.k = 1 /\ v.iana # <<>> THEN v.iana ELSE IF HasOff(v) THEN OffTxt(v.off, TRUE) ELSE Err)
        ELSE Err)
  ELSE CASE c = 37  -> <<37>>
         [] c = 110 -> <<10>>
         [] c = 116 -> <<9>>
         [] c = 65  -> Date(StrTxt(WeekdayName[VWd(v)], "A", d))                       \* %A
         [] c = 97  -> Date(StrTxt(Abbr3(WeekdayName[VWd(v)]), "A", d))                \* %a
         [] c = 66  -> Date(StrTxt(MonthName[v.f[2]], "A", d))                          \* %B
         [] c \in {98, 104} -> Date(StrTxt(Abbr3(MonthName[v.f[2]]), "A", d))           \* %b %h
         [] c = 67  -> Date(NumTxt(TruncDiv(y, 100), 32, 0, d, conv))                   \* %C
         [] c = 68  -> Cat(Sub(109), Cat(<<47>>, Cat(Sub(100), Cat(<<47>>, Sub(121))))) \* %D = %m/%d/%y
         [] c = 100 -> Date(NumTxt(v.f[3], 48, 2, d, conv))                             \* %d
         [] c = 101 -> Date(NumTxt(v.f[3], 32, 2, d, conv))                             \* %e
         [] c = 70  -> Cat(Sub(89), Cat(<<45>>, Cat(Sub(109), Cat(<<45>>, Sub(100)))))  \* %F = %Y-%m-%d
         [] c = 102 -> Time(IF d.width = 0 THEN Err                                     \* %f
                            ELSE IF v.f[7] = 0 /\ d.width < 0 THEN <<48>>
                            ELSE FracTxt(v.f[7], d.width))
         [] c = 71  -> Date(NumTxt(VIso(v)[1], 48, 4, d, conv))                         \* %G
         [] c = 103 -> Date(IF VIso(v)[1] \in 1969..2068 THEN NumTxt(VIso(v)[1] % 100, 48, 2, d, conv) ELSE Err)
         [] c = 72  -> Time(NumTxt(v.f[4], 48, 2, d, conv))                             \* %H
         [] c = 107 -> Time(NumTxt(v.f[4], 32, 2, d, conv))                             \* %k
         [] c = 73  -> Time(NumTxt(Hour12(v.f[4]), 48, 2, d, conv))                     \* %I
         [] c = 108 -> Time(NumTxt(Hour12(v.f[4]), 32, 2, d, conv))                     \* %l
         [] c = 106 -> Date(NumTxt(VDoy(v), 48, 3, d, conv))                            \* %j
         [] c = 77  -> Time(NumTxt(v.f[5], 48, 2, d, conv))                             \* %M
         [] c = 109 -> Date(NumTxt(v.f[2], 48, 2, d, conv))                             \* %m
         [] c = 80  -> Time(StrTxt(IF v.f[4] < 12 THEN <<97, 109>> ELSE <<112, 109>>, "A", d))   \* %P
         [] c = 112 -> Time(StrTxt(IF v.f[4] < 12 THEN <<65, 77>> ELSE <<80, 77>>, "U", d))      \* %p
         [] c = 81  -> (IF v.k = 1 /\ v.iana # <<>> THEN v.iana ELSE IF HasOff(v) THEN OffTxt(v.off, FALSE) ELSE Err)
         [] c = 82  -> Cat(Sub(72), Cat(<<58>>, Sub(77)))                               \* %R = %H:%M
         [] c = 83  -> Time(NumTxt(v.f[6], 48, 2, d, conv))                             \* %S
         [] c = 115 -> (IF HasDate(v) /\ HasTime(v) /\ HasOff(v)                        \* %s
                        THEN LET t == InstOfCivil(CivOfFields(v.f), v.off) IN
                             IF ~InTsRange(t) THEN Err
                             ELSE LET tx == BigTxt(BSecOf(t))
                                      w  == IF d.flag = 45 \/ d.width < 0 THEN 0 ELSE Min2(d.width, 19)
                                      pad == IF d.flag = 48 THEN 48 ELSE IF d.flag # 95 /\ conv >= 2 THEN 48 ELSE 32
                                  IN IF tx[1] = 45 THEN <<45>> \o PadTo(Tail(tx), pad, IF conv % 2 = 1 /\ w > 0 THEN w - 1 ELSE w)
                                     ELSE PadTo(tx, pad, w)
                        ELSE Err)
         [] c = 84  -> Cat(Sub(72), Cat(<<58>>, Cat(Sub(77), Cat(<<58>>, Sub(83)))))    \* %T = %H:%M:%S
         [] c = 85  -> Date(NumTxt(WeekFrom(y, VDoy(v), 0), 48, 2, d, conv))            \* %U
         [] c = 117 -> Date(NumTxt(VWd(v), 32, 0, d, conv))                             \* %u
         [] c = 86  -> Date(NumTxt(VIso(v)[2], 48, 2, d, conv))                         \* %V
         [] c = 87  -> Date(NumTxt(WeekFrom(y, VDoy(v), 1), 48, 2, d, conv))            \* %W
         [] c = 119 -> Date(NumTxt(VWd(v) % 7, 32, 0, d, conv))                         \* %w
         [] c = 89  -> Date(NumTxt(y, 48, 4, d, conv))                                  \* %Y
         [] c = 121 -> Date(IF y \in 1969..2068 THEN NumTxt(y % 100, 48, 2, d, conv) ELSE Err)   \* %y
         [] c = 90  -> (IF HasAbbr(v) THEN StrTxt(v.abbr, "U", d) ELSE Err)             \* %Z
         [] c = 122 -> (IF HasOff(v) THEN OffTxt(v.off, FALSE) ELSE Err)                \* %z
         [] OTHER   -> Err

RECURSIVE ExpFmt(_, _, _, _)
ExpFmt(fmt, i, v, conv) ==
  IF i > Len(fmt) THEN <<>>
  ELSE IF fmt[i] # 37 THEN Cat(<<fmt[i]>>, ExpFmt(fmt, i + 1, v, conv))
  ELSE IF i = Len(fmt) THEN Err
  ELSE LET d == RdDirective(fmt, i) IN Cat(ExpDir(v, d, conv), ExpFmt(fmt, d.nx, v, conv))

\* ---- what the directives of a format determine --------------------------------------
HasC(D, cs) == \E i \in DOMAIN D : ~D[i].dot /\ ~D[i].colon /\ D[i].c \in cs
HasColon(D, cs) == \E i \in DOMAIN D : D[i].colon /\ D[i].c \in cs
HasFrac(D) == \E i \in DOMAIN D : D[i].c = 102
YearKnown(D)  == HasC(D, {89, 70, 121, 68})                    \* %Y %F %y %D
IsoYKnown(D)  == HasC(D, {71, 103})                            \* %G %g
MonthKnown(D) == HasC(D, {109, 66, 98, 104, 70, 68})           \* %m %B %b %h %F %D
DayKnown(D)   == HasC(D, {100, 101, 70, 68})                   \* %d %e %F %D
WdKnown(D)    == HasC(D, {65, 97, 117, 119})                   \* %A %a %u %w
DateDet(D) == \/ YearKnown(D) /\ MonthKnown(D) /\ DayKnown(D)
              \/ IsoYKnown(D) /\ HasC(D, {86}) /\ WdKnown(D)
              \/ YearKnown(D) /\ HasC(D, {106})
              \/ YearKnown(D) /\ HasC(D, {85}) /\ WdKnown(D)
              \/ YearKnown(D) /\ HasC(D, {87}) /\ WdKnown(D)

Hour24(D)  == HasC(D, {72, 107, 82, 84})                       \* %H %k %R %T
Hour12D(D) == HasC(D, {73, 108})                               \* %I %l
Merid(D)   == HasC(D, {80, 112})                               \* %P %p
MinKnown(D) == HasC(D, {77, 82, 84})
SecKnown(D) == HasC(D, {83, 84})
OffKnown(D, v) == HasC(D, {122}) \/ HasColon(D, {122}) \/ ((HasC(D, {81}) \/ HasColon(D, {81})) /\ ~(v.k = 1 /\ v.iana # <<>>))
IanaKnown(D, v) == (HasC(D, {81}) \/ HasColon(D, {81})) /\ v.k = 1 /\ v.iana # <<>>

\* the civil time the parser must rebuild: <<h, mi, s, ns>>, or Err when a unit
\* is present without the bigger ones
TruncNsP(ns, p) == IF p < 0 \/ p >= 9 THEN ns ELSE (ns \div Pow10(9 - p)) * Pow10(9 - p)
\* a fraction directive that printed something: %f always does, %.f only a
\* non-empty fraction (the parser then finds no dot and sets nothing)
FracPresent(D, v) == \E i \in DOMAIN D : D[i].c = 102 /\ (~D[i].dot \/ ExpDir(v, D[i], 0) # <<>>)
FracIs(D, v, i) == D[i].c = 102 /\ (~D[i].dot \/ ExpDir(v, D[i], 0) # <<>>)
LastFrac(D, v) == D[CHOOSE i \in DOMAIN D : FracIs(D, v, i) /\ \A j \in DOMAIN D : FracIs(D, v, j) => j <= i]
ExpTime(D, v) ==
  LET ns == IF FracPresent(D, v) THEN TruncNsP(v.f[7], LastFrac(D, v).width) ELSE 0 IN
  IF ~(Hour24(D) \/ Hour12D(D))
  THEN IF MinKnown(D) \/ SecKnown(D) \/ FracPresent(D, v) THEN Err ELSE <<0, 0, 0, 0>>
  ELSE IF ~MinKnown(D) THEN (IF SecKnown(D) \/ FracPresent(D, v) THEN Err ELSE <<v.f[4], 0, 0, 0>>)
  ELSE IF ~SecKnown(D) THEN (IF FracPresent(D, v) THEN Err ELSE <<v.f[4], v.f[5], 0, 0>>)
  ELSE <<v.f[4], v.f[5], v.f[6], ns>>
\* the hour is not determined by a 12-hour clock without AM/PM
HourSettled(D) == ~Hour12D(D) \/ Merid(D)

ExpDate(D, v) == IF DateDet(D) THEN <<v.f[1], v.f[2], v.f[3]>> ELSE Err
ExpDateTime(D, v) ==
  LET d == ExpDate(D, v)  t == ExpTime(D, v) IN IF d = Err \/ t = Err THEN Err ELSE d \o t
\* Timestamp: the UTC fields of the instant
ExpTs(D, v) ==
  LET dt == ExpDateTime(D, v) IN
  IF dt = Err \/ ~OffKnown(D, v) THEN Err
  ELSE LET t == InstOfCivil(CivOfFields(dt), v.off) IN IF InTsRange(t) THEN FieldsOf(t) ELSE Err
\* Zoned: civil fields and offset
ExpZoned(D, v) ==
  LET dt == ExpDateTime(D, v) IN
  IF dt = Err \/ ~(OffKnown(D, v) \/ IanaKnown(D, v)) THEN Err
  ELSE IF ~InTsRange(InstOfCivil(CivOfFields(dt), v.off)) THEN Err
  ELSE dt \o <<v.off>>

\* ---- RFC 2822 --------------------------------------------------------------------------
\* "Sat, 13 Jul 2024 15:09:59 -0400": the printed form (offset in whole minutes)
Rfc2822Txt(f, off, zone) ==
  IF f[1] < 0 THEN Err
  ELSE Abbr3(WeekdayName[WeekdayOf(f[1], f[2], f[3])]) \o <<44, 32>> \o DigR(f[3]) \o <<32>>
       \o Abbr3(MonthName[f[2]]) \o <<32>> \o PadTo(DigR(f[1]), 48, 4) \o <<32>>
       \o PadTo(DigR(f[4]), 48, 2) \o <<58>> \o PadTo(DigR(f[5]), 48, 2) \o <<58>> \o PadTo(DigR(f[6]), 48, 2)
       \o <<32>> \o zone
Rfc2822Off(off) == LET a == IF off < 0 THEN 0 - off ELSE off IN
  (IF off < 0 THEN <<45>> ELSE <<43>>) \o PadTo(DigR(a \div 3600), 48, 2) \o PadTo(DigR((a % 3600) \div 60), 48, 2)
\* RFC 9110 (HTTP): fixed-width day, GMT
Rfc9110Txt(f) ==
  IF f[1] < 0 THEN Err
  ELSE Abbr3(WeekdayName[WeekdayOf(f[1], f[2], f[3])]) \o <<44, 32>> \o PadTo(DigR(f[3]), 48, 2) \o <<32>>
       \o Abbr3(MonthName[f[2]]) \o <<32>> \o PadTo(DigR(f[1]), 48, 4) \o <<32>>
       \o PadTo(DigR(f[4]), 48, 2) \o <<58>> \o PadTo(DigR(f[5]), 48, 2) \o <<58>> \o PadTo(DigR(f[6]), 48, 2)
       \o <<32, 71, 77, 84>>

\* the reader: [day-name ","] day month year hh:mm[:ss] zone, tokens separated
\* by blanks; names in any case
IsBlank(c) == c \in {32, 9}
RECURSIVE SkipWs(_, _)
SkipWs(s, i) == IF i <= Len(s) /\ IsBlank(s[i]) THEN SkipWs(s, i + 1) ELSE i
IsAlpha(c) == c \in 65..90 \/ c \in 97..122
RECURSIVE CountAlpha(_, _)
CountAlpha(s, i) == IF i <= Len(s) /\ IsAlpha(s[i]) THEN 1 + CountAlpha(s, i + 1) ELSE 0
NameIdx(tab, w) == IF \E k \in DOMAIN tab : Low(Abbr3(tab[k])) = Low(w)
                   THEN CHOOSE k \in DOMAIN tab : Low(Abbr3(tab[k])) = Low(w) ELSE 0

\* obsolete zone names: UT GMT and the North American ones; anything else is -0000
ObsZone(w) ==
  LET u == Up(w) IN
  CASE u = <<69, 83, 84>> -> -18000 [] u = <<69, 68, 84>> -> -14400
    [] u = <<67, 83, 84>> -> -21600 [] u = <<67, 68, 84>> -> -18000
    [] u = <<77, 83, 84>> -> -25200 [] u = <<77, 68, 84>> -> -21600
    [] u = <<80, 83, 84>> -> -28800 [] u = <<80, 68, 84>> -> -25200
    [] OTHER -> 0
KnownZone(w) == Up(w) \in {<<85, 84>>, <<71, 77, 84>>, <<90>>, <<69, 83, 84>>, <<69, 68, 84>>, <<67, 83, 84>>, <<67, 68, 84>>,
                           <<77, 83, 84>>, <<77, 68, 84>>, <<80, 83, 84>>, <<80, 68, 84>>}
\* known names; any single letter but J; any other word of 3..5 letters (meaning -0000)
AlphaZoneOk(w) == Len(w) \in 1..5 /\ (KnownZone(w) \/ (Len(w) = 1 /\ Up(w) # <<74>>) \/ Len(w) >= 3)

Rd2822(s) ==
  LET i0 == SkipWs(s, 1)
      na == CountAlpha(s, i0)
      hasWd == na = 3 /\ ChAt(s, i0 + 3) = 44
      wd == IF hasWd THEN NameIdx(WeekdayName, SubSeq(s, i0, i0 + 2)) ELSE 0
      i1 == IF hasWd THEN SkipWs(s, i0 + 4) ELSE i0
      nd == CountDig(s, i1)
      day == IF nd \in 1..2 THEN NumAt(s, i1, nd) ELSE 0
      i2 == SkipWs(s, i1 + nd)
      mo == IF CountAlpha(s, i2) = 3 THEN NameIdx(MonthName, SubSeq(s, i2, i2 + 2)) ELSE 0
      i3 == SkipWs(s, i2 + 3)
      ny == CountDig(s, i3)
      yraw == IF ny \in 2..4 THEN NumAt(s, i3, ny) ELSE 0
      year == IF ny = 2 THEN (IF yraw <= 49 THEN 2000 + yraw ELSE 1900 + yraw)
              ELSE IF ny = 3 THEN 1900 + yraw ELSE yraw
      i4 == SkipWs(s, i3 + ny)
      okHM == AllDig(s, i4, 2) /\ ChAt(s, i4 + 2) = 58 /\ AllDig(s, i4 + 3, 2)
      hasS == ChAt(s, i4 + 5) = 58 /\ AllDig(s, i4 + 6, 2)
      hh == IF okHM THEN NumAt(s, i4, 2) ELSE 99
      mi == IF okHM THEN NumAt(s, i4 + 3, 2) ELSE 99
      ss == IF hasS THEN NumAt(s, i4 + 6, 2) ELSE 0
      i5 == SkipWs(s, IF hasS THEN i4 + 8 ELSE i4 + 5)
      sgn == ChAt(s, i5)
      numZone == sgn \in {43, 45} /\ AllDig(s, i5 + 1, 4)
      zh == IF numZone THEN NumAt(s, i5 + 1, 2) ELSE 0
      zm == IF numZone THEN NumAt(s, i5 + 3, 2) ELSE 0
      nz == CountAlpha(s, i5)
      off == IF numZone THEN (IF sgn = 45 THEN -1 ELSE 1) * (zh * 3600 + zm * 60)
             ELSE IF nz > 0 THEN ObsZone(SubSeq(s, i5, i5 + nz - 1)) ELSE 0
      i6 == SkipWs(s, IF numZone THEN i5 + 5 ELSE i5 + nz)
  IN IF /\ (na = 0 \/ (hasWd /\ wd # 0))
        /\ nd \in 1..2 /\ mo # 0 /\ ny \in 2..4
        /\ (~hasWd \/ i1 > i0 + 4) /\ i2 > i1 + nd /\ i3 > i2 + 3 /\ i4 > i3 + ny       \* blanks between the date tokens
        /\ okHM /\ hh <= 23 /\ mi <= 59 /\ ss <= 59
        /\ (numZone \/ (nz > 0 /\ AlphaZoneOk(SubSeq(s, i5, i5 + nz - 1)))) /\ zm <= 59 /\ (zh * 3600 + zm * 60) <= OffMax
        /\ i6 = Len(s) + 1
        /\ ValidDate(year, mo, day)
        /\ (wd = 0 \/ wd = WeekdayOf(year, mo, day))
     THEN [ok |-> TRUE, fields |-> <<year, mo, day, hh, mi, ss, 0>>, off |-> off]
     ELSE [ok |-> FALSE, fields |-> <<>>, off |-> 0]
=======================================================================
