---------------------------- MODULE Trace_Dur ----------------------------
(* C15: durations through the ISO 8601 and the "friendly" formats.         *)
(*  ISO 8601: the printed text is read by an independent reader written    *)
(*  here (over byte values, numbers as BigInts); it must denote the        *)
(*  original duration, and jiff's re-parse must agree with it.             *)
(*  Friendly: for every printer configuration the text must be accepted    *)
(*  by the parser and the re-parsed value must be related to the original  *)
(*  as documented: identical for lossless configurations (after folding    *)
(*  the units below the fractional unit into one total), otherwise closer  *)
(*  than one unit of the last printed digit.                               *)
EXTENDS Friendly, CivilOps, Rfc3339, TLC, Json, IOUtils

Rec == ndJsonDeserialize(IOEnv.TRACE)
VARIABLE l
vars == <<l>>

\* ---- big decimal digits -----------------------------------------------------------
RECURSIVE BigDigits(_, _, _, _)
\* value of the digits s[i .. i+n-1] as a BigInt
BigDigits(s, i, n, acc) == IF n = 0 THEN acc ELSE BigDigits(s, i + 1, n - 1, BAdd(BMulSmall(acc, 10), BOf(s[i] - 48)))

\* ---- ISO 8601 duration reader ----------------------------------------------------------
\* [+-]P [nY][nM][nW][nD] [T [nH][nM][n[.fff]S]]   (designators in either case)
Up(c) == IF c \in 97..122 THEN c - 32 ELSE c
\* one "<digits>[.<digits>]<designator>" item at i: [ok, v, fd, fn, des, nx]
RdItem(s, i) ==
  LET k == CountDig(s, i) IN
  IF k = 0 THEN [ok |-> FALSE]
  ELSE LET j == i + k IN
       IF ChAt(s, j) \in {46, 44}
       THEN LET f == CountDig(s, j + 1) IN
            IF f = 0 \/ f > 9 THEN [ok |-> FALSE]
            ELSE [ok |-> TRUE, v |-> BigDigits(s, i, k, BZero), fd |-> f, fn |-> NumAt(s, j + 1, f) * Pow10(9 - f),
                  des |-> Up(ChAt(s, j + 1 + f)), nx |-> j + 2 + f]
       ELSE [ok |-> TRUE, v |-> BigDigits(s, i, k, BZero), fd |-> 0, fn |-> 0, des |-> Up(ChAt(s, j)), nx |-> j + 1]

\* fold over the items; st = [ok, inT, rank (last designator rank), y, mo, w, d, h, mi, s, fn, fd]
DateRank(c) == CASE c = 89 -> 1 [] c = 77 -> 2 [] c = 87 -> 3 [] c = 68 -> 4 [] OTHER -> 0     \* Y M W D
TimeRank(c) == CASE c = 72 -> 5 [] c = 77 -> 6 [] c = 83 -> 7 [] OTHER -> 0                   \* H M S
RECURSIVE RdItems(_, _, _)
RdItems(s, i, st) ==
  IF i > Len(s) THEN st
  ELSE IF Up(s[i]) = 84 /\ ~st.inT THEN RdItems(s, i + 1, [st EXCEPT !.inT = TRUE, !.sawT = TRUE])
  ELSE LET it == RdItem(s, i) IN
       IF ~it.ok THEN [st EXCEPT !.ok = FALSE]
       ELSE LET rk == IF st.inT THEN TimeRank(it.des) ELSE DateRank(it.des) IN
            IF rk = 0 \/ rk <= st.rank \/ (it.fd > 0 /\ rk < 5) \/ st.fd > 0 THEN [st EXCEPT !.ok = FALSE]
            ELSE RdItems(s, it.nx,
                   [st EXCEPT !.rank = rk, !.n = @ + 1,
                              !.y = IF rk = 1 THEN it.v ELSE @, !.mo = IF rk = 2 THEN it.v ELSE @,
                              !.w = IF rk = 3 THEN it.v ELSE @, !.d = IF rk = 4 THEN it.v ELSE @,
                              !.h = IF rk = 5 THEN it.v ELSE @, !.mi = IF rk = 6 THEN it.v ELSE @,
                              !.s = IF rk = 7 THEN it.v ELSE @, !.fn = IF it.fd > 0 THEN it.fn ELSE @,
                              !.fd = IF it.fd > 0 THEN it.fd ELSE @, !.fr = IF it.fd > 0 THEN rk ELSE @,
                              !.nd = IF rk <= 4 THEN @ + 1 ELSE @])
RdIsoDuration(s) ==
  LET sg == IF ChAt(s, 1) = 45 THEN -1 ELSE 1
      i0 == IF ChAt(s, 1) \in {43, 45} THEN 2 ELSE 1
      st0 == [ok |-> TRUE, sign |-> sg, inT |-> FALSE, sawT |-> FALSE, rank |-> 0, n |-> 0, y |-> BZero, mo |-> BZero, w |-> BZero, d |-> BZero,
              h |-> BZero, mi |-> BZero, s |-> BZero, fn |-> 0, fd |-> 0, fr |-> 0, nd |-> 0]
  IN IF Up(ChAt(s, i0)) # 80 THEN [ok |-> FALSE]
     ELSE LET r == RdItems(s, i0 + 1, st0) IN
          IF ~r.ok \/ r.n = 0 \/ (r.sawT /\ r.rank < 5) THEN [ok |-> FALSE] ELSE r
\* nanoseconds denoted by the time part (the fraction belongs to the unit of rank fr: 5 hours, 6 minutes, 7 seconds)
IsoTimeNs(t) ==
  BAdd(BMul(t.h, B3600E9), BAdd(BMul(t.mi, B60E9), BAdd(BMulE9(t.s),
       BMulSmall(BOf(t.fn), CASE t.fr = 5 -> 3600 [] t.fr = 6 -> 60 [] OTHER -> 1))))

\* ---- span helpers ---------------------------------------------------------------------------
\* nanoseconds of seconds-and-smaller units of a span record
SubMinNs(sp) == BAdd(BMulE9(sp.s), BAdd(BMul(sp.ms, B1E6), BAdd(BMul(sp.us, B1E3), sp.ns)))
SpanBig(sp, f) == IF f \in {"y", "mo", "w", "d", "h"} THEN BOf(sp[f]) ELSE sp[f]
\* total nanoseconds of the units of rank <= R (0 = ns .. 5 = hours)
RankOfField(f) == CASE f = "ns" -> 0 [] f = "us" -> 1 [] f = "ms" -> 2 [] f = "s" -> 3 [] f = "mi" -> 4 [] f = "h" -> 5
                    [] f = "d" -> 6 [] f = "w" -> 7 [] f = "mo" -> 8 [] f = "y" -> 9
Fields == <<"ns", "us", "ms", "s", "mi", "h", "d", "w", "mo", "y">>
UnitNsOfRank(k) == CASE k = 0 -> BOf(1) [] k = 1 -> B1E3 [] k = 2 -> B1E6 [] k = 3 -> BPow10_9 [] k = 4 -> B60E9 [] k = 5 -> B3600E9
RECURSIVE LowNs(_, _)
LowNs(sp, R) == IF R < 0 THEN BZero ELSE BAdd(BMul(SpanBig(sp, Fields[R + 1]), UnitNsOfRank(R)), LowNs(sp, R - 1))
HighSame(a, b, R) == \A k \in (R + 2)..10 : a[Fields[k]] = b[Fields[k]]

\* ---- ISO events ---------------------------------------------------------------------------------
IsoSpanWhy(r) ==
  LET t == RdIsoDuration(r.text)  o == r.o IN
  IF ~t.ok \/ t.fr \notin {0, 7} THEN "printed span is not a valid ISO 8601 duration (fractions on seconds only)"
  ELSE LET sg == t.sign
           S(b) == IF sg < 0 THEN BNeg(b) ELSE b
           secNs == S(BAdd(BMulE9(t.s), BOf(t.fn)))
       IN IF S(t.y) # BOf(o.y) \/ S(t.mo) # BOf(o.mo) \/ S(t.w) # BOf(o.w) \/ S(t.d) # BOf(o.d)
             \/ S(t.h) # BOf(o.h) \/ S(t.mi) # o.mi THEN "ISO text: years..minutes differ from the span"
          ELSE IF secNs # SubMinNs(o) THEN "ISO text: seconds-and-smaller total differs"
          ELSE IF r.st # "ok" THEN "jiff refuses its own ISO output"
          ELSE IF ~HighSame(r.p, o, 3) THEN "ISO re-parse: years..minutes differ"
          ELSE IF SubMinNs(r.p) # SubMinNs(o) THEN "ISO re-parse: seconds-and-smaller total differs"
          ELSE ""

IsoSdWhy(r) ==
  LET t == RdIsoDuration(r.text)  N == BNanosOfApi(r.o[1], r.o[2]) IN
  IF ~t.ok \/ t.fr \notin {0, 7} THEN "printed duration is not a valid ISO 8601 duration (fractions on seconds only)"
  ELSE IF t.y # BZero \/ t.mo # BZero \/ t.w # BZero \/ t.d # BZero THEN "ISO duration text has calendar units"
  ELSE LET tot == BAdd(BMul(t.h, B3600E9), BAdd(BMul(t.mi, B60E9), BAdd(BMulE9(t.s), BOf(t.fn))))
           sgn == IF t.sign < 0 THEN BNeg(tot) ELSE tot
       IN IF sgn # N THEN "ISO text does not denote the duration"
          ELSE IF r.st # "ok" THEN "jiff refuses its own ISO output"
          ELSE IF r.p # r.o THEN "ISO re-parse differs"
          ELSE ""

\* ---- friendly events -------------------------------------------------------------------------------
\* number of digits after the (last) decimal point of the text; 0 when none
RECURSIVE LastDot(_, _)
LastDot(s, i) == IF i = 0 THEN 0 ELSE IF s[i] = 46 /\ IsDig(s, i + 1) /\ IsDig(s, i - 1) THEN i ELSE LastDot(s, i - 1)
FracDigits(s) == LET i == LastDot(s, Len(s)) IN IF i = 0 THEN 0 ELSE CountDig(s, i + 1)

\* cfg.frac: 0 none, 1 hour, 2 minute, 3 second, 4 millisecond, 5 microsecond; cfg.hms 0/1; cfg.prec -1..9
FracRank(cfg) == IF cfg.hms = 1 THEN 3 ELSE CASE cfg.frac = 1 -> 5 [] cfg.frac = 2 -> 4 [] cfg.frac = 3 -> 3
                                                  [] cfg.frac = 4 -> 2 [] cfg.frac = 5 -> 1 [] OTHER -> -1
Lossless(cfg) == FracRank(cfg) = -1 \/ (cfg.prec = -1 /\ FracRank(cfg) <= 3)

\* |a - b| < unit / 10^digits   <=>   |a - b| * 10^digits < unit
Closer(a, b, unitNs, digits) == BLt(BMul(BAbs(BSub(a, b)), BOf(Pow10(digits))), unitNs)

\* ---- what the printed text itself denotes (independent reader, Friendly.tla) --------------------
FrSign(p, b) == IF p.neg THEN BNeg(b) ELSE b
\* time units (hours and below) of the text as nanoseconds times 10^fnd (the fraction made whole)
FrTimeScaled(p) ==
  LET whole == BAdd(BMul(p.u[6], B3600E9), BAdd(BMul(p.u[5], B60E9), BAdd(BMulE9(p.u[4]),
               BAdd(BMul(p.u[3], B1E6), BAdd(BMul(p.u[2], B1E3), p.u[1])))))
      fr == IF p.frank < 0 THEN BZero ELSE BMul(BOf(p.fnum), UnitNsOfRank(p.frank))
  IN BAdd(BMul(whole, BOf(Pow10(p.fnd))), fr)
\* o: a span record; T: its hours-and-below total in nanoseconds.  The text must denote the calendar
\* units exactly, every time unit above the fractional one exactly (unless a clock is printed), and the
\* rest as a total: exactly when the configuration is lossless, else truncated toward zero by less
\* than one unit of the last printed digit
FrTextWhy(p, cal, T, cfg, timeExact) ==
  LET R == FracRank(cfg)  scale == BOf(Pow10(p.fnd))  txt == FrSign(p, FrTimeScaled(p))  orig == BMul(T, scale) IN
  IF ~p.ok THEN "printed friendly text is not in the documented grammar"
  ELSE IF \E k \in 7..10 : FrSign(p, p.u[k]) # cal[k - 6] THEN "friendly text: a calendar unit differs from the value"
  ELSE IF p.frank >= 0 /\ p.frank # R THEN "friendly text: the fraction sits on the wrong unit"
  ELSE IF timeExact # <<>> /\ (\E k \in 1..6 : FrSign(p, p.u[k]) # timeExact[k]) THEN "friendly text: a time unit differs from the value"
  ELSE IF Lossless(cfg) THEN (IF txt = orig THEN "" ELSE "friendly text does not denote the value")
  ELSE IF BLt(BAbs(orig), BAbs(txt)) THEN "friendly text (limited precision) is larger in magnitude than the value"
  ELSE IF ~BLt(BAbs(BSub(orig, txt)), UnitNsOfRank(R)) THEN "friendly text (limited precision) is off by one unit of the last digit or more"
  ELSE ""

FrSpanWhy(r) ==
  LET o == r.o  cfg == r.cfg  R == FracRank(cfg)
      tw == IF r.st = "panic" THEN ""
            ELSE FrTextWhy(RdFriendly(r.text), <<BOf(o.d), BOf(o.w), BOf(o.mo), BOf(o.y)>>, LowNs(o, 5), cfg,
                           IF R = -1 /\ cfg.hms = 0 THEN <<o.ns, o.us, o.ms, o.s, o.mi, BOf(o.h)>> ELSE <<>>)
  IN
  IF tw # "" THEN tw
  ELSE IF r.st = "panic" THEN "panic printing or parsing a friendly span"
  ELSE IF r.st # "ok" THEN "the friendly parser refuses the friendly printer's output"
  ELSE IF R = -1 THEN (IF r.p = o THEN "" ELSE "friendly round trip is not unit for unit")
  ELSE IF ~HighSame(r.p, o, R) THEN "friendly round trip changed a unit above the fractional unit"
  ELSE IF Lossless(cfg) THEN (IF LowNs(r.p, R) = LowNs(o, R) THEN "" ELSE "friendly round trip changed the folded total")
  ELSE IF Closer(LowNs(r.p, R), LowNs(o, R), UnitNsOfRank(R), FracDigits(r.text)) THEN ""
  ELSE "lossy friendly output is off by more than one unit of the last printed digit"

FrSdWhy(r) ==
  LET N == BNanosOfApi(r.o[1], r.o[2])  cfg == r.cfg  R == FracRank(cfg)
      tw == IF r.st = "panic" THEN "" ELSE FrTextWhy(RdFriendly(r.text), <<BZero, BZero, BZero, BZero>>, N, cfg, <<>>)
  IN
  IF tw # "" THEN tw
  ELSE IF r.st = "panic" THEN "panic printing or parsing a friendly duration"
  ELSE IF r.st # "ok" THEN "the friendly parser refuses the friendly printer's output"
  ELSE LET P == BNanosOfApi(r.p[1], r.p[2]) IN
       IF Lossless(cfg) THEN (IF P = N THEN "" ELSE "friendly duration round trip is not the identical duration")
       ELSE IF Closer(P, N, UnitNsOfRank(R), FracDigits(r.text)) THEN ""
       ELSE "lossy friendly output is off by more than one unit of the last printed digit"

\* ---- the friendly parser on texts of the documented grammar ---------------------------------------
\* jiff's parsed time total T (ns) against the text: |T| = floor(|text total|), i.e.
\* 0 <= scaled - |T| * 10^fnd < 10^fnd
FrTotalOk(p, T) ==
  LET scale == BOf(Pow10(p.fnd))  txt == FrTimeScaled(p)  got == BMul(BAbs(T), scale) IN
  BLe(got, txt) /\ BLt(BSub(txt, got), scale) /\ (T = BZero \/ (T.s < 0) = p.neg)
FrParseWhy(r) ==
  LET p == RdFriendly(r.text) IN
  IF ~p.ok THEN "harness: generated friendly text is outside the reader's grammar"
  ELSE IF r.span.st = "panic" \/ r.sd.st = "panic" THEN "the friendly parser panicked"
  ELSE LET units == [y |-> BToInt(p.u[10]), mo |-> BToInt(p.u[9]), w |-> BToInt(p.u[8]), d |-> BToInt(p.u[7]), h |-> BToInt(p.u[6]),
                     mi |-> p.u[5], s |-> p.u[4], ms |-> p.u[3], us |-> p.u[2], ns |-> p.u[1]]
           fits == (\A k \in 6..10 : BFitsInt(p.u[k])) /\ SpanInLimits(units)
           hasCal == \E k \in 7..10 : p.u[k] # BZero
           g == r.span.p
           spanWhy ==
             IF ~fits THEN ""                               \* beyond the unit limits: may be refused, not checked further
             ELSE IF r.span.st # "ok" THEN (IF p.frank >= 0 THEN "" ELSE "the friendly parser refuses a text of the documented grammar")
             ELSE IF <<BOf(g.d), BOf(g.w), BOf(g.mo), BOf(g.y)>> # <<FrSign(p, p.u[7]), FrSign(p, p.u[8]), FrSign(p, p.u[9]), FrSign(p, p.u[10])>>
                  THEN "friendly parse: a calendar unit differs from the text"
             ELSE IF p.frank < 0 /\ <<g.ns, g.us, g.ms, g.s, g.mi, BOf(g.h)>> # <<FrSign(p, p.u[1]), FrSign(p, p.u[2]), FrSign(p, p.u[3]), FrSign(p, p.u[4]), FrSign(p, p.u[5]), FrSign(p, p.u[6])>>
                  THEN "friendly parse: a time unit differs from the text"
             ELSE IF ~FrTotalOk(p, LowNs(g, 5)) THEN "friendly parse: the time units do not add up to the text (fraction truncated toward zero)"
             ELSE ""
           sdWhy ==
             IF hasCal THEN (IF r.sd.st = "err" THEN "" ELSE "parse_duration accepted calendar units")
             ELSE IF (\E k \in 7..10 : TRUE) /\ r.sd.st # "ok" THEN ""      \* too large for 64-bit seconds, or a zero calendar unit: may be refused
             ELSE IF ~FrTotalOk(p, BNanosOfApi(r.sd.p[1], r.sd.p[2])) THEN "friendly parse_duration: not the total of the text"
             ELSE ""
       IN IF spanWhy # "" THEN spanWhy ELSE sdWhy

\* ---- the ISO 8601 duration parser on texts of the grammar ------------------------------------------
IsoParseWhy(r) ==
  LET t == RdIsoDuration(r.text) IN
  IF ~t.ok THEN "harness: generated ISO duration is outside the reader's grammar"
  ELSE IF r.span.st = "panic" \/ r.sd.st = "panic" THEN "the ISO duration parser panicked"
  ELSE LET S(b) == IF t.sign < 0 THEN BNeg(b) ELSE b
           T == IsoTimeNs(t)
           calFits == BLe(t.y, BOf(19998)) /\ BLe(t.mo, BOf(239976)) /\ BLe(t.w, BOf(1043497)) /\ BLe(t.d, BOf(7304484))
           timeFits == BLe(t.h, BOf(175307616)) /\ BLe(t.mi, BMulSmall(BOf(1051845696), 10)) /\ BLe(t.s, BAdd(BMul(BOf(631107417), BOf(1000)), BOf(600)))
           hasCal == t.y # BZero \/ t.mo # BZero \/ t.w # BZero \/ t.d # BZero
           g == r.span.p
           spanWhy ==
             IF ~calFits THEN (IF r.span.st = "err" THEN "" ELSE "ISO parse: a calendar unit beyond its limit was accepted")
             ELSE IF r.span.st # "ok" THEN (IF timeFits THEN "the ISO parser refuses a duration within the unit limits" ELSE "")
             ELSE IF <<BOf(g.y), BOf(g.mo), BOf(g.w), BOf(g.d)>> # <<S(t.y), S(t.mo), S(t.w), S(t.d)>> THEN "ISO parse: a calendar unit differs from the text"
             ELSE IF LowNs(g, 5) # S(T) THEN "ISO parse: the time units do not add up to the text"
             ELSE IF timeFits /\ BOf(g.h) # S(t.h) THEN "ISO parse: hours differ from the text"
             ELSE IF timeFits /\ t.fr # 5 /\ g.mi # S(t.mi) THEN "ISO parse: minutes differ from the text"
             ELSE ""
           sdWhy ==
             IF hasCal THEN (IF r.sd.st = "err" THEN "" ELSE "ISO parse_duration accepted calendar units")
             ELSE IF r.sd.st # "ok" THEN (IF t.nd = 0 THEN "ISO parse_duration refuses a time-only duration" ELSE "")
             ELSE IF BNanosOfApi(r.sd.p[1], r.sd.p[2]) # S(T) THEN "ISO parse_duration: not the total of the text"
             ELSE ""
       IN IF spanWhy # "" THEN spanWhy ELSE sdWhy

Why(r) ==
  CASE r.op = "fr_parse" -> FrParseWhy(r)
    [] r.op = "iso_parse" -> IsoParseWhy(r)
    [] r.op = "iso_span" -> IsoSpanWhy(r)
    [] r.op = "iso_sd"   -> IsoSdWhy(r)
    [] r.op = "fr_span"  -> FrSpanWhy(r)
    [] r.op = "fr_sd"    -> FrSdWhy(r)
    [] OTHER             -> "unknown op"

Init == l = 1
Next == /\ l <= Len(Rec)
        /\ LET w == Why(Rec[l]) IN IF w = "" THEN TRUE ELSE PrintT("MISMATCH|" \o ToString(l) \o "|" \o w)
        /\ l' = l + 1
Spec == Init /\ [][Next]_vars
Consumed == TLCGet("stats").diameter = Len(Rec) + 1
=======================================================================
