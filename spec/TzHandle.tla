---------------------------- MODULE TzHandle ----------------------------
(* Lifecycle of jiff's TimeZone handles (src/tz/timezone.rs: a tagged      *)
(* pointer that is either an inline value -- UTC, unknown, fixed offset,   *)
(* &'static TZif -- or a manually reference counted Arc to a heap object   *)
(* -- TZif parsed from bytes, POSIX time zone).                            *)
(*                                                                         *)
(*   New(h, k, v)  construct a zone of kind k and content v into slot h    *)
(*   Clone(h, g)   clone handle h into the empty slot g                    *)
(*   Drop(h)       drop the handle in slot h                               *)
(*   (Eq and Query do not change the state; their expected results are     *)
(*    state functions below)                                               *)
(*                                                                         *)
(* Heap objects are identified by allocation number; rc is what the Arc's  *)
(* strong count must be, freed counts how often the object was released.   *)
EXTENDS Integers, FiniteSets, Sequences, TLC

CONSTANTS Slot,        \* handle slots of the program
          MaxObj,      \* bound on heap allocations
          Content      \* abstract payloads (which file / TZ string / offset)

Kinds == {"utc", "unknown", "fixed", "static", "tzif", "posix"}
Heap(k) == k \in {"tzif", "posix"}
\* pointer tags of the implementation
TagOf(k) == CASE k = "static" -> 0 [] k = "utc" -> 1 [] k = "unknown" -> 2 [] k = "fixed" -> 3
              [] k = "tzif" -> 4 [] k = "posix" -> 5

VARIABLES handle,   \* [Slot -> [live, kind, val, obj]]   obj = 0 for inline kinds
          rc,       \* [1..MaxObj -> Nat]   strong count of each heap object
          freed,    \* [1..MaxObj -> Nat]   how many times each heap object was freed
          nobj      \* heap objects allocated so far
vars == <<handle, rc, freed, nobj>>

Dead == [live |-> FALSE, kind |-> "utc", val |-> 0, obj |-> 0]

Init == /\ handle = [s \in Slot |-> Dead]
        /\ rc = [o \in 1..MaxObj |-> 0] /\ freed = [o \in 1..MaxObj |-> 0] /\ nobj = 0

New(h, k, v) ==
  /\ ~handle[h].live
  /\ IF Heap(k)
     THEN /\ nobj < MaxObj
          /\ nobj' = nobj + 1
          /\ rc' = [rc EXCEPT ![nobj + 1] = 1]
          /\ handle' = [handle EXCEPT ![h] = [live |-> TRUE, kind |-> k, val |-> v, obj |-> nobj + 1]]
     ELSE /\ handle' = [handle EXCEPT ![h] = [live |-> TRUE, kind |-> k, val |-> v, obj |-> 0]]
          /\ UNCHANGED <<rc, nobj>>
  /\ UNCHANGED freed

Clone(h, g) ==
  /\ handle[h].live /\ ~handle[g].live
  /\ handle' = [handle EXCEPT ![g] = handle[h]]
  /\ rc' = IF handle[h].obj > 0 THEN [rc EXCEPT ![handle[h].obj] = @ + 1] ELSE rc
  /\ UNCHANGED <<freed, nobj>>

Drop(h) ==
  /\ handle[h].live
  /\ handle' = [handle EXCEPT ![h] = Dead]
  /\ LET o == handle[h].obj IN
     IF o > 0
     THEN /\ rc' = [rc EXCEPT ![o] = @ - 1]
          /\ freed' = IF rc[o] = 1 THEN [freed EXCEPT ![o] = @ + 1] ELSE freed
     ELSE UNCHANGED <<rc, freed>>
  /\ UNCHANGED nobj

Next == \E h \in Slot :
          \/ \E k \in Kinds, v \in Content : New(h, k, v)
          \/ \E g \in Slot : Clone(h, g)
          \/ Drop(h)
Spec == Init /\ [][Next]_vars

\* ---- expected observations ---------------------------------------------------------
\* fixed(0) is the UTC representation
NormKind(k, v) == IF k = "fixed" /\ v = 0 THEN "utc" ELSE k
\* value equality of two live handles
EqExpected(h, g) ==
  LET a == handle[h]  b == handle[g]
      ka == NormKind(a.kind, a.val)  kb == NormKind(b.kind, b.val)
  IN  ka = kb /\ (ka \in {"utc", "unknown"} \/ a.val = b.val)

\* ---- properties ----------------------------------------------------------------------
Live(o) == {h \in Slot : handle[h].live /\ handle[h].obj = o}
\* the strong count is exactly the number of live handles
RcInv == \A o \in 1..MaxObj : rc[o] = Cardinality(Live(o))
\* freed exactly once, exactly when the last handle goes, never while in use
FreeInv == \A o \in 1..MaxObj :
             /\ freed[o] <= 1
             /\ (o <= nobj => (freed[o] = 1) = (rc[o] = 0))
             /\ (o > nobj => freed[o] = 0 /\ rc[o] = 0)
NoUseAfterFree == \A h \in Slot : (handle[h].live /\ handle[h].obj > 0) => freed[handle[h].obj] = 0
EqLaws == \A h, g \in Slot : (handle[h].live /\ handle[g].live) =>
            /\ EqExpected(h, h)
            /\ EqExpected(h, g) = EqExpected(g, h)
            /\ (handle[h].obj > 0 /\ handle[h].obj = handle[g].obj => EqExpected(h, g))
=======================================================================
