SPECIFICATION Spec
INVARIANTS UniqueAndAlg BigAgrees SameAsTyped
CHECK_DEADLOCK FALSE
