SPECIFICATION Spec
INVARIANTS UniqueAndAlg BigAgrees
CHECK_DEADLOCK FALSE
