SPECIFICATION Spec
CONSTANTS
  Thread = {t1, t2, t3}
  Name = {a, b}
  MaxVer = 3
  MaxClock = 2
  TTL = 1
  MaxOps = 3
INVARIANTS TypeOK CacheCoherent ReturnOk FreshAfterExpiry LockInv
CHECK_DEADLOCK FALSE
