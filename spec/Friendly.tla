---------------------------- MODULE Friendly ----------------------------
(* An independent reader of jiff's "friendly" duration format, written from *)
(* the grammar in the documentation of jiff::fmt::friendly (not from the    *)
(* parser): optional sign, then either HH:MM:SS[.fraction] or units in      *)
(* strictly descending order, each a number, an optional fraction (only on  *)
(* the last unit), optional blanks and a unit label, separated by blanks    *)
(* and/or ", "; calendar units may be followed by HH:MM:SS; a trailing      *)
(* " ago" negates.  Text is a sequence of byte values.                      *)
(*                                                                          *)
(* RdFriendly(s) = [ok, neg, u (unit values by rank + 1: ns us ms s mi h d w *)
(* mo y, as BigInts), frank / fnum / fnd (rank of the unit carrying a        *)
(* fraction or -1, its digits as a number, their count)].                   *)
EXTENDS BigInt, Integers, Sequences

Labels == {<<<<121, 101, 97, 114, 115>>, 9>>,
           <<<<121, 101, 97, 114>>, 9>>,
           <<<<121, 114, 115>>, 9>>,
           <<<<121, 114>>, 9>>,
           <<<<121>>, 9>>,
           <<<<109, 111, 110, 116, 104, 115>>, 8>>,
           <<<<109, 111, 110, 116, 104>>, 8>>,
           <<<<109, 111, 115>>, 8>>,
           <<<<109, 111>>, 8>>,
           <<<<119, 101, 101, 107, 115>>, 7>>,
           <<<<119, 101, 101, 107>>, 7>>,
           <<<<119, 107, 115>>, 7>>,
           <<<<119, 107>>, 7>>,
           <<<<119>>, 7>>,
           <<<<100, 97, 121, 115>>, 6>>,
           <<<<100, 97, 121>>, 6>>,
           <<<<100>>, 6>>,
           <<<<104, 111, 117, 114, 115>>, 5>>,
           <<<<104, 111, 117, 114>>, 5>>,
           <<<<104, 114, 115>>, 5>>,
           <<<<104, 114>>, 5>>,
           <<<<104>>, 5>>,
           <<<<109, 105, 110, 117, 116, 101, 115>>, 4>>,
           <<<<109, 105, 110, 117, 116, 101>>, 4>>,
           <<<<109, 105, 110, 115>>, 4>>,
           <<<<109, 105, 110>>, 4>>,
           <<<<109>>, 4>>,
           <<<<115, 101, 99, 111, 110, 100, 115>>, 3>>,
           <<<<115, 101, 99, 111, 110, 100>>, 3>>,
           <<<<115, 101, 99, 115>>, 3>>,
           <<<<115, 101, 99>>, 3>>,
           <<<<115>>, 3>>,
           <<<<109, 105, 108, 108, 105, 115, 101, 99, 111, 110, 100, 115>>, 2>>,
           <<<<109, 105, 108, 108, 105, 115, 101, 99, 111, 110, 100>>, 2>>,
           <<<<109, 105, 108, 108, 105, 115>>, 2>>,
           <<<<109, 105, 108, 108, 105>>, 2>>,
           <<<<109, 115, 101, 99, 115>>, 2>>,
           <<<<109, 115, 101, 99>>, 2>>,
           <<<<109, 115>>, 2>>,
           <<<<109, 105, 99, 114, 111, 115, 101, 99, 111, 110, 100, 115>>, 1>>,
           <<<<109, 105, 99, 114, 111, 115, 101, 99, 111, 110, 100>>, 1>>,
           <<<<109, 105, 99, 114, 111, 115>>, 1>>,
           <<<<109, 105, 99, 114, 111>>, 1>>,
           <<<<117, 115, 101, 99, 115>>, 1>>,
           <<<<117, 115, 101, 99>>, 1>>,
           <<<<117, 115>>, 1>>,
           <<<<194, 181, 115, 101, 99, 115>>, 1>>,
           <<<<194, 181, 115, 101, 99>>, 1>>,
           <<<<194, 181, 115>>, 1>>,
           <<<<110, 97, 110, 111, 115, 101, 99, 111, 110, 100, 115>>, 0>>,
           <<<<110, 97, 110, 111, 115, 101, 99, 111, 110, 100>>, 0>>,
           <<<<110, 97, 110, 111, 115>>, 0>>,
           <<<<110, 97, 110, 111>>, 0>>,
           <<<<110, 115, 101, 99, 115>>, 0>>,
           <<<<110, 115, 101, 99>>, 0>>,
           <<<<110, 115>>, 0>>}

FIsDig(s, i) == i <= Len(s) /\ s[i] \in 48..57
FIsWs(s, i) == i <= Len(s) /\ s[i] \in {32, 9, 10, 12, 13}
FIsLab(s, i) == i <= Len(s) /\ (s[i] \in 65..90 \/ s[i] \in 97..122 \/ s[i] \in {194, 181})
RECURSIVE FCountDig(_, _)
FCountDig(s, i) == IF FIsDig(s, i) THEN 1 + FCountDig(s, i + 1) ELSE 0
RECURSIVE FCountLab(_, _)
FCountLab(s, i) == IF FIsLab(s, i) THEN 1 + FCountLab(s, i + 1) ELSE 0
RECURSIVE FSkipWs(_, _)
FSkipWs(s, i) == IF FIsWs(s, i) THEN FSkipWs(s, i + 1) ELSE i
\* the n digits starting at i as a BigInt / as a native number (n <= 9)
RECURSIVE FBig(_, _, _)
FBig(s, i, n) == IF n = 0 THEN BZero ELSE BAdd(BMulSmall(FBig(s, i, n - 1), 10), BOf(s[i + n - 1] - 48))
RECURSIVE FNat(_, _, _)
FNat(s, i, n) == IF n = 0 THEN 0 ELSE FNat(s, i, n - 1) * 10 + (s[i + n - 1] - 48)
LabelRank(w) == IF \E p \in Labels : p[1] = w THEN (CHOOSE p \in Labels : p[1] = w)[2] ELSE -1

NoUnits10 == [k \in 1..10 |-> BZero]
FBad == [ok |-> FALSE, neg |-> FALSE, u |-> NoUnits10, frank |-> -1, fnum |-> 0, fnd |-> 0]

\* " ago" (or nothing) up to the end of the text; 0 = malformed
FTail(s, i) ==
  IF i = Len(s) + 1 THEN 1
  ELSE IF FIsWs(s, i) /\ LET j == FSkipWs(s, i) IN j + 2 = Len(s) /\ s[j] = 97 /\ s[j + 1] = 103 /\ s[j + 2] = 111 THEN 2
  ELSE 0

\* HH:MM:SS[.fraction] at i (digits of any length); sets h, mi, s
FHms(s, i, st) ==
  LET nh == FCountDig(s, i)
      j1 == i + nh
      nm == FCountDig(s, j1 + 1)
      j2 == j1 + 1 + nm
      ns == FCountDig(s, j2 + 1)
      j3 == j2 + 1 + ns
      hasf == j3 <= Len(s) /\ s[j3] \in {46, 44} /\ FIsDig(s, j3 + 1)
      nf == IF hasf THEN FCountDig(s, j3 + 1) ELSE 0
      j4 == IF hasf THEN j3 + 1 + nf ELSE j3
  IN IF nh = 0 \/ nm = 0 \/ ns = 0 \/ ~(j1 <= Len(s) /\ s[j1] = 58) \/ ~(j2 <= Len(s) /\ s[j2] = 58) \/ nf > 9
        \/ st.minrank <= 5 THEN FBad
     ELSE [ok |-> TRUE, nx |-> j4,
           u |-> [st.u EXCEPT ![6] = FBig(s, i, nh), ![5] = FBig(s, j1 + 1, nm), ![4] = FBig(s, j2 + 1, ns)],
           frank |-> IF hasf THEN 3 ELSE -1, fnum |-> IF hasf THEN FNat(s, j3 + 1, nf) ELSE 0, fnd |-> nf, minrank |-> 3]

\* units from position i on; st carries what was read so far (minrank = smallest rank seen, 10 = none)
RECURSIVE FUnits(_, _, _)
FUnits(s, i, st) ==
  LET nd == FCountDig(s, i) IN
  IF nd = 0 \/ nd > 19 THEN FBad
  ELSE IF i + nd <= Len(s) /\ s[i + nd] = 58 THEN FHms(s, i, st)            \* a clock after calendar units
  ELSE LET j1 == i + nd
           hasf == j1 <= Len(s) /\ s[j1] \in {46, 44} /\ FIsDig(s, j1 + 1)
           nf == IF hasf THEN FCountDig(s, j1 + 1) ELSE 0
           j2 == FSkipWs(s, IF hasf THEN j1 + 1 + nf ELSE j1)
           nl == FCountLab(s, j2)
           rank == IF nl = 0 THEN -1 ELSE LabelRank(SubSeq(s, j2, j2 + nl - 1))
           j3 == j2 + nl
       IN IF rank < 0 \/ rank >= st.minrank \/ nf > 9 \/ (hasf /\ rank > 5) THEN FBad
          ELSE LET st2 == [st EXCEPT !.u[rank + 1] = FBig(s, i, nd), !.minrank = rank,
                                      !.frank = IF hasf THEN rank ELSE -1,
                                      !.fnum = IF hasf THEN FNat(s, j1 + 1, nf) ELSE 0, !.fnd = nf, !.nx = j3]
                   \* what follows: nothing / " ago"; or a separator and more units
                   comma == j3 <= Len(s) /\ s[j3] = 44
                   j4 == IF comma THEN j3 + 1 ELSE j3
                   j5 == FSkipWs(s, j4)
               IN IF FTail(s, j3) # 0 THEN [st2 EXCEPT !.ok = TRUE]
                  ELSE IF hasf \/ (comma /\ j5 = j4) \/ ~FIsDig(s, j5) THEN FBad   \* nothing after a fraction; ", " needs its blank
                  ELSE FUnits(s, j5, st2)

RdFriendly(s) ==
  LET sg == IF Len(s) >= 1 /\ s[1] \in {43, 45} THEN s[1] ELSE 0
      i0 == IF sg # 0 THEN 2 ELSE 1
      st0 == [ok |-> FALSE, nx |-> i0, u |-> NoUnits10, frank |-> -1, fnum |-> 0, fnd |-> 0, minrank |-> 10]
      r == FUnits(s, i0, st0)
  IN IF ~r.ok THEN FBad
     ELSE LET t == FTail(s, r.nx) IN
          IF t = 0 \/ (t = 2 /\ sg # 0) THEN FBad
          ELSE [ok |-> TRUE, neg |-> (sg = 45) \/ t = 2, u |-> r.u, frank |-> r.frank, fnum |-> r.fnum, fnd |-> r.fnd]
=======================================================================
