------------------------- MODULE ConcatCacheSim -------------------------
(* Engine B for the concatenated database (C19): TLC generates operation  *)
(* histories of ConcatCache.tla (one client; the file changes only        *)
(* between calls, so that a history is replayable against a real          *)
(* TimeZoneDatabase::from_concatenated_path) and prints each as one JSON  *)
(* line.  The harness replays it and compares every returned version and  *)
(* the path taken (hook events) with the model.                           *)
EXTENDS ConcatCache, Json

VARIABLE hist
simvars == <<vars, hist>>

Idle == \A t \in Thread : pc[t] = "idle"

SimInit ==
  /\ file \in {[mt |-> 1, z |-> zz] : zz \in [Name -> {0, 1}]}
  /\ cache = [n \in Name |-> NotCached]
  /\ clock = 0 /\ nextVer = 2
  /\ zlW = None /\ zlR = {} /\ nlW = None
  /\ names = {} /\ namesExp = -1            \* the real database is reset after construction
  /\ pc = [t \in Thread |-> "idle"] /\ arg = [t \in Thread |-> CHOOSE n \in Name : TRUE]
  /\ ret = [t \in Thread |-> 0] /\ ops = 0
  /\ seen = [t \in Thread |-> {}] /\ how = [t \in Thread |-> "none"]
  /\ hist = <<[op |-> "init", zones |-> file.z]>>

SimNext ==
  \/ \E t \in Thread, n \in Name : Start(t, n) /\ hist' = hist
  \/ \E t \in Thread : (Fast(t) \/ Slow(t) \/ ResetStart(t) \/ ResetNames(t)) /\ hist' = hist
  \/ \E t \in Thread : Finish(t) /\ hist' = Append(hist, [op |-> "get", n |-> arg[t], ret |-> ret[t], how |-> how[t]])
  \/ \E t \in Thread : ResetZones(t) /\ hist' = Append(hist, [op |-> "reset"])
  \/ \E t \in Thread : Idle /\ Avail(t) /\ hist' = Append(hist, [op |-> "avail", names |-> [n \in Name |-> IF n \in names' THEN 1 ELSE 0]])
  \/ /\ Idle /\ ops < MaxOps
     \* (rewrites that touch at most one zone, and ticks weighted up: random
     \*  simulation must reach expiry, revalidation and reload often)
     /\ \/ \E ch \in {c \in [Name -> {"keep", "new", "drop"}] : Cardinality({n \in Name : c[n] # "keep"}) <= 1} :
             RewriteFile(ch) /\ hist' = Append(hist, [op |-> "rewrite", ch |-> ch, v |-> nextVer])
        \/ RemoveFile /\ hist' = Append(hist, [op |-> "removefile"])
        \/ \E k \in 1..6 : Tick /\ hist' = Append(hist, [op |-> "tick"])

SimSpec == SimInit /\ [][SimNext]_simvars

Done == ops = MaxOps /\ Idle
Dump == Done => PrintT(<<"HIST", ToJson(hist)>>)
SimInv == CacheCoherent /\ ReturnOk /\ FreshAfterExpiry
=======================================================================
