---------------------------- MODULE AP_Round ----------------------------
(* Unbounded check (Apalache, SMT): for EVERY integer x and EVERY positive  *)
(* increment, the transcription of jiff's RoundMode::round (RoundAlg)      *)
(* returns a value that satisfies the declarative definition of rounding   *)
(* (RoundOkInt), and no neighbouring multiple does.  MC_Round.tla checks   *)
(* the same with TLC for |x| <= 130 and increments up to 13.               *)
EXTENDS Integers

VARIABLES
  \* @type: Int;
  x,
  \* @type: Int;
  inc,
  \* @type: Str;
  mode

Modes == {"ceil", "floor", "expand", "trunc",
          "half-ceil", "half-floor", "half-expand", "half-trunc", "half-even"}

Abs(i) == IF i < 0 THEN 0 - i ELSE i
Sgn(i) == IF i > 0 THEN 1 ELSE IF i < 0 THEN -1 ELSE 0
RoundOkInt(md, xx, ii, R) ==
  LET d == xx - R  c == Sgn(2 * Abs(d) - ii)  up == d < 0  dn == d > 0  m == R \div ii IN
  /\ R % ii = 0 /\ Abs(d) < ii
  /\ CASE md = "floor"  -> ~up
       [] md = "ceil"   -> ~dn
       [] md = "trunc"  -> IF xx >= 0 THEN ~up ELSE ~dn
       [] md = "expand" -> IF xx >= 0 THEN ~dn ELSE ~up
       [] md = "half-ceil"   -> c < 0 \/ (c = 0 /\ up)
       [] md = "half-floor"  -> c < 0 \/ (c = 0 /\ dn)
       [] md = "half-expand" -> c < 0 \/ (c = 0 /\ (IF xx >= 0 THEN up ELSE dn))
       [] md = "half-trunc"  -> c < 0 \/ (c = 0 /\ (IF xx >= 0 THEN dn ELSE up))
       [] OTHER              -> c < 0 \/ (c = 0 /\ m % 2 = 0)

TruncDiv(a, b) == Sgn(a) * (Abs(a) \div b)
RoundAlg(md, xx, ii) ==
  LET quot == TruncDiv(xx, ii)
      rem  == xx - quot * ii
      sign == IF rem < 0 THEN -1 ELSE 1
      tiebreaker == Abs(rem * 2)
      tie == tiebreaker = ii
      expandIsNearer == tiebreaker > ii
      q2 == CASE md = "ceil"   -> IF sign > 0 /\ rem # 0 THEN quot + 1 ELSE quot
              [] md = "floor"  -> IF sign < 0 /\ rem # 0 THEN quot - 1 ELSE quot
              [] md = "expand" -> IF rem # 0 THEN quot + sign ELSE quot
              [] md = "trunc"  -> quot
              [] md = "half-ceil"   -> IF expandIsNearer \/ (tie /\ sign > 0) THEN quot + sign ELSE quot
              [] md = "half-floor"  -> IF expandIsNearer \/ (tie /\ sign < 0) THEN quot + sign ELSE quot
              [] md = "half-expand" -> IF expandIsNearer \/ tie THEN quot + sign ELSE quot
              [] md = "half-trunc"  -> IF expandIsNearer THEN quot + sign ELSE quot
              [] OTHER              -> IF expandIsNearer \/ (tie /\ quot % 2 = 1) THEN quot + sign ELSE quot
  IN  q2 * ii

Init == x \in Int /\ inc \in Nat /\ inc >= 1 /\ mode \in Modes
Next == UNCHANGED <<x, inc, mode>>

AlgOk == RoundOkInt(mode, x, inc, RoundAlg(mode, x, inc))
Unique == \A k \in -2..2 :
            LET R == RoundAlg(mode, x, inc) + k * inc IN RoundOkInt(mode, x, inc, R) => k = 0
Inv == AlgOk /\ Unique
=======================================================================
