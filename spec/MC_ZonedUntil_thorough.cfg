SPECIFICATION Spec
CONSTANTS
  NMarks = 3
INVARIANTS UntilOk
CHECK_DEADLOCK FALSE
