SPECIFICATION Spec
CONSTANTS
  NMarks = 3
INVARIANTS UntilOk DayOk
CHECK_DEADLOCK FALSE
