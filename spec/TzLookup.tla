---------------------------- MODULE TzLookup ----------------------------
(* Abstract time zones and their *definitional* semantics.                *)
(*                                                                        *)
(* A zone is what an RFC 8536 (TZif) file or a POSIX TZ string says:      *)
(*   types : Seq(<<utoff, isdst (0/1), abbreviation>>)   (types[1] = type 0)*)
(*   trans : Seq(<<day, sod, ty>>)  transition instants (UTC, whole       *)
(*           seconds, non-decreasing) and the 1-based index of the type   *)
(*           in force from that instant on                                *)
(*   rule  : the POSIX rule of the footer / of the TZ string              *)
(*           [has |-> 0/1, std |-> <<off, abbr>>, hasdst |-> 0/1,         *)
(*            dst |-> [off, ab, start |-> dayspec, end |-> dayspec]]      *)
(*           dayspec = [k |-> "J" | "N" | "M", a, b, c, t |-> seconds]    *)
(* Semantics (RFC 8536 3.2/3.3, as jiff documents): type 0 before the     *)
(* first transition; the type of the latest transition at or before the   *)
(* instant; the footer rule from the last transition on, when there is    *)
(* one.  Instants are <<day, sod, ns>> triples (Instant.tla), so          *)
(* "changes exactly at T, not a fraction of a second early" is built in.  *)
EXTENDS Instant, FiniteSets

\* ---- POSIX rule ----------------------------------------------------------
\* epoch day of a rule date in year y
RuleDay(ds, y) ==
  CASE ds.k = "J" -> DaysBeforeYear(y) + (ds.a - 1) + (IF IsLeap(y) /\ ds.a >= 60 THEN 1 ELSE 0)
    [] ds.k = "N" -> DaysBeforeYear(y) + ds.a
    [] ds.k = "M" -> LET nth == IF ds.b = 5 THEN -1 ELSE ds.b
                         wd  == IF ds.c = 0 THEN 7 ELSE ds.c
                     IN  EpochDayOf(y, ds.a, NthWeekdayOfMonth(y, ds.a, nth, wd))

\* DST starts at wall-clock standard time, ends at wall-clock daylight time
DstStart(r, y) == AddSec(<<RuleDay(r.dst.start, y), 0, 0>>, r.dst.start.t - r.std[1])
DstEnd(r, y)   == AddSec(<<RuleDay(r.dst.end, y), 0, 0>>, r.dst.end.t - r.dst.off)

StdInfo(r) == <<r.std[1], 0, r.std[2]>>
DstInfo(r) == <<r.dst.off, 1, r.dst.ab>>

\* the six rule events around year y as <<instant, isdst>>
RuleEvents(r, y) ==
  << <<DstStart(r, y - 1), 1>>, <<DstEnd(r, y - 1), 0>>,
     <<DstStart(r, y), 1>>,     <<DstEnd(r, y), 0>>,
     <<DstStart(r, y + 1), 1>>, <<DstEnd(r, y + 1), 0>> >>

\* later of two events; on a tie the DST start wins (tzfile(5): the
\* all-year-DST idiom makes one year's end coincide with the next start)
LaterEv(e1, e2) == IF TLt(e1[1], e2[1]) THEN e2
                   ELSE IF TLt(e2[1], e1[1]) THEN e1
                   ELSE IF e1[2] = 1 THEN e1 ELSE e2
NoEv == <<<<-100000000, 0, 0>>, 0>>

RECURSIVE LatestAtOrBefore(_, _, _)
LatestAtOrBefore(evs, t, i) ==
  IF i = 0 THEN NoEv
  ELSE LET rest == LatestAtOrBefore(evs, t, i - 1) IN
       IF TLe(evs[i][1], t) THEN LaterEv(rest, evs[i]) ELSE rest

RuleInfoAt(r, t) ==
  IF r.hasdst = 0 THEN StdInfo(r)
  ELSE LET y == YearOfEpochDay(t[1])
           e == LatestAtOrBefore(RuleEvents(r, y), t, 6)
       IN  IF e[2] = 1 THEN DstInfo(r) ELSE StdInfo(r)

RuleOffsets(r) == IF r.has = 0 THEN {} ELSE IF r.hasdst = 0 THEN {r.std[1]} ELSE {r.std[1], r.dst.off}

\* rule transitions (instants where the rule's info really changes) nearest
\* to t; candidates are the events of years y-1 .. y+1
RuleChangeAt(r, e) == RuleInfoAt(r, e) # RuleInfoAt(r, AddNs(e, -1))
RuleNextAfter(r, t) ==
  LET y == YearOfEpochDay(t[1])
      evs == RuleEvents(r, y)
      C == {evs[i][1] : i \in 1..6}
      S == {x \in C : TLt(t, x) /\ RuleChangeAt(r, x)}
  IN  IF S = {} THEN <<>> ELSE CHOOSE x \in S : \A z \in S : TLe(x, z)
RulePrevBefore(r, t) ==
  LET y == YearOfEpochDay(t[1])
      evs == RuleEvents(r, y)
      C == {evs[i][1] : i \in 1..6}
      S == {x \in C : TLt(x, t) /\ RuleChangeAt(r, x)}
  IN  IF S = {} THEN <<>> ELSE CHOOSE x \in S : \A z \in S : TLe(z, x)

\* ---- transition table -------------------------------------------------------
TT(z, i) == <<z.trans[i][1], z.trans[i][2], 0>>
NTrans(z) == Len(z.trans)

\* index of the latest transition at or before t; 0 when t precedes all
RECURSIVE BSearch(_, _, _, _)
BSearch(z, t, lo, hi) ==
  IF lo = hi THEN lo
  ELSE LET mid == (lo + hi + 1) \div 2 IN
       IF TLe(TT(z, mid), t) THEN BSearch(z, t, mid, hi) ELSE BSearch(z, t, lo, mid - 1)
LastAtOrBefore(z, t) == BSearch(z, t, 0, NTrans(z))

TypeInfo(z, k) == z.types[k]

InfoAt(z, t) ==
  LET n == NTrans(z)  i == LastAtOrBefore(z, t) IN
  IF i = n /\ z.rule.has = 1 THEN RuleInfoAt(z.rule, t)
  ELSE IF i = 0 THEN TypeInfo(z, 1)
  ELSE TypeInfo(z, z.trans[i][3])

OffAt(z, t) == InfoAt(z, t)[1]

Offsets(z) == {z.types[k][1] : k \in DOMAIN z.types} \cup RuleOffsets(z.rule)

\* ---- civil -> instants ----------------------------------------------------------
\* offsets o such that the instant c - o displays civil time c
Pre(z, c) == {o \in Offsets(z) : OffAt(z, InstOfCivil(c, o)) = o}

SetMax(S) == CHOOSE x \in S : \A y \in S : y <= x
SetMin(S) == CHOOSE x \in S : \A y \in S : x <= y

\* a claimed gap (before b < after a): nothing shows c, b is in force at
\* c - a (just before the jump), a is in force at c - b (just after)
IsGapPair(z, c, b, a) == b < a /\ OffAt(z, InstOfCivil(c, a)) = b /\ OffAt(z, InstOfCivil(c, b)) = a
GapPairs(z, c) == {p \in {<<OffAt(z, InstOfCivil(c, a)), a>> : a \in Offsets(z)} : IsGapPair(z, c, p[1], p[2])}

\* <<kind, before, after>>; kind "u" | "f" | "g" | "m" (three or more
\* pre-images or no unique gap pair: outside the property's wording)
Classify(z, c) ==
  LET P == Pre(z, c) IN
  IF Cardinality(P) = 1 THEN <<"u", SetMax(P), SetMax(P)>>
  ELSE IF Cardinality(P) = 2 THEN <<"f", SetMax(P), SetMin(P)>>
  ELSE IF P = {} THEN
       LET G == GapPairs(z, c) IN
       IF Cardinality(G) = 1 THEN LET p == CHOOSE q \in G : TRUE IN <<"g", p[1], p[2]>>
       ELSE <<"m", 0, 0>>
  ELSE <<"m", 0, 0>>

NoOffset == 999999
\* offset each strategy uses; NoOffset when rejected
StrategyOffset(strategy, cl) ==
  CASE cl[1] = "u" -> cl[2]
    [] cl[1] = "g" -> (CASE strategy = "compatible" -> cl[2] [] strategy = "later" -> cl[2]
                         [] strategy = "earlier" -> cl[3] [] strategy = "reject" -> NoOffset)
    [] cl[1] = "f" -> (CASE strategy = "compatible" -> cl[2] [] strategy = "earlier" -> cl[2]
                         [] strategy = "later" -> cl[3] [] strategy = "reject" -> NoOffset)

\* ---- all transitions (C14) ---------------------------------------------------------
\* A *change* is an instant T with InfoAt(T) # InfoAt(T - 1ns).  Changes come
\* from the recorded table and, from the last table transition on, from the
\* rule.  A recorded transition that changes nothing (zic writes such no-op
\* entries) is not a change; an iterator may or may not yield it.
IsChange(z, T) == InfoAt(z, T) # InfoAt(z, AddNs(T, -1))
IsTableTime(z, T) == LET i == LastAtOrBefore(z, T) IN i > 0 /\ TT(z, i) = T

RECURSIVE NextRealFrom(_, _, _)
NextRealFrom(z, j, t) ==
  LET n == NTrans(z) IN
  IF j > n
  THEN IF z.rule.has = 0 THEN <<>>
       ELSE RuleNextAfter(z.rule, IF n > 0 /\ TLt(t, TT(z, n)) THEN TT(z, n) ELSE t)
  ELSE IF IsChange(z, TT(z, j)) THEN TT(z, j) ELSE NextRealFrom(z, j + 1, t)
\* next change strictly after t; <<>> when there is none
NextChangeAfter(z, t) == NextRealFrom(z, LastAtOrBefore(z, t) + 1, t)

\* index of the latest transition strictly before t
RECURSIVE BSearchLt(_, _, _, _)
BSearchLt(z, t, lo, hi) ==
  IF lo = hi THEN lo
  ELSE LET mid == (lo + hi + 1) \div 2 IN
       IF TLt(TT(z, mid), t) THEN BSearchLt(z, t, mid, hi) ELSE BSearchLt(z, t, lo, mid - 1)

RECURSIVE PrevRealFrom(_, _)
PrevRealFrom(z, j) ==
  IF j = 0 THEN <<>> ELSE IF IsChange(z, TT(z, j)) THEN TT(z, j) ELSE PrevRealFrom(z, j - 1)
\* previous change strictly before t
PrevChangeBefore(z, t) ==
  LET n == NTrans(z)  j == BSearchLt(z, t, 0, n) IN
  IF z.rule.has = 1 /\ j = n
  THEN LET p == RulePrevBefore(z.rule, t) IN
       IF p # <<>> /\ (n = 0 \/ TLt(TT(z, n), p)) THEN p ELSE PrevRealFrom(z, n)
  ELSE PrevRealFrom(z, j)
=======================================================================
