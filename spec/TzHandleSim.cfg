SPECIFICATION SimSpec
CONSTANTS
  Slot = {s1, s2, s3, s4}
  MaxObj = 8
  Content = {0, 1, 2}
  Len_ = 16
INVARIANTS Dump SimInv
CHECK_DEADLOCK FALSE
