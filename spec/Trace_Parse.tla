-------------------------- MODULE Trace_Parse --------------------------
(* C17: every parser, on every input, ends in Ok or Err; an Ok value is    *)
(* inside its type's range, prints, and re-parses to an equal value; an    *)
(* accepted time zone answers every query; long inputs take time           *)
(* proportional to their size.                                             *)
EXTENDS Ranges, TLC, Json, IOUtils

Rec == ndJsonDeserialize(IOEnv.TRACE)
VARIABLE l
vars == <<l>>

\* microseconds per KiB of input allowed for inputs of 4 KiB and more
MaxUsPerKb == 5000

RtWhy(rt) ==
  CASE rt = "same"          -> ""
    [] rt = "differ"        -> "accepted value prints and re-parses to a different value"
    [] rt = "print-err"     -> "accepted value cannot be printed"
    [] rt = "print-panic"   -> "printing or converting an accepted value panicked"
    [] rt = "reparse-err"   -> "the printed form of an accepted value is refused"
    [] rt = "reparse-panic" -> "re-parsing the printed form panicked"
    [] rt = "probe-panic"   -> "an accepted time zone panicked on a query"
    [] OTHER                -> "unknown round-trip status"

ParseWhy(r) ==
  IF r.st = "panic" THEN "parser panicked"
  ELSE IF r.st = "hang" THEN "parser did not terminate"
  ELSE IF r.len >= 4096 /\ r.ms_per_kb > MaxUsPerKb THEN "work not proportional to the input size"
  ELSE IF r.st = "err" THEN ""
  ELSE IF r.st # "ok" THEN "unknown status"
  ELSE IF r.rt = "print-panic" \/ r.rt = "probe-panic" THEN RtWhy(r.rt)
  ELSE LET w == ValueWhy(r.kind, r.val) IN IF w # "" THEN w ELSE RtWhy(r.rt)

TzifWhy(r) ==
  IF r.st = "panic" THEN "TimeZone::tzif panicked"
  ELSE IF r.st_static = "panic" THEN "the jiff-static copy of the TZif reader panicked"
  ELSE IF r.st = "ok" /\ r.rt # "same" THEN RtWhy(r.rt)
  ELSE IF r.st = "ok" /\ r.val.offs_ok # 1 THEN "accepted TZif reports an offset outside Offset::MIN..=MAX"
  ELSE IF r.st # r.st_static THEN "jiff and its jiff-static copy disagree on accepting the TZif data"
  ELSE ""

\* a database over a (mutated) concatenated tzdata file answers or refuses, and every zone it hands out answers queries
ConcatWhy(r) ==
  IF r.st = "panic" THEN "the concatenated database panicked on a mutated file"
  ELSE IF r.st = "ok" /\ r.probes_ok # 1 THEN "a zone from a mutated concatenated file panicked on a query"
  ELSE IF r.cls = "concat-valid" /\ ~(r.st = "ok" /\ r.found >= 6) THEN "the valid concatenated file was not served"
  ELSE ""

Why(r) ==
  CASE r.op = "parse" -> ParseWhy(r)
    [] r.op = "concat" -> ConcatWhy(r)
    [] r.op = "tzif"  -> TzifWhy(r)
    [] OTHER          -> "unknown op"

Init == l = 1
Next == /\ l <= Len(Rec)
        /\ LET w == Why(Rec[l]) IN IF w = "" THEN TRUE ELSE PrintT("MISMATCH|" \o ToString(l) \o "|" \o w)
        /\ l' = l + 1
Spec == Init /\ [][Next]_vars
Consumed == TLCGet("stats").diameter = Len(Rec) + 1
=======================================================================
