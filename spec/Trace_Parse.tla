-------------------------- MODULE Trace_Parse --------------------------
(* C17: every parser, on every input, ends in Ok or Err; an Ok value is    *)
(* inside its type's range, prints, and re-parses to an equal value; an    *)
(* accepted time zone answers every query; long inputs take time           *)
(* proportional to their size.                                             *)
EXTENDS CivilArith, TLC, Json, IOUtils

Rec == ndJsonDeserialize(IOEnv.TRACE)
VARIABLE l
vars == <<l>>

\* microseconds per KiB of input allowed for inputs of 4 KiB and more
MaxUsPerKb == 5000

RtWhy(rt) ==
  CASE rt = "same"          -> ""
    [] rt = "differ"        -> "accepted value prints and re-parses to a different value"
    [] rt = "print-err"     -> "accepted value cannot be printed"
    [] rt = "print-panic"   -> "printing or converting an accepted value panicked"
    [] rt = "reparse-err"   -> "the printed form of an accepted value is refused"
    [] rt = "reparse-panic" -> "re-parsing the printed form panicked"
    [] rt = "probe-panic"   -> "an accepted time zone panicked on a query"
    [] OTHER                -> "unknown round-trip status"

InRange(lo, x, hi) == lo <= x /\ x <= hi
\* strptime fields; -100000 = absent
TmField(x, lo, hi) == x = -100000 \/ InRange(lo, x, hi)
TmOk(t) == /\ TmField(t[1], YearMin, YearMax) /\ TmField(t[2], 1, 12) /\ TmField(t[3], 1, 31)
           /\ TmField(t[4], 0, 23) /\ TmField(t[5], 0, 59) /\ TmField(t[6], 0, 59) /\ TmField(t[7], 0, 999999999)
           /\ TmField(t[8], OffMin, OffMax) /\ TmField(t[9], 1, 366) /\ TmField(t[10], YearMin, YearMax)
           /\ TmField(t[11], 1, 53) /\ TmField(t[12], 0, 53) /\ TmField(t[13], 0, 53)

SpanOf(u) == [y |-> BToInt(u[1]), mo |-> BToInt(u[2]), w |-> BToInt(u[3]), d |-> BToInt(u[4]), h |-> BToInt(u[5]),
              mi |-> u[6], s |-> u[7], ms |-> u[8], us |-> u[9], ns |-> u[10]]
SpanSane(u) == /\ \A i \in 1..5 : BFitsInt(u[i])
               /\ SpanInLimits(SpanOf(u))
               \* one sign for every unit
               /\ ~(\E i, j \in 1..10 : u[i].s = 1 /\ u[j].s = -1)

ValueWhy(r) ==
  LET v == r.val IN
  CASE r.kind = "ts" ->
         (IF ~ApiSignsOk(v.sec, v.ns) \/ ~SecFits(FloorSec(v.sec, v.ns)) THEN "timestamp fields malformed"
          ELSE IF ~InTsRange(InstOfApi(v.sec, v.ns)) THEN "timestamp outside Timestamp::MIN..=MAX" ELSE "")
    [] r.kind = "zoned" ->
         (IF ~ApiSignsOk(v.sec, v.ns) \/ ~SecFits(FloorSec(v.sec, v.ns)) THEN "timestamp fields malformed"
          ELSE LET t == InstOfApi(v.sec, v.ns) IN
               IF ~InTsRange(t) THEN "zoned timestamp outside Timestamp::MIN..=MAX"
               ELSE IF ~InRange(OffMin, v.f[8], OffMax) THEN "offset outside Offset::MIN..=MAX"
               ELSE IF SubSeq(v.f, 1, 7) # FieldsOf(CivilOfInst(t, v.f[8])) THEN "civil fields are not timestamp + offset"
               ELSE "")
    [] r.kind \in {"dt", "pieces"} -> (IF ValidFields(v.f) THEN "" ELSE "datetime fields out of range")
    [] r.kind = "date" -> (IF ValidDate(v.f[1], v.f[2], v.f[3]) THEN "" ELSE "date out of range")
    [] r.kind = "time" -> (IF InRange(0, v.f[1], 23) /\ InRange(0, v.f[2], 59) /\ InRange(0, v.f[3], 59) /\ InRange(0, v.f[4], 999999999)
                           THEN "" ELSE "time out of range")
    [] r.kind = "span" -> (IF SpanSane(v.u) THEN "" ELSE "span beyond its unit limits or of mixed sign")
    [] r.kind = "sd" -> (IF v.ns > -NsPerSec /\ v.ns < NsPerSec /\ ~(v.sec.s = 1 /\ v.ns < 0) /\ ~(v.sec.s = -1 /\ v.ns > 0)
                         THEN "" ELSE "duration seconds and nanoseconds malformed")
    [] r.kind = "tm" -> (IF ~TmOk(v.tm) THEN "broken-down time field out of range"
                         ELSE IF v.dt # <<>> /\ ~ValidFields(v.dt) THEN "datetime fields out of range" ELSE "")
    \* (whether the transitions of a zone built from hostile data come out in order is
    \* recorded in the event but not demanded: the property asks for answers, not for sense)
    [] r.kind = "tz" -> (IF v.offs_ok # 1 THEN "accepted time zone reports an offset outside Offset::MIN..=MAX" ELSE "")
    [] OTHER -> "unknown value kind"

ParseWhy(r) ==
  IF r.st = "panic" THEN "parser panicked"
  ELSE IF r.st = "hang" THEN "parser did not terminate"
  ELSE IF r.len >= 4096 /\ r.ms_per_kb > MaxUsPerKb THEN "work not proportional to the input size"
  ELSE IF r.st = "err" THEN ""
  ELSE IF r.st # "ok" THEN "unknown status"
  ELSE IF r.rt = "print-panic" \/ r.rt = "probe-panic" THEN RtWhy(r.rt)
  ELSE LET w == ValueWhy(r) IN IF w # "" THEN w ELSE RtWhy(r.rt)

TzifWhy(r) ==
  IF r.st = "panic" THEN "TimeZone::tzif panicked"
  ELSE IF r.st_static = "panic" THEN "the jiff-static copy of the TZif reader panicked"
  ELSE IF r.st = "ok" /\ r.rt # "same" THEN RtWhy(r.rt)
  ELSE IF r.st = "ok" /\ r.val.offs_ok # 1 THEN "accepted TZif reports an offset outside Offset::MIN..=MAX"
  ELSE IF r.st # r.st_static THEN "jiff and its jiff-static copy disagree on accepting the TZif data"
  ELSE ""

Why(r) ==
  CASE r.op = "parse" -> ParseWhy(r)
    [] r.op = "tzif"  -> TzifWhy(r)
    [] OTHER          -> "unknown op"

Init == l = 1
Next == /\ l <= Len(Rec)
        /\ LET w == Why(Rec[l]) IN IF w = "" THEN TRUE ELSE PrintT("MISMATCH|" \o ToString(l) \o "|" \o w)
        /\ l' = l + 1
Spec == Init /\ [][Next]_vars
Consumed == TLCGet("stats").diameter = Len(Rec) + 1
=======================================================================
