-------------------------- MODULE CivilArith --------------------------
(* Civil date / time / datetime arithmetic as documented:                 *)
(*  - years and months first (Euclidean month overflow, day clamped to    *)
(*    the target month's length),                                          *)
(*  - then weeks and days on the day count,                                *)
(*  - then time units carried across midnight in 24-hour days,             *)
(* everything exact (BigInt for the time units, whose legal magnitudes     *)
(* reach 2^63 ns).  A span is the record                                   *)
(*   [y, mo, w, d, h : native ints;  mi, s, ms, us, ns : BigInts]          *)
(* with all non-zero units of one sign.                                    *)
EXTENDS Instant

B1E3 == BOf(1000)
B1E6 == BOf(1000000)
B60E9 == BMulE9(BOf(60))
B3600E9 == BMulE9(BOf(3600))
BDayNs == BMulE9(BOf(86400))

\* hours-and-smaller units of a span as exact nanoseconds
SpanTimeNs(sp) ==
  BAdd(BMul(BOf(sp.h), B3600E9),
  BAdd(BMul(sp.mi, B60E9),
  BAdd(BMulE9(sp.s),
  BAdd(BMul(sp.ms, B1E6),
  BAdd(BMul(sp.us, B1E3), sp.ns)))))

\* documented limits of the Span units (absolute values)
LimY == 19998      LimMo == 239976      LimW == 1043497      LimD == 7304484      LimH == 175307616
LimMi == BMul(BOf(175307616), BOf(60))
LimS == BMul(LimMi, BOf(60))
LimMs == BMul(LimS, BOf(1000))
LimUs == BMul(LimMs, BOf(1000))
LimNs == [s |-> 1, m |-> <<5807, 5477, 368, 3372, 922>>]      \* i64::MAX
AbsI(i) == IF i < 0 THEN 0 - i ELSE i
SpanInLimits(sp) ==
  /\ AbsI(sp.y) <= LimY /\ AbsI(sp.mo) <= LimMo /\ AbsI(sp.w) <= LimW /\ AbsI(sp.d) <= LimD /\ AbsI(sp.h) <= LimH
  /\ BLe(BAbs(sp.mi), LimMi) /\ BLe(BAbs(sp.s), LimS) /\ BLe(BAbs(sp.ms), LimMs)
  /\ BLe(BAbs(sp.us), LimUs) /\ BLe(BAbs(sp.ns), LimNs)

SpanNeg(sp) == [y |-> 0 - sp.y, mo |-> 0 - sp.mo, w |-> 0 - sp.w, d |-> 0 - sp.d, h |-> 0 - sp.h,
                mi |-> BNeg(sp.mi), s |-> BNeg(sp.s), ms |-> BNeg(sp.ms), us |-> BNeg(sp.us), ns |-> BNeg(sp.ns)]
SpanHasCalendar(sp) == sp.y # 0 \/ sp.mo # 0 \/ sp.w # 0 \/ sp.d # 0
SpanSign(sp) ==
  LET ints == {sp.y, sp.mo, sp.w, sp.d, sp.h}
      bigs == {sp.mi.s, sp.s.s, sp.ms.s, sp.us.s, sp.ns.s}
  IN IF (\E i \in ints : i > 0) \/ 1 \in bigs THEN 1
     ELSE IF (\E i \in ints : i < 0) \/ -1 \in bigs THEN -1 ELSE 0

\* a signed nanosecond count as a floor-normalised duration
\* <<huge, days, sod, ns>>; huge = 1 when the day count is beyond +-10^8
\* (every result is then out of range; days holds only the sign)
DurOfNs(T) ==
  LET d1 == BDivFloor(T, 10000)
      d2 == BDivFloor(d1[1], 100000)
      d3 == BDivFloor(d2[1], 86400)
  IN  IF Len(d3[1].m) > 2 THEN <<1, d3[1].s, 0, 0>>
      ELSE <<0, BToInt(d3[1]), d3[2], d2[2] * 10000 + d1[2]>>
IsHuge(dur) == dur[1] = 1

TodNs(sod, ns) == BAdd(BMulE9(BOf(sod)), BOf(ns))

\* ---- years and months -----------------------------------------------------
\* <<y, m, d>> + years + months with the day clamped; <<>> when the year
\* leaves -9999..9999
AddYM(y, m, d, dy, dm) ==
  LET total == y * 12 + (m - 1) + dy * 12 + dm
      ny == total \div 12
      nm == (total % 12) + 1
  IN  IF ny < YearMin \/ ny > YearMax THEN <<>>
      ELSE <<ny, nm, IF d <= DaysInMonth(ny, nm) THEN d ELSE DaysInMonth(ny, nm)>>

\* whole days in a nanosecond count, truncated toward zero: <<huge, days>>
WholeDaysTrunc(T) ==
  LET a == DurOfNs(BAbs(T)) IN <<a[1], T.s * a[2]>>

\* ---- Date + span:  <<epoch day>> of the result, or <<>> (error) ---------------
DateAddSpan(y, m, d, sp) ==
  LET ym == AddYM(y, m, d, sp.y, sp.mo) IN
  IF ym = <<>> THEN <<>>
  ELSE LET wd == WholeDaysTrunc(SpanTimeNs(sp)) IN
       IF wd[1] = 1 THEN <<>>
       ELSE LET n == EpochDayOf(ym[1], ym[2], ym[3]) + 7 * sp.w + sp.d + wd[2] IN
            IF n \in EpochDayMin..EpochDayMax THEN <<n>> ELSE <<>>

\* Date + absolute duration (T nanoseconds): whole days only
DateAddNs(y, m, d, T) ==
  LET wd == WholeDaysTrunc(T) IN
  IF wd[1] = 1 THEN <<>>
  ELSE LET n == EpochDayOf(y, m, d) + wd[2] IN
       IF n \in EpochDayMin..EpochDayMax THEN <<n>> ELSE <<>>

\* ---- DateTime + span: civil triple of the result, or <<>> ----------------------
DateTimeAddSpan(c, sp) ==
  LET dt == DateOfEpochDay(c[1])
      ym == AddYM(dt[1], dt[2], dt[3], sp.y, sp.mo)
  IN  IF ym = <<>> THEN <<>>
      ELSE LET n1 == EpochDayOf(ym[1], ym[2], ym[3]) + 7 * sp.w + sp.d
               tot == DurOfNs(BAdd(TodNs(c[2], c[3]), SpanTimeNs(sp)))
           IN  IF IsHuge(tot) THEN <<>>
               ELSE LET r == <<n1 + tot[2], tot[3], tot[4]>> IN
                    IF r[1] \in EpochDayMin..EpochDayMax THEN r ELSE <<>>
DateTimeAddNs(c, T) ==
  LET tot == DurOfNs(BAdd(TodNs(c[2], c[3]), T)) IN
  IF IsHuge(tot) THEN <<>>
  ELSE LET r == <<c[1] + tot[2], tot[3], tot[4]>> IN
       IF r[1] \in EpochDayMin..EpochDayMax THEN r ELSE <<>>

\* ---- clock time ------------------------------------------------------------------
\* exact (tod + T) modulo 24 hours, as <<sod, ns>>
TimeWrapNs(sod, ns, T) ==
  LET d1 == BDivFloor(T, 10000)  d2 == BDivFloor(d1[1], 100000)  d3 == BDivFloor(d2[1], 86400)
      \* T mod 24h = <<d3[2] seconds, d2[2]*10^4 + d1[2] ns>>
      t2 == NormT(0, sod + d3[2], ns + d2[2] * 10000 + d1[2])
  IN  <<t2[2], t2[3]>>
\* checked: <<sod, ns>> or <<>> when the result leaves the day
TimeCheckedNs(sod, ns, T) ==
  LET tot == DurOfNs(BAdd(TodNs(sod, ns), T)) IN
  IF IsHuge(tot) \/ tot[2] # 0 THEN <<>> ELSE <<tot[3], tot[4]>>
TimeMax == <<86399, 999999999>>
TimeMin == <<0, 0>>
=======================================================================
