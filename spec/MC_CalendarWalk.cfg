SPECIFICATION Spec
INVARIANTS ClosedFormsAgree Anchors NthOfMonthAgree NthFromDayAgree
CHECK_DEADLOCK FALSE
