----------------------------- MODULE Zoned -----------------------------
(* Zoned datetimes: a value is an instant in a zone; its offset and civil  *)
(* datetime are *derived* (WF).  Every public operation that yields a      *)
(* Zoned is specified here from the zone semantics of TzLookup.tla and the  *)
(* civil arithmetic of CivilArith.tla:                                      *)
(*   add      = calendar units on the wall clock (compatible resolution),   *)
(*              then hours-and-smaller as exact elapsed time                *)
(*   startOfDay = first instant whose civil date is that day                *)
(*   until    = Temporal's DifferenceZonedDateTime (day correction loop)    *)
(*   round    = civil rounding + prefer-offset re-resolution; day rounding  *)
(*              by the elapsed fraction of the day's real length            *)
EXTENDS TzLookup, CivilArith, Round

\* ---- well-formedness (C13) ---------------------------------------------------
\* the four components of a Zoned agree with its zone
WF(z, t, off, civ) == off = OffAt(z, t) /\ civ = FieldsOf(CivilOfInst(t, off))

CivilAt(z, t) == CivilOfInst(t, OffAt(z, t))

\* ---- elapsed time ---------------------------------------------------------------
\* instant + exact nanoseconds; <<>> when it leaves the Timestamp range
InstPlusNs(t, T) ==
  LET d == DurOfNs(T) IN
  IF IsHuge(d) THEN <<>>
  ELSE LET r == NormT(t[1] + d[2], t[2] + d[3], t[3] + d[4]) IN
       IF InTsRange(r) THEN r ELSE <<>>

\* exact b - a in nanoseconds (BigInt)
InstDiffNs(a, b) ==
  BAdd(BMul(BOf(b[1] - a[1]), BDayNs), BSub(TodNs(b[2], b[3]), TodNs(a[2], a[3])))

\* ---- civil -> instant with the compatible strategy ----------------------------------
Settled(z, c) == Classify(z, c)[1] # "m"
Compat(z, c) ==
  LET cl == Classify(z, c) IN
  IF cl[1] = "m" THEN <<>>       \* three or more pre-images: outside the wording
  ELSE LET t == InstOfCivil(c, StrategyOffset("compatible", cl)) IN
       IF InTsRange(t) THEN t ELSE <<>>

CalPart(sp) == [sp EXCEPT !.h = 0, !.mi = BZero, !.s = BZero, !.ms = BZero, !.us = BZero, !.ns = BZero]

\* the civil datetime the calendar units lead to (<<>> = out of range)
ZAddCivil(z, t, sp) == DateTimeAddSpan(CivilAt(z, t), CalPart(sp))

\* Zoned + span: instant of the result, <<>> = error
ZAdd(z, t, sp) ==
  IF ~SpanHasCalendar(sp) THEN InstPlusNs(t, SpanTimeNs(sp))
  ELSE LET c2 == ZAddCivil(z, t, sp) IN
       IF c2 = <<>> THEN <<>>
       ELSE LET t2 == Compat(z, c2) IN
            IF t2 = <<>> THEN <<>> ELSE InstPlusNs(t2, SpanTimeNs(sp))
ZAddSettled(z, t, sp) ==
  ~SpanHasCalendar(sp) \/ LET c2 == ZAddCivil(z, t, sp) IN c2 = <<>> \/ Settled(z, c2)

\* ---- start of day: the first instant whose civil date is the day ---------------------
\* the next instant at which the *offset* changes (a recorded transition may change the DST flag or the
\* abbreviation only)
RECURSIVE NextOffChange(_, _)
NextOffChange(z, t) ==
  LET T == NextChangeAfter(z, t) IN
  IF T = <<>> THEN <<>> ELSE IF OffAt(z, T) # OffAt(z, AddNs(T, -1)) THEN T ELSE NextOffChange(z, T)
StartOfDayC(z, day) ==
  LET c0 == <<day, 0, 0>>  cl == Classify(z, c0) IN
  IF cl[1] = "g"
  THEN \* midnight does not exist: the day starts at the transition that skips it
       NextOffChange(z, InstOfCivil(c0, cl[3]))
  ELSE InstOfCivil(c0, cl[2])          \* unambiguous, or the earlier of a fold
\* settled: midnight has at most two pre-images and at most one change of offset lies within a day of it
\* (the wording "first instant whose civil date is that day" is then decided by that one transition)
StartSettled(z, day) ==
  LET c0 == <<day, 0, 0>>  cl == Classify(z, c0)
      lo == <<day - 2, 0, 0>>  hi == <<day + 2, 0, 0>>
      T == NextOffChange(z, lo)
  IN /\ cl[1] # "m"
     /\ (T = <<>> \/ TLt(hi, T) \/ LET T2 == NextOffChange(z, T) IN T2 = <<>> \/ TLt(hi, T2))
StartOfDay(z, t) ==
  LET r == StartOfDayC(z, CivilAt(z, t)[1]) IN
  IF r # <<>> /\ InTsRange(r) THEN r ELSE <<>>

\* last instant of a civil day: civil c = 23:59:59.999999999 of the day
EndOfDayC(z, c) ==
  LET cl == Classify(z, c)
      o == IF cl[1] = "g" THEN cl[3] ELSE IF cl[1] = "f" THEN cl[3] ELSE cl[2]
      t == InstOfCivil(c, o)
  IN  IF InTsRange(t) THEN t ELSE <<>>

\* ---- until (largest >= day): Temporal's DifferenceZonedDateTime ---------------------
Sign3(a, b) == IF TLt(a, b) THEN 1 ELSE IF TLt(b, a) THEN -1 ELSE 0
\* intermediate instant for day correction dc: the civil datetime (day of b
\* minus dc days, time of day of a) resolved compatibly -- or a itself when
\* that is a's own civil datetime (no whole day in between)
Interm(z, a, ca, cb, sign, dc) ==
  IF cb[1] - dc * sign = ca[1] THEN a ELSE Compat(z, <<cb[1] - dc * sign, ca[2], ca[3]>>)
IntermOk(z, a, ca, cb, b, sign, dc) ==
  LET i == Interm(z, a, ca, cb, sign, dc) IN i # <<>> /\ Sign3(i, b) # 0 - sign
\* first correction in dc0..maxdc that does not overshoot; -1 when none
DayCorr(z, a, ca, cb, b, sign) ==
  LET todLt(p, q) == p[2] < q[2] \/ (p[2] = q[2] /\ p[3] < q[3])
      dc0 == IF (sign > 0 /\ todLt(cb, ca)) \/ (sign < 0 /\ todLt(ca, cb)) THEN 1 ELSE 0
      maxdc == IF sign > 0 THEN 2 ELSE 1
      S == {dc \in dc0..maxdc : IntermOk(z, a, ca, cb, b, sign, dc)}
      least == CHOOSE dc \in S : \A e \in S : dc <= e
      \* a candidate day whose civil datetime has three or more pre-images leaves the search unsettled
      settledUpTo(k) == \A dc \in dc0..k : cb[1] - dc * sign = ca[1] \/ Settled(z, <<cb[1] - dc * sign, ca[2], ca[3]>>)
  IN  IF S = {} THEN -1 ELSE IF settledUpTo(least) THEN least ELSE -1
=======================================================================
