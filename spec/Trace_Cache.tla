--------------------------- MODULE Trace_Cache ---------------------------
(* Engine A for C19: is a recorded concurrent execution of the real       *)
(* zoneinfo database a behaviour of TzdbCache.tla?                        *)
(*                                                                        *)
(* The hooks (cfg jiff_verif) emit one event per critical section, with   *)
(* the sequence number taken while jiff's own lock is still held; the     *)
(* harness adds start/ret events of each call and start/end markers       *)
(* around each file operation of the writer thread.  Each event must be   *)
(* explained by the model action of the same critical section *with the   *)
(* logged observations* (cached? fresh? found? refreshed? which slow      *)
(* path? which version was returned?).  A file operation takes effect at  *)
(* an unknown moment between its two markers: the trace spec may fire the *)
(* model's environment action silently anywhere in that window.           *)
(*                                                                        *)
(* Acceptance: TLC finds a state with every event consumed (reported as   *)
(* the "violation" of NotAccepted).  Rejection: TLC exhausts the search;  *)
(* the furthest event reached is kept in TLCGet(1).                       *)
EXTENDS TzdbCache, Json, IOUtils

Rec == ndJsonDeserialize(IOEnv.TRACE)

VARIABLES l,        \* next event
          pend,     \* file operations between their start and end marker: set of <<kind, name, ver>>
          win,      \* [Thread -> states of the queried file seen since "slow_begin"] ({} = not in the section)
          lbase,    \* [Thread -> directory listing at "names_w_begin"]
          ltouch,   \* [Thread -> names whose presence changed since "names_w_begin"]
          lon       \* [Thread -> inside the names write section?]
tvars == <<vars, l, pend, win, lbase, ltouch, lon>>
wvars == <<win, lbase, ltouch, lon>>

Ev == Rec[l]
Is(k) == l <= Len(Rec) /\ Ev.ev = k
Adv == l' = l + 1

\* Rec[1] = [ev |-> "init", disk |-> [a |-> ver, ...]]; the real database has
\* been reset after construction, so listing and cache start empty/expired
TInit ==
  /\ disk = [n \in Name |-> IF Rec[1].disk[n] > 0 THEN [ver |-> Rec[1].disk[n], mt |-> Rec[1].disk[n]] ELSE Absent]
  /\ names = {} /\ namesExp = -1
  /\ cache = [n \in Name |-> NotCached]
  /\ clock = 0 /\ nextVer = 2
  /\ zlW = None /\ zlR = {} /\ nlW = None /\ nlR = {}
  /\ pc = [t \in Thread |-> "idle"] /\ arg = [t \in Thread |-> CHOOSE n \in Name : TRUE]
  /\ ret = [t \in Thread |-> 0] /\ info = [t \in Thread |-> FALSE]
  /\ ops = 0
  /\ seen = [t \in Thread |-> {}] /\ how = [t \in Thread |-> "none"]
  /\ l = 2 /\ pend = {}
  /\ win = [t \in Thread |-> {}] /\ lbase = [t \in Thread |-> {}]
  /\ ltouch = [t \in Thread |-> {}] /\ lon = [t \in Thread |-> FALSE]
  /\ TLCSet(1, 2)

\* ---- events of a lookup ------------------------------------------------------
TStart == Is("start") /\ Start(Ev.t, Ev.n) /\ Adv /\ UNCHANGED <<pend, wvars>>
TFast ==
  /\ Is("fast") /\ pc[Ev.t] = "fast"
  /\ LET c == cache[arg[Ev.t]] IN
       /\ (Ev.cached = 1) = (c.ver > 0)
       /\ (Ev.cached = 1) => ((Ev.fresh = 1) = ~Expired(c.exp))
  /\ Fast(Ev.t) /\ Adv /\ UNCHANGED <<pend, wvars>>
TNamesR ==
  /\ Is("names_r") /\ (Ev.found = 1) = (arg[Ev.t] \in names)
  /\ NamesR(Ev.t) /\ Adv /\ UNCHANGED <<pend, wvars>>
\* the write-locked sections do I/O: they observe the disk at some moment
\* between their begin event and their outcome event
TNamesWBegin ==
  /\ Is("names_w_begin") /\ pc[Ev.t] = "names_w" /\ CanWrite(nlW, nlR)
  /\ lbase' = [lbase EXCEPT ![Ev.t] = OnDisk] /\ ltouch' = [ltouch EXCEPT ![Ev.t] = {}]
  /\ lon' = [lon EXCEPT ![Ev.t] = TRUE]
  /\ Adv /\ UNCHANGED <<vars, pend, win>>
TNamesW ==
  /\ Is("names_w") /\ lon[Ev.t] /\ (Ev.refreshed = 1) = Expired(namesExp)
  /\ \E X \in SUBSET ltouch[Ev.t] : NamesWWith(Ev.t, (lbase[Ev.t] \ ltouch[Ev.t]) \cup X)
  /\ (Ev.found = 1) = (arg[Ev.t] \in names')
  /\ lon' = [lon EXCEPT ![Ev.t] = FALSE]
  /\ Adv /\ UNCHANGED <<pend, win, lbase, ltouch>>
TSlowBegin ==
  /\ Is("slow_begin") /\ pc[Ev.t] = "slow" /\ CanWrite(zlW, zlR)
  /\ win' = [win EXCEPT ![Ev.t] = {disk[arg[Ev.t]]}]
  /\ Adv /\ UNCHANGED <<vars, pend, lbase, ltouch, lon>>
TSlow ==
  /\ Is("slow") /\ win[Ev.t] # {}
  /\ \E d \in win[Ev.t] : SlowWith(Ev.t, d)
  /\ how'[Ev.t] = Ev.kind
  /\ win' = [win EXCEPT ![Ev.t] = {}]
  /\ Adv /\ UNCHANGED <<pend, lbase, ltouch, lon>>
TRet ==
  /\ Is("ret") /\ pc[Ev.t] = "done" /\ ret[Ev.t] = Ev.ver
  /\ Finish(Ev.t) /\ Adv /\ UNCHANGED <<pend, wvars>>
\* available(): begin / outcome events of its one critical section; the outcome event lists the names returned
TAvailBegin ==
  /\ Is("names_avail_begin") /\ pc[Ev.t] = "idle" /\ ~lon[Ev.t] /\ CanWrite(nlW, nlR)
  /\ lbase' = [lbase EXCEPT ![Ev.t] = OnDisk] /\ ltouch' = [ltouch EXCEPT ![Ev.t] = {}]
  /\ lon' = [lon EXCEPT ![Ev.t] = TRUE]
  /\ Adv /\ UNCHANGED <<vars, pend, win>>
TAvail ==
  /\ Is("names_avail") /\ lon[Ev.t] /\ (Ev.refreshed = 1) = Expired(namesExp)
  /\ \E X \in SUBSET ltouch[Ev.t] : AvailWith(Ev.t, (lbase[Ev.t] \ ltouch[Ev.t]) \cup X)
  /\ names' = {n \in Name : Ev.names[n] = 1}
  /\ lon' = [lon EXCEPT ![Ev.t] = FALSE]
  /\ Adv /\ UNCHANGED <<pend, win, lbase, ltouch>>
\* reset: one event when the listing is cleared (under the names lock, with
\* the zones lock already held), one when the zones are cleared
TNamesReset ==
  /\ Is("names_reset") /\ pc[Ev.t] = "idle" /\ CanWrite(zlW, zlR) /\ CanWrite(nlW, nlR)
  /\ names' = {} /\ namesExp' = -1
  /\ zlW' = Ev.t /\ pc' = [pc EXCEPT ![Ev.t] = "reset_zones"] /\ ops' = ops + 1
  /\ UNCHANGED <<disk, cache, clock, nextVer, zlR, nlW, nlR, arg, ret, info, seen, how>>
  /\ Adv /\ UNCHANGED <<pend, wvars>>
TReset ==
  /\ Is("reset") /\ ResetZones(Ev.t)
  /\ Adv /\ UNCHANGED <<pend, wvars>>

\* ---- the writer thread and the clock ---------------------------------------------
TEnvStart == /\ Is("env_start") /\ pend' = pend \cup {<<Ev.kind, Ev.n, Ev.ver>>} /\ Adv /\ UNCHANGED <<vars, wvars>>
\* the end marker can only be consumed once the operation has taken effect
TEnvEnd == /\ Is("env_end") /\ <<Ev.kind, Ev.n, Ev.ver>> \notin pend /\ Adv /\ UNCHANGED <<vars, pend, wvars>>
\* silent: a pending file operation takes effect (versions come from the log)
Apply(p) ==
  /\ p \in pend /\ pend' = pend \ {p}
  /\ LET nd == IF p[1] = "remove" THEN Absent ELSE [ver |-> p[3], mt |-> p[3]] IN
     /\ disk' = [disk EXCEPT ![p[2]] = nd]
     /\ win' = [t \in Thread |-> IF win[t] # {} /\ arg[t] = p[2] THEN win[t] \cup {nd} ELSE win[t]]
  /\ ltouch' = [t \in Thread |-> IF lon[t] THEN ltouch[t] \cup {p[2]} ELSE ltouch[t]]
  /\ seen' = Note(p[2], IF p[1] = "remove" THEN 0 ELSE p[3])
  /\ nextVer' = IF p[3] >= nextVer THEN p[3] + 1 ELSE nextVer
  /\ UNCHANGED <<names, namesExp, cache, clock, zlW, zlR, nlW, nlR, pc, arg, ret, info, ops, how, l, lbase, lon>>
TTick == /\ Is("tick") /\ clock' = clock + 1 /\ Adv
         /\ UNCHANGED <<disk, names, namesExp, cache, nextVer, zlW, zlR, nlW, nlR, pc, arg, ret, info, ops, seen, how, pend, wvars>>

TNext == TStart \/ TFast \/ TNamesR \/ TNamesWBegin \/ TNamesW \/ TAvailBegin \/ TAvail \/ TSlowBegin \/ TSlow \/ TRet \/ TNamesReset \/ TReset
         \/ TEnvStart \/ TEnvEnd \/ TTick \/ (\E p \in pend : Apply(p))
TSpec == TInit /\ [][TNext]_tvars

\* the model's own invariants are evaluated along the recorded execution too
TInv == CacheCoherent /\ ReturnOk /\ FreshAfterExpiry

NotAccepted == l <= Len(Rec)
\* remember how far any explored path got (for diagnosing a rejection)
Progressed == (IF l > TLCGet(1) THEN TLCSet(1, l) ELSE TRUE)
Report == PrintT(<<"FURTHEST", TLCGet(1), Len(Rec)>>)
=======================================================================
