--------------------------- MODULE ConcatCache ---------------------------
(* The cache of jiff's concatenated ("Android tzdata") time zone database  *)
(* (src/tz/db/concatenated/enabled.rs), one action per critical section:   *)
(*                                                                         *)
(*   Database::get(q):                                                     *)
(*     Fast   zones.read():  cached and not expired -> return clone        *)
(*     Slow   zones.write(): cached -> revalidate by the mtime of THE file  *)
(*                           (reuse and extend) or re-read the zone from   *)
(*                           it (absent or unreadable: return None and     *)
(*                           KEEP the stale entry); not cached -> read and *)
(*                           insert                                         *)
(*   Database::reset():  zones.write() { names.write() { clear }; clear }  *)
(*   Database::available(): names.write(): re-read the names from the file *)
(*                          if THEIR ttl expired (an unreadable file keeps *)
(*                          the old names but restarts the ttl), return    *)
(*                          them                                           *)
(*   environment:        RewriteFile (new mtime; any zones added, removed  *)
(*                       or replaced), RemoveFile, Tick                     *)
(*                                                                         *)
(* Unlike the zoneinfo directory there is one file: its mtime stands for   *)
(* every zone in it, and there is no name index on the lookup path (the    *)
(* index inside the file is read under the zones lock).  A zone's content  *)
(* is a version number > 0; 0 = not in the file.  Staleness within the ttl *)
(* is the documented design and is allowed.                                *)
EXTENDS Integers, FiniteSets, Sequences, TLC

CONSTANTS Thread, Name, MaxVer, MaxClock, TTL, MaxOps

VARIABLES
  file,      \* [mt |-> mtime (0 = no file), z |-> [Name -> version]]
  cache,     \* [Name -> [ver, mt, exp]]  ver = 0: not cached
  clock, nextVer,
  zlW, zlR,  \* zones lock
  nlW,       \* names lock (taken inside reset and available)
  names,     \* SUBSET Name   the cached list of names (used by available() only)
  namesExp,  \* clock value after which that list is expired (-1 = expired)
  pc, arg, ret,
  ops,
  seen,      \* ghost: versions the queried zone had in the file while the lookup ran
  how        \* ghost: which path produced the result

vars == <<file, cache, clock, nextVer, zlW, zlR, nlW, names, namesExp, pc, arg, ret, ops, seen, how>>

None == "none"
NotCached == [ver |-> 0, mt |-> 0, exp |-> -1]
Expired(exp) == exp < 0 \/ clock > exp
VerOf(f, n) == IF f.mt = 0 THEN 0 ELSE f.z[n]

Init ==
  /\ file \in {[mt |-> 1, z |-> zz] : zz \in [Name -> {0, 1}]}
  /\ cache = [n \in Name |-> NotCached]
  /\ clock = 0 /\ nextVer = 2
  /\ zlW = None /\ zlR = {} /\ nlW = None
  /\ names = {n \in Name : VerOf(file, n) > 0} /\ namesExp = TTL
  /\ pc = [t \in Thread |-> "idle"] /\ arg = [t \in Thread |-> CHOOSE n \in Name : TRUE]
  /\ ret = [t \in Thread |-> 0] /\ ops = 0
  /\ seen = [t \in Thread |-> {}] /\ how = [t \in Thread |-> "none"]

CanRead(w) == w = None
CanWrite(w, r) == w = None /\ r = {}

Start(t, n) ==
  /\ pc[t] = "idle" /\ ops < MaxOps
  /\ pc' = [pc EXCEPT ![t] = "fast"] /\ arg' = [arg EXCEPT ![t] = n]
  /\ seen' = [seen EXCEPT ![t] = {VerOf(file, n)}] /\ how' = [how EXCEPT ![t] = "none"]
  /\ ops' = ops + 1
  /\ UNCHANGED <<file, cache, clock, nextVer, zlW, zlR, nlW, ret, names, namesExp>>

Fast(t) ==
  /\ pc[t] = "fast" /\ CanRead(zlW)
  /\ LET c == cache[arg[t]] IN
     IF c.ver > 0 /\ ~Expired(c.exp)
     THEN /\ ret' = [ret EXCEPT ![t] = c.ver] /\ pc' = [pc EXCEPT ![t] = "done"] /\ how' = [how EXCEPT ![t] = "fast"]
     ELSE /\ pc' = [pc EXCEPT ![t] = "slow"] /\ UNCHANGED <<ret, how>>
  /\ UNCHANGED <<file, cache, clock, nextVer, zlW, zlR, nlW, arg, ops, seen, names, namesExp>>

\* `f` is the file as the critical section sees it (the trace spec lets it be
\* any state the file had while the section was running)
SlowWith(t, f) ==
  /\ pc[t] = "slow" /\ CanWrite(zlW, zlR)
  /\ LET n == arg[t]  c == cache[n]  v == VerOf(f, n) IN
     IF c.ver > 0 /\ f.mt > 0 /\ f.mt = c.mt
     THEN /\ cache' = [cache EXCEPT ![n].exp = clock + TTL]
          /\ ret' = [ret EXCEPT ![t] = c.ver] /\ how' = [how EXCEPT ![t] = "revalidated"]
     ELSE IF v > 0
     THEN /\ cache' = [cache EXCEPT ![n] = [ver |-> v, mt |-> f.mt, exp |-> clock + TTL]]
          /\ ret' = [ret EXCEPT ![t] = v] /\ how' = [how EXCEPT ![t] = IF c.ver > 0 THEN "reloaded" ELSE "inserted"]
     ELSE /\ UNCHANGED cache
          /\ ret' = [ret EXCEPT ![t] = 0] /\ how' = [how EXCEPT ![t] = "gone"]
  /\ pc' = [pc EXCEPT ![t] = "done"]
  /\ UNCHANGED <<file, clock, nextVer, zlW, zlR, nlW, arg, ops, seen, names, namesExp>>
Slow(t) == SlowWith(t, file)

Finish(t) ==
  /\ pc[t] = "done" /\ pc' = [pc EXCEPT ![t] = "idle"]
  /\ UNCHANGED <<file, cache, clock, nextVer, zlW, zlR, nlW, arg, ret, ops, seen, how, names, namesExp>>

ResetStart(t) ==
  /\ pc[t] = "idle" /\ ops < MaxOps /\ CanWrite(zlW, zlR)
  /\ zlW' = t /\ pc' = [pc EXCEPT ![t] = "reset_names"] /\ ops' = ops + 1
  /\ UNCHANGED <<file, cache, clock, nextVer, zlR, nlW, arg, ret, seen, how, names, namesExp>>
ResetNames(t) ==
  /\ pc[t] = "reset_names" /\ nlW = None
  /\ names' = {} /\ namesExp' = -1
  /\ pc' = [pc EXCEPT ![t] = "reset_zones"]
  /\ UNCHANGED <<file, cache, clock, nextVer, zlW, zlR, nlW, arg, ret, ops, seen, how>>
ResetZones(t) ==
  /\ pc[t] = "reset_zones"
  /\ cache' = [n \in Name |-> NotCached]
  /\ zlW' = None /\ pc' = [pc EXCEPT ![t] = "idle"]
  /\ UNCHANGED <<file, clock, nextVer, zlR, nlW, arg, ret, ops, seen, how, names, namesExp>>

\* ---- Database::available: one critical section under the names write lock -------------------
\* `f` as in SlowWith; the result is the list after the section (names')
NamesIn(f) == {n \in Name : VerOf(f, n) > 0}
AvailWith(t, f) ==
  /\ pc[t] = "idle" /\ ops < MaxOps /\ nlW = None
  /\ LET refresh == Expired(namesExp) IN
     /\ names' = IF refresh /\ f.mt > 0 THEN NamesIn(f) ELSE names
     /\ namesExp' = IF refresh THEN clock + TTL ELSE namesExp
  /\ ops' = ops + 1
  /\ UNCHANGED <<file, cache, clock, nextVer, zlW, zlR, nlW, pc, arg, ret, seen, how>>
Avail(t) == AvailWith(t, file)

\* ---- environment: the file is rewritten as a whole -----------------------------------------
Note(f) == [t \in Thread |-> IF pc[t] # "idle" THEN seen[t] \cup {VerOf(f, arg[t])} ELSE seen[t]]
RewriteFile(changed) ==          \* changed : [Name -> {"keep", "new", "drop"}]
  /\ nextVer <= MaxVer
  /\ LET zz == [n \in Name |-> CASE changed[n] = "keep" -> VerOf(file, n)
                                 [] changed[n] = "new"  -> nextVer
                                 [] changed[n] = "drop" -> 0]
         f == [mt |-> nextVer, z |-> zz]
     IN file' = f /\ seen' = Note(f)
  /\ nextVer' = nextVer + 1
  /\ UNCHANGED <<cache, clock, zlW, zlR, nlW, pc, arg, ret, ops, how, names, namesExp>>
RemoveFile ==
  /\ file.mt > 0
  /\ LET f == [mt |-> 0, z |-> [n \in Name |-> 0]] IN file' = f /\ seen' = Note(f)
  /\ UNCHANGED <<cache, clock, nextVer, zlW, zlR, nlW, pc, arg, ret, ops, how, names, namesExp>>
Tick ==
  /\ clock < MaxClock /\ clock' = clock + 1
  /\ UNCHANGED <<file, cache, nextVer, zlW, zlR, nlW, pc, arg, ret, ops, seen, how, names, namesExp>>

Next ==
  \/ \E t \in Thread : \/ \E n \in Name : Start(t, n)
                       \/ Fast(t) \/ Slow(t) \/ Finish(t)
                       \/ ResetStart(t) \/ ResetNames(t) \/ ResetZones(t) \/ Avail(t)
  \/ \E ch \in [Name -> {"keep", "new", "drop"}] : RewriteFile(ch)
  \/ RemoveFile
  \/ Tick

Spec == Init /\ [][Next]_vars
FairSpec == Spec /\ \A t \in Thread : WF_vars(Fast(t) \/ Slow(t) \/ Finish(t) \/ ResetNames(t) \/ ResetZones(t))

\* ---- properties ---------------------------------------------------------------------------------
TypeOK == /\ \A n \in Name : cache[n].ver >= 0
          /\ zlW \in Thread \cup {None}

\* a cache entry holds a version its own zone once had, read from a file that
\* carried the recorded mtime, and that version is not from the future
CacheCoherent == \A n \in Name : cache[n].ver > 0 => cache[n].ver <= cache[n].mt /\ cache[n].mt < nextVer

ReturnOk ==
  \A t \in Thread : pc[t] = "done" =>
     CASE how[t] = "fast" -> ret[t] > 0
       [] how[t] = "gone" -> ret[t] = 0 /\ 0 \in seen[t]
       [] OTHER           -> ret[t] > 0 /\ ret[t] \in seen[t]

\* once the ttl has passed (or after a reset) and nothing changes during the
\* lookup, the slow path returns exactly what the file holds
FreshAfterExpiry ==
  \A t \in Thread : (pc[t] = "done" /\ how[t] \in {"revalidated", "reloaded", "inserted"} /\ Cardinality(seen[t]) = 1)
                      => ret[t] = VerOf(file, arg[t])

LockInv == zlW # None => zlR = {}
Progress == \A t \in Thread : pc[t] # "idle" ~> pc[t] = "idle"
=======================================================================
