SPECIFICATION Spec
CONSTANTS
  Slot = {s1, s2, s3, s4}
  MaxObj = 3
  Content = {0, 1}
INVARIANTS RcInv FreeInv NoUseAfterFree EqLaws
CHECK_DEADLOCK FALSE
