SPECIFICATION Spec
POSTCONDITION Consumed
CHECK_DEADLOCK FALSE
