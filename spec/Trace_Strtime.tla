------------------------- MODULE Trace_Strtime -------------------------
(* C16: every strftime text, every strptime round trip and every RFC 2822 *)
(* print / parse observed on the real code is checked against Strtime.tla. *)
EXTENDS Strtime, TLC, Json, IOUtils

Rec == ndJsonDeserialize(IOEnv.TRACE)
VARIABLE l
vars == <<l>>

Panicked(x) == x = <<-1>>
TextOk(r) == \E conv \in 0..3 : r.out = ExpFmt(r.fmt, 1, r.v, conv)

FmtWhy(r) ==
  IF r.out = <<-2>> THEN "strftime panicked"
  ELSE IF ~TextOk(r) THEN "strftime text"
  ELSE ""

\* ---- round trips ---------------------------------------------------------------
AnyPanic(re) == Panicked(re.z) \/ Panicked(re.ts) \/ Panicked(re.dt) \/ Panicked(re.d) \/ Panicked(re.t)
               \/ Panicked(re.az) \/ Panicked(re.ats) \/ Panicked(re.adt) \/ Panicked(re.ad) \/ Panicked(re.at)
AllErr(re) == re.z = <<>> /\ re.ts = <<>> /\ re.dt = <<>> /\ re.d = <<>> /\ re.t = <<>>
              /\ re.az = <<>> /\ re.ats = <<>> /\ re.adt = <<>> /\ re.ad = <<>> /\ re.at = <<>>
\* the type's own strptime agrees with the conversion of the broken-down time
ApiSame(re) == re.az = re.z /\ re.azname = re.zname /\ re.ats = re.ts /\ re.adt = re.dt /\ re.ad = re.d /\ re.at = re.t

\* expected sequences use Err = <<-1>>; results use <<>> for an error
Same(exp, got) == IF exp = Err THEN got = <<>> ELSE got = exp

\* %s replaces every field by the UTC reading of the instant; only formats
\* where it is the last field-setting directive are settled
SIdx(D) == CHOOSE i \in DOMAIN D : D[i].c = 115 /\ ~D[i].dot /\ ~D[i].colon
SLast(D) == \A j \in DOMAIN D : j > SIdx(D) => D[j].c \in {102, 37, 110, 116}
RtSecWhy(r, D) ==
  LET t   == InstOfCivil(CivOfFields(r.v.f), r.v.off)
      ns  == IF \E j \in DOMAIN D : j > SIdx(D) /\ FracIs(D, r.v, j) THEN TruncNsP(t[3], LastFrac(D, r.v).width) ELSE 0
      f   == FieldsOf(<<t[1], t[2], ns>>)
  IN IF r.re.ts # f THEN "%s: parsed timestamp"
     ELSE IF r.re.z # f \o <<0>> THEN "%s: parsed zoned"
     ELSE IF r.re.dt # f THEN "%s: parsed datetime"
     ELSE ""

RtWhy(r) ==
  LET D == Dirs(r.fmt, 1) IN
  IF r.out = <<-2>> THEN "strftime panicked"
  ELSE IF ~TextOk(r) THEN "strftime text"
  ELSE IF r.out = Err THEN ""
  ELSE IF AnyPanic(r.re) THEN "strptime panicked"
  ELSE IF ~ApiSame(r.re) THEN "T::strptime differs from BrokenDownTime::to_T"
  ELSE IF HasC(D, {90}) THEN (IF AllErr(r.re) THEN "" ELSE "%Z accepted by the parser")
  ELSE IF HasC(D, {115}) THEN (IF SLast(D) THEN RtSecWhy(r, D) ELSE "")
  ELSE IF ~Same(ExpDate(D, r.v), r.re.d) THEN "round trip: date"
  ELSE IF ~HourSettled(D) THEN ""
  ELSE IF ~Same(ExpTime(D, r.v), r.re.t) THEN "round trip: time"
  ELSE IF ~Same(ExpDateTime(D, r.v), r.re.dt) THEN "round trip: datetime"
  ELSE IF ~Same(ExpTs(D, r.v), r.re.ts) THEN "round trip: timestamp"
  ELSE IF IanaKnown(D, r.v) /\ ~OffKnown(D, r.v)
       \* zone name without offset: the civil datetime must come back, in that zone
       THEN (IF ExpDateTime(D, r.v) = Err THEN (IF r.re.z = <<>> THEN "" ELSE "round trip: zoned accepted without datetime")
             ELSE IF r.re.z = <<>> THEN "round trip: zoned refused"
             ELSE IF SubSeq(r.re.z, 1, 7) # ExpDateTime(D, r.v) THEN "round trip: zoned civil datetime"
             ELSE IF r.re.zname # r.v.iana THEN "round trip: zone name"
             ELSE "")
  ELSE IF ~Same(ExpZoned(D, r.v), r.re.z) THEN "round trip: zoned"
  ELSE IF r.re.z # <<>> /\ IanaKnown(D, r.v) /\ r.re.zname # r.v.iana THEN "round trip: zone name"
  ELSE ""

\* a weekday that contradicts the (already determined) date is refused
ContraWhy(r) ==
  LET D == Dirs(r.fmt, 1) IN
  IF r.out = <<-2>> THEN "strftime panicked"
  ELSE IF ~TextOk(r) THEN "strftime text (explicit weekday)"
  ELSE IF r.out = Err THEN ""
  ELSE IF Panicked(r.re.d) \/ Panicked(r.re.ad) THEN "strptime panicked"
  ELSE IF r.re.d # <<>> \/ r.re.ad # <<>> THEN "text with a wrong weekday accepted"
  ELSE ""

\* ---- RFC 2822 ------------------------------------------------------------------------
RfcPWhy(r) ==
  LET f == r.v.f  f0 == <<f[1], f[2], f[3], f[4], f[5], f[6], 0>> IN
  IF r.out = <<-2>> \/ Panicked(r.re) \/ Panicked(r.rets) THEN "RFC 2822 panicked"
  ELSE IF r.mode = "z"
  THEN IF f[1] < 0 THEN (IF r.out = Err THEN "" ELSE "negative year printed")
       ELSE IF r.v.off % 60 # 0
       \* offsets are printed to the minute: only the civil part is settled
       THEN (IF r.out = Err THEN "RFC 2822 printer refused"
             ELSE IF SubSeq(r.out, 1, Len(r.out) - 5) # SubSeq(Rfc2822Txt(f, 0, Rfc2822Off(0)), 1, Len(r.out) - 5) THEN "RFC 2822 text (civil part)"
             ELSE IF r.re = <<>> THEN "RFC 2822 text refused by the parser"
             ELSE IF SubSeq(r.re, 1, 7) # f0 THEN "RFC 2822 re-parse (civil part)"
             ELSE IF r.re[8] - r.v.off >= 60 \/ r.v.off - r.re[8] >= 60 THEN "RFC 2822 offset not within a minute of the zone's"
             ELSE "")
       ELSE IF r.out # Rfc2822Txt(f, r.v.off, Rfc2822Off(r.v.off)) THEN "RFC 2822 text"
       ELSE IF r.re # f0 \o <<r.v.off>> THEN "RFC 2822 re-parse (zoned)"
       ELSE IF r.rets # FieldsOf(InstOfCivil(CivOfFields(f0), r.v.off)) THEN "RFC 2822 re-parse (timestamp)"
       ELSE ""
  ELSE IF f[1] < 0 THEN (IF r.out = Err THEN "" ELSE "negative year printed")
  ELSE IF r.mode = "ts" /\ r.out # Rfc2822Txt(f, 0, <<45, 48, 48, 48, 48>>) THEN "RFC 2822 timestamp text"
  ELSE IF r.mode = "http" /\ r.out # Rfc9110Txt(f) THEN "RFC 9110 text"
  ELSE IF r.re # f0 \o <<0>> THEN "RFC 2822 re-parse (zoned)"
  ELSE IF r.rets # f0 THEN "RFC 2822 re-parse (timestamp)"
  ELSE ""

RfcMWhy(r) ==
  LET p == Rd2822(r.text) IN
  IF Panicked(r.re) \/ Panicked(r.rets) THEN "RFC 2822 parser panicked"
  ELSE IF ~p.ok THEN (IF r.re = <<>> /\ r.rets = <<>> THEN "" ELSE "invalid RFC 2822 text accepted")
  ELSE LET t == InstOfCivil(CivOfFields(p.fields), p.off) IN
       IF ~InTsRange(t) THEN (IF r.re = <<>> /\ r.rets = <<>> THEN "" ELSE "out-of-range RFC 2822 instant accepted")
       ELSE IF r.re # p.fields \o <<p.off>> THEN "RFC 2822 parse (zoned)"
       ELSE IF r.rets # FieldsOf(t) THEN "RFC 2822 parse (timestamp)"
       ELSE ""

Why(r) ==
  CASE r.op \in {"fmt", "glibc"} -> FmtWhy(r)
    [] r.op = "rt"     -> RtWhy(r)
    [] r.op = "contra" -> ContraWhy(r)
    [] r.op = "rfc_p"  -> RfcPWhy(r)
    [] r.op = "rfc_m"  -> RfcMWhy(r)
    [] OTHER           -> "unknown op"

Init == l = 1
Next == /\ l <= Len(Rec)
        /\ LET w == Why(Rec[l]) IN IF w = "" THEN TRUE ELSE PrintT("MISMATCH|" \o ToString(l) \o "|" \o w)
        /\ l' = l + 1
Spec == Init /\ [][Next]_vars
Consumed == TLCGet("stats").diameter = Len(Rec) + 1
=======================================================================
