------------------------- MODULE TzdbCacheSim -------------------------
(* Engine B for C19: TLC generates operation histories of the cache model *)
(* (one client, environment steps only between calls, so that a history   *)
(* is replayable against a real TimeZoneDatabase::from_dir) and prints    *)
(* each as one JSON line.  The harness replays it on the real code and    *)
(* compares every returned version and the path taken (hook events).      *)
EXTENDS TzdbCache, Json

VARIABLE hist
simvars == <<vars, hist>>

Idle == \A t \in Thread : pc[t] = "idle"

\* the real database is brought to this state by from_dir + set_ttl + reset
SimInit ==
  /\ disk \in [Name -> {[ver |-> 1, mt |-> 1], Absent}]
  /\ names = {} /\ namesExp = -1
  /\ cache = [n \in Name |-> NotCached]
  /\ clock = 0 /\ nextVer = 2
  /\ zlW = None /\ zlR = {} /\ nlW = None /\ nlR = {}
  /\ pc = [t \in Thread |-> "idle"] /\ arg = [t \in Thread |-> CHOOSE n \in Name : TRUE]
  /\ ret = [t \in Thread |-> 0] /\ info = [t \in Thread |-> FALSE]
  /\ ops = 0
  /\ seen = [t \in Thread |-> {}] /\ how = [t \in Thread |-> "none"]
  /\ hist = <<[op |-> "init", disk |-> [n \in Name |-> disk[n].ver]]>>

SimNext ==
  \/ \E t \in Thread, n \in Name : Start(t, n) /\ hist' = hist
  \/ \E t \in Thread : (Fast(t) \/ NamesR(t) \/ NamesW(t) \/ Slow(t) \/ ResetStart(t) \/ ResetNames(t)) /\ hist' = hist
  \/ \E t \in Thread : Finish(t) /\ hist' = Append(hist, [op |-> "get", n |-> arg[t], ret |-> ret[t], how |-> how[t]])
  \/ \E t \in Thread : ResetZones(t) /\ hist' = Append(hist, [op |-> "reset"])
  \/ \E t \in Thread : Idle /\ Avail(t) /\ hist' = Append(hist, [op |-> "avail", names |-> [n \in Name |-> IF n \in names' THEN 1 ELSE 0]])
  \/ /\ Idle /\ ops < MaxOps
     /\ \/ \E n \in Name : ReplaceFile(n) /\ hist' = Append(hist, [op |-> "replace", n |-> n, v |-> nextVer])
        \/ \E n \in Name : RemoveFile(n) /\ hist' = Append(hist, [op |-> "remove", n |-> n])
        \/ \E n \in Name : AddFile(n) /\ hist' = Append(hist, [op |-> "add", n |-> n, v |-> nextVer])
        \/ Tick /\ hist' = Append(hist, [op |-> "tick"])

SimSpec == SimInit /\ [][SimNext]_simvars

Done == ops = MaxOps /\ Idle
\* prints one line per finished behaviour (the state after the last call is terminal)
Dump == Done => PrintT(<<"HIST", ToJson(hist)>>)
\* the model's own properties keep holding along the way
SimInv == CacheCoherent /\ ReturnOk /\ FreshAfterExpiry
=======================================================================
