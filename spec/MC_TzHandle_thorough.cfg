SPECIFICATION Spec
CONSTANTS
  Slot = {s1, s2, s3, s4}
  MaxObj = 4
  Content = {0, 1, 2}
INVARIANTS RcInv FreeInv NoUseAfterFree EqLaws
CHECK_DEADLOCK FALSE
