SPECIFICATION Spec
CONSTANTS
  Thread = {t1, t2}
  Name = {a}
  MaxVer = 3
  MaxClock = 2
  TTL = 1
  MaxOps = 3
INVARIANTS TypeOK CacheCoherent ReturnOk FreshAfterExpiry LockInv
CHECK_DEADLOCK FALSE
