------------------------- MODULE CalendarWalk -------------------------
(* A successor machine over the whole supported calendar.  Its only      *)
(* knowledge: the month-length table, the 4/100/400 rule, "+1", the      *)
(* 7-day week, and the ISO rule "a week belongs to the year holding its  *)
(* Thursday".  Every closed form of Calendar.tla is an invariant of it,  *)
(* which makes Calendar.tla a model-checked oracle instead of a second   *)
(* hand-written algorithm.  NextYear (Jan 1 -> Jan 1) widens the BFS     *)
(* frontier; both paths must meet in identical states, which TLC shows   *)
(* by the distinct-state count (exactly 7,304,484).                      *)
EXTENDS Calendar, TLC

VARIABLES y, m, d, n, wd, doy, iy, wk
vars == <<y, m, d, n, wd, doy, iy, wk>>

\* the first supported day; the anchor invariant below (1970-01-01 is day
\* 0 and a Thursday) is what validates these start constants.
Init == /\ y = YearMin /\ m = 1 /\ d = 1
        /\ n = -4371587 /\ wd = 1 /\ doy = 1
        /\ iy = YearMin /\ wk = 1

Leap(yy) == (yy % 4 = 0 /\ yy % 100 # 0) \/ yy % 400 = 0
MLen(yy, mm) == IF mm = 2 THEN (IF Leap(yy) THEN 29 ELSE 28)
               ELSE IF mm \in {4, 6, 9, 11} THEN 30 ELSE 31

NextWd(w) == IF w = 7 THEN 1 ELSE w + 1

NextDay ==
  /\ ~(y = YearMax /\ m = 12 /\ d = 31)
  /\ n' = n + 1
  /\ wd' = NextWd(wd)
  /\ IF d < MLen(y, m)
       THEN y' = y /\ m' = m /\ d' = d + 1 /\ doy' = doy + 1
       ELSE IF m < 12
         THEN y' = y /\ m' = m + 1 /\ d' = 1 /\ doy' = doy + 1
         ELSE y' = y + 1 /\ m' = 1 /\ d' = 1 /\ doy' = 1
  /\ IF wd' = 1
       THEN \* a new week starts on y'-m'-d'; its Thursday is 3 days on
            LET thuYear == IF m' = 12 /\ d' + 3 > 31 THEN y' + 1 ELSE y'
            IN  IF thuYear # iy THEN iy' = thuYear /\ wk' = 1
                                ELSE iy' = iy /\ wk' = wk + 1
       ELSE UNCHANGED <<iy, wk>>

\* jump from Jan 1 of y to Jan 1 of y+1
NextYear ==
  /\ m = 1 /\ d = 1 /\ y < YearMax
  /\ LET len == IF Leap(y) THEN 366 ELSE 365
         w2  == ((wd - 1 + len) % 7) + 1
         \* textbook: a year has 53 ISO weeks iff Jan 1 is a Thursday, or
         \* it is a leap year and Jan 1 is a Wednesday
         long == wd = 4 \/ (Leap(y) /\ wd = 3)
     IN /\ y' = y + 1 /\ m' = 1 /\ d' = 1 /\ doy' = 1
        /\ n' = n + len
        /\ wd' = w2
        /\ IF w2 <= 4 THEN iy' = y + 1 /\ wk' = 1
                      ELSE iy' = y /\ wk' = IF long THEN 53 ELSE 52

Next == NextDay \/ NextYear
Spec == Init /\ [][Next]_vars

-----------------------------------------------------------------------
ClosedFormsAgree ==
  /\ ValidDate(y, m, d)
  /\ EpochDayOf(y, m, d) = n
  /\ DateOfEpochDay(n) = <<y, m, d>>
  /\ WeekdayOfDay(n) = wd
  /\ WeekdayOf(y, m, d) = wd
  /\ DayOfYear(y, m, d) = doy
  /\ DaysInMonth(y, m) = MLen(y, m)
  /\ IsLeap(y) = Leap(y)
  /\ IsoWeekOfDay(n) = <<iy, wk, wd>>
  /\ DayOfIsoWeek(iy, wk, wd) = n
  /\ ValidIsoWeekDate(iy, wk, wd)
  /\ wk <= WeeksInIsoYear(iy)

Anchors ==
  /\ (y = 1970 /\ m = 1 /\ d = 1) => (n = 0 /\ wd = 4)
  /\ (n = 0) => (y = 1970 /\ m = 1 /\ d = 1)
  /\ (y = YearMax /\ m = 12 /\ d = 31) <=> (n = EpochDayMax)
  /\ (y = YearMin /\ m = 1 /\ d = 1) <=> (n = EpochDayMin)
  /\ n \in EpochDayMin..EpochDayMax
  /\ (y = 2024 /\ m = 2 /\ d = 29) => (wd = 4 /\ n = 19782)

\* the k-th occurrence of a weekday in a month, counted from either end
NthOfMonthAgree ==
  LET dim == MLen(y, m) IN
  /\ NthWeekdayOfMonth(y, m, ((d - 1) \div 7) + 1, wd) = d
  /\ NthWeekdayOfMonth(y, m, 0 - (((dim - d) \div 7) + 1), wd) = d
  /\ (d + 7 > dim) => NthWeekdayOfMonth(y, m, ((d - 1) \div 7) + 2, wd) = 0
  /\ (d - 7 < 1) => NthWeekdayOfMonth(y, m, 0 - (((dim - d) \div 7) + 2), wd) = 0

NthFromDayAgree ==
  /\ NthWeekdayFromDay(n - 7, 1, wd) = n
  /\ NthWeekdayFromDay(n + 7, -1, wd) = n
  /\ NthWeekdayFromDay(n - 1, 1, wd) = n
  /\ NthWeekdayFromDay(n + 1, -1, wd) = n
  /\ NthWeekdayFromDay(n, 1, wd) = n + 7
  /\ NthWeekdayFromDay(n, -2, wd) = n - 14
=======================================================================
