---------------------------- MODULE SpanRel ----------------------------
(* C11: what a span means relative to a reference, and what rounding,       *)
(* balancing, totals and comparison of spans must therefore return.         *)
(*                                                                          *)
(* A reference is [kind, z, c]:                                             *)
(*   "dt"   a civil datetime c = <<y,m,d,h,mi,s,ns>> (a date is midnight)    *)
(*   "z"    a zoned datetime z = [sec, ns, ...] in the installed zone        *)
(*   "none" no reference: only hours and smaller units have a meaning        *)
(*   "24h"  the days-are-24-hours marker: days and weeks are uniform too     *)
(* A position is a triple <<day, second of day, ns>>: a civil datetime for   *)
(* "dt", an instant for "z".  ref (+) span is DateTimeAddSpan / ZAdd.        *)
(*                                                                          *)
(* Rounding (smallest unit S, increment inc, largest unit L, mode), the      *)
(* way the documentation defines it: T0 = ref (+) span; the difference       *)
(* ref -> T0 is balanced up to L; truncated at S to a multiple of inc it is  *)
(* the lower candidate, one increment further (away from zero) the upper     *)
(* candidate; T0 lies between ref (+) lower and ref (+) upper and the mode   *)
(* picks the one it prescribes.  The result must be a span of the requested  *)
(* shape with ref (+) result = the picked position.                          *)
EXTENDS Zoned, CivilOps, Round

InstOfZv(x) == InstOfApi(x.sec, x.ns)

\* ---- spans by unit rank (0 = ns .. 5 = h, 6 = d, 7 = w, 8 = mo, 9 = y) ------------
SGet(sp, k) == CASE k = 9 -> BOf(sp.y) [] k = 8 -> BOf(sp.mo) [] k = 7 -> BOf(sp.w) [] k = 6 -> BOf(sp.d) [] k = 5 -> BOf(sp.h)
                 [] k = 4 -> sp.mi [] k = 3 -> sp.s [] k = 2 -> sp.ms [] k = 1 -> sp.us [] k = 0 -> sp.ns
\* v fits a native int for k >= 5
SSet(sp, k, v) == CASE k = 9 -> [sp EXCEPT !.y = BToInt(v)] [] k = 8 -> [sp EXCEPT !.mo = BToInt(v)] [] k = 7 -> [sp EXCEPT !.w = BToInt(v)]
                    [] k = 6 -> [sp EXCEPT !.d = BToInt(v)] [] k = 5 -> [sp EXCEPT !.h = BToInt(v)] [] k = 4 -> [sp EXCEPT !.mi = v]
                    [] k = 3 -> [sp EXCEPT !.s = v] [] k = 2 -> [sp EXCEPT !.ms = v] [] k = 1 -> [sp EXCEPT !.us = v] [] k = 0 -> [sp EXCEPT !.ns = v]
RECURSIVE ZeroBelow(_, _)
ZeroBelow(sp, k) == IF k = 0 THEN sp ELSE ZeroBelow(SSet(sp, k - 1, BZero), k - 1)
SLargest(sp) == IF \E k \in 0..9 : SGet(sp, k) # BZero THEN CHOOSE k \in 0..9 : SGet(sp, k) # BZero /\ \A j \in (k + 1)..9 : SGet(sp, j) = BZero ELSE 0
OneSign(sp) == ~(\E i, j \in 0..9 : SGet(sp, i).s = 1 /\ SGet(sp, j).s = -1)

UNs(k) == CASE k = 0 -> BOf(1) [] k = 1 -> B1E3 [] k = 2 -> B1E6 [] k = 3 -> BPow10_9 [] k = 4 -> B60E9 [] k = 5 -> B3600E9
            [] k = 6 -> BDayNs [] k = 7 -> BMulSmall(BDayNs, 7)
UName(k) == CASE k = 0 -> "ns" [] k = 1 -> "us" [] k = 2 -> "ms" [] k = 3 -> "s" [] k = 4 -> "mi" [] k = 5 -> "h" [] k = 6 -> "d"
              [] k = 7 -> "w" [] k = 8 -> "mo" [] k = 9 -> "y"

\* nanoseconds of a span whose days are 24 hours and weeks 7 days (no months / years)
UniformNs(sp) == BAdd(SpanTimeNs(sp), BMul(BOf(7 * sp.w + sp.d), BDayNs))

\* the requested shape: nothing above L, nothing below S, the S unit = q * inc, one sign
ShapeOk(out, S, L, inc, q) ==
  /\ \A k \in 0..9 : (k > L \/ k < S) => SGet(out, k) = BZero
  /\ SGet(out, S) = BMul(q, inc)
  /\ OneSign(out)

\* ---- positions ----------------------------------------------------------------------
RefPos(ref) == IF ref.kind = "z" THEN InstOfZv(ref.z) ELSE CivOfFields(ref.c)
RAdd(z, ref, sp) == IF ref.kind = "z" THEN ZAdd(z, InstOfZv(ref.z), sp) ELSE DateTimeAddSpan(CivOfFields(ref.c), sp)
RSettled(z, ref, sp) == ref.kind # "z" \/ ZAddSettled(z, InstOfZv(ref.z), sp)
\* exact nanoseconds from position p to position q
Dist(p, q) == InstDiffNs(p, q)

\* ---- the balanced difference ref -> e with largest unit L -------------------------------
NoSpan == [ok |-> FALSE, sp |-> SpanZero]
Yes(sp) == [ok |-> TRUE, sp |-> sp]

CUntil(ca, cb, L) ==
  LET T == Dist(ca, cb) IN
  IF L <= 5 THEN (IF HoursFit(T, L) THEN Yes(ExpTimeSpan(T, L)) ELSE NoSpan)
  ELSE LET sign == T.s
           todLt(p, q) == p[2] < q[2] \/ (p[2] = q[2] /\ p[3] < q[3])
           dayX == IF sign > 0 THEN (IF todLt(cb, ca) THEN cb[1] - 1 ELSE cb[1])
                   ELSE IF sign < 0 THEN (IF todLt(ca, cb) THEN cb[1] + 1 ELSE cb[1])
                   ELSE cb[1]
           Tt == BSub(T, BMul(BOf(dayX - ca[1]), BDayNs))
           e == DateDiff(DateOfEpochDay(ca[1]), DateOfEpochDay(dayX), L)
           tp == ExpTimeSpan(Tt, 5)
       IN  Yes([tp EXCEPT !.y = e[1], !.mo = e[2], !.w = e[3], !.d = e[4]])

ZUntil(z, a, b, L) ==
  LET T == Dist(a, b) IN
  IF L <= 5 THEN (IF HoursFit(T, L) THEN Yes(ExpTimeSpan(T, L)) ELSE NoSpan)
  ELSE LET sign == Sign3(a, b)  ca == CivilAt(z, a)  cb == CivilAt(z, b) IN
       IF sign = 0 THEN Yes(SpanZero)
       ELSE IF ca[1] = cb[1] THEN Yes(ExpTimeSpan(T, 5))
       \* civil dates ordered against the instants (a set-back of the clock across midnight in between): no calendar
       \* unit of the right sign fits; the elapsed time (settled while it is under a day)
       ELSE IF (sign > 0 /\ cb[1] < ca[1]) \/ (sign < 0 /\ cb[1] > ca[1])
       THEN (IF BLt(BAbs(T), BDayNs) THEN Yes(ExpTimeSpan(T, 5)) ELSE NoSpan)
       ELSE LET dc == DayCorr(z, a, ca, cb, b, sign) IN
            IF dc < 0 THEN NoSpan
            ELSE LET dayX == cb[1] - dc * sign
                     i == Interm(z, a, ca, cb, sign, dc)
                     e == DateDiff(DateOfEpochDay(ca[1]), DateOfEpochDay(dayX), L)
                     tp == ExpTimeSpan(Dist(i, b), 5)
                 IN  IF ~Settled(z, <<dayX, ca[2], ca[3]>>) THEN NoSpan
                     ELSE Yes([tp EXCEPT !.y = e[1], !.mo = e[2], !.w = e[3], !.d = e[4]])

RUntil(z, ref, e, L) == IF ref.kind = "z" THEN ZUntil(z, InstOfZv(ref.z), e, L) ELSE CUntil(CivOfFields(ref.c), e, L)

\* ---- which of the two candidates a mode prescribes ------------------------------------------
\* a = ref (+) lower, b = ref (+) upper (further from ref), t between them, a # t;
\* sgn = direction of the span; k = the lower candidate's count of increments
PickUpper(mode, a, b, t, sgn, kEven) ==
  LET da == BAbs(Dist(a, t))  db == BAbs(Dist(t, b))  c == BCmp(da, db) IN
  CASE mode = "ceil"   -> sgn > 0
    [] mode = "floor"  -> sgn < 0
    [] mode = "expand" -> TRUE
    [] mode = "trunc"  -> FALSE
    [] mode = "half-ceil"   -> c > 0 \/ (c = 0 /\ sgn > 0)
    [] mode = "half-floor"  -> c > 0 \/ (c = 0 /\ sgn < 0)
    [] mode = "half-expand" -> c >= 0
    [] mode = "half-trunc"  -> c > 0
    [] mode = "half-even"   -> c > 0 \/ (c = 0 /\ ~kEven)

\* ---- legality -------------------------------------------------------------------------------
\* a unit the reference kind gives no meaning to
KindAllows(kind, k) == CASE kind = "none" -> k <= 5 [] kind = "24h" -> k <= 7 [] OTHER -> TRUE
IncLegal(S, inc) == inc.s = 1 /\ (S >= 6 \/ SmallIncOk(UName(S), inc))

\* With units of hours and below only, nothing depends on the reference: jiff then
\* treats the span as an exact nanosecond count (and never adds it to the reference,
\* so that no range limit of the reference's type applies).
EffKind(ref, top) == IF ref.kind \in {"dt", "z"} /\ top <= 5 THEN "none" ELSE ref.kind
Max2(a, b) == IF a > b THEN a ELSE b
\* a civil reference is handled through its reading as a UTC instant: positions outside
\* the Timestamp range (the first and last ~26 hours of the civil range) may be refused
PosOk(ref, p) == ref.kind = "z" \/ InTsRange(p)

\* ---- rounding: the position the result must reach ----------------------------------------------
\* [st |-> "err" | "pos" | "ns" | "weak" | "skip", ...]
\*   pos : ref (+) result must equal p
\*   ns  : the result's uniform nanoseconds must equal n
\*   weak: zoned reference, time unit, calendar largest: within one increment of t0 on the mode's side
RoundGoal(z, ref, span, S, L, inc, mode, mf) ==
  IF L < S \/ ~IncLegal(S, inc) \/ ~KindAllows(ref.kind, L) \/ ~KindAllows(ref.kind, SLargest(span)) THEN [st |-> "err"]
  ELSE IF EffKind(ref, Max2(L, SLargest(span))) \in {"none", "24h"}
  THEN LET T == UniformNs(span)  incNs == BMul(inc, UNs(S))  tg == Target(mode, T, incNs, mf) IN
       IF tg[1] = 0 THEN [st |-> "witness"] ELSE [st |-> "ns", n |-> tg[2]]
  ELSE IF ~RSettled(z, ref, span) THEN [st |-> "skip"]
  ELSE LET p0 == RefPos(ref)  t0 == RAdd(z, ref, span) IN
    IF t0 = <<>> THEN [st |-> "err"]
    ELSE IF ~PosOk(ref, p0) \/ ~PosOk(ref, t0) THEN [st |-> "skip"]
    ELSE LET T == Dist(p0, t0) IN
      IF S <= 5 /\ (ref.kind = "dt" \/ L <= 5)
      THEN \* uniform time: round the exact distance
           LET incNs == BMul(inc, UNs(S))  tg == Target(mode, T, incNs, mf) IN
           IF tg[1] = 0 THEN [st |-> "witness"]
           ELSE LET at(n) == IF ref.kind = "z" THEN InstPlusNs(p0, n) ELSE DateTimeAddNs(p0, n)
                    e == at(tg[2])
                    r0 == BMul(mf, incNs)
                    \* a half-even tie: "even" can be read on the total count or on the balanced unit's own
                    tie == mode = "half-even" /\ BMulSmall(BSub(T, r0), 2) = incNs
                IN IF e = <<>> THEN [st |-> "err"]
                   ELSE IF tie THEN [st |-> "set", ps |-> {at(r0), at(BAdd(r0, incNs))} \ {<<>>}, errok |-> FALSE]
                   ELSE [st |-> "pos", p |-> e]
      ELSE IF S <= 5 THEN [st |-> "weak", t0 |-> t0, incNs |-> BMul(inc, UNs(S)), sgn |-> T.s, slack |-> BMul(inc, UNs(S))]
      \* days or weeks in steps of more than one below a larger unit that is no multiple of the step
      \* (3-day steps inside weeks, 7-week steps inside months): which multiples are "reachable" is not
      \* settled (jiff rounds the total for civil days and the balanced remainder otherwise)
      ELSE IF S \in {6, 7} /\ L > S /\ inc # BOf(1)
      THEN [st |-> "weak", t0 |-> t0, incNs |-> BMul(inc, UNs(S)), sgn |-> T.s, slack |-> BMul(BOf(26), B3600E9)]
      ELSE \* calendar smallest unit
           LET u == RUntil(z, ref, t0, L) IN
           IF ~u.ok THEN [st |-> "skip"]
           ELSE LET \* native: calendar units are small.  Weeks below months or years are counted
                    \* from the days of the balanced difference (which has no weeks of its own).
                    cur == IF S = 7 THEN u.sp.w + TruncDivI(u.sp.d, 7) ELSE BToInt(SGet(u.sp, S))
                    mag == IF cur < 0 THEN 0 - cur ELSE cur
                    sgn == T.s
                    k == IF BFitsInt(inc) THEN mag \div BToInt(inc) ELSE 0
                    lowv == IF BFitsInt(inc) THEN sgn * k * BToInt(inc) ELSE 0
                    low == SSet(ZeroBelow(u.sp, S), S, BOf(lowv))
                    upv == BAdd(BOf(lowv), IF sgn < 0 THEN BNeg(inc) ELSE inc)
                    \* Balancing ("bubbling"): once the upper candidate reaches the point where the next larger
                    \* unit (each one up to L; weeks only when L is weeks) grows by one, the result is that
                    \* boundary: "1y 14mo" is not a balanced span, "2y" is.
                    bumped(K) == SSet(ZeroBelow(u.sp, K), K, BOf(BToInt(SGet(u.sp, K)) + sgn))
                    Ks == {K \in (S + 1)..L : K # 7 \/ L = 7}
                IN IF sgn = 0 THEN [st |-> "set", ps |-> {p0}, errok |-> FALSE]
                   ELSE IF ~RSettled(z, ref, low) \/ (\E K \in Ks : ~RSettled(z, ref, bumped(K))) THEN [st |-> "skip"]
                   ELSE LET a == RAdd(z, ref, low)
                            bnds == {RAdd(z, ref, bumped(K)) : K \in Ks}
                            upOk == BFitsInt(upv) /\ RSettled(z, ref, SSet(low, S, upv))
                            b == IF upOk THEN RAdd(z, ref, SSet(low, S, upv)) ELSE <<>>
                            \* a candidate that cannot be computed (range limits): the request may be refused
                            errok == ~BFitsInt(upv) \/ b = <<>> \/ <<>> \in bnds \/ ~SpanInLimits(SSet(low, S, upv))
                                     \/ (\E K \in Ks : ~SpanInLimits(bumped(K)))
                        IN IF a = <<>> THEN [st |-> "skip"]
                           ELSE IF BFitsInt(upv) /\ ~RSettled(z, ref, SSet(low, S, upv)) THEN [st |-> "skip"]
                           ELSE IF a = t0 THEN [st |-> "set", ps |-> {a}, errok |-> errok]
                           ELSE IF b = <<>> THEN [st |-> "set", ps |-> {a}, errok |-> TRUE]
                           ELSE IF ~(Sign3(a, t0) = sgn /\ Sign3(t0, b) # 0 - sgn) THEN [st |-> "skip"]
                           \* (only a boundary strictly beyond the lower candidate can cut the window short: at a
                           \*  clamped month end, reference + 1 month may lie at or before reference + 29 days)
                           ELSE LET cands == {b} \cup {x \in bnds \ {<<>>} : Sign3(a, x) = sgn}
                                    beff == CHOOSE x \in cands : \A y \in cands : x = y \/ Sign3(x, y) = sgn
                                    r1 == IF PickUpper(mode, a, b, t0, sgn, k % 2 = 0) THEN beff ELSE a
                                    r2 == IF Sign3(t0, beff) = 0 - sgn THEN beff   \* t0 itself lies beyond the boundary
                                          ELSE IF PickUpper(mode, a, beff, t0, sgn, k % 2 = 0) THEN beff ELSE a
                                    \* a half-even tie: "even" can be read on the unit's own count or on the total
                                    tie == mode = "half-even" /\ BAbs(Dist(a, t0)) = BAbs(Dist(t0, b))
                                    \* weeks have no fixed number in a month: jiff leaves weeks that outgrow the month alone
                                    loose == IF S = 7 /\ L > 7 /\ PickUpper(mode, a, b, t0, sgn, k % 2 = 0) THEN {b} ELSE {}
                                IN [st |-> "set", ps |-> (IF tie THEN {a, beff} ELSE {r1, r2}) \cup loose, errok |-> errok]

\* ---- totals: numerator / denominator of the exact value (BigInts, den > 0) -----------------------
TotalGoal(z, ref, span, U) ==
  IF ~KindAllows(ref.kind, U) \/ ~KindAllows(ref.kind, SLargest(span)) THEN [st |-> "err"]
  ELSE IF EffKind(ref, Max2(U, SLargest(span))) \in {"none", "24h"} THEN [st |-> "q", num |-> UniformNs(span), den |-> UNs(U)]
  ELSE IF ~RSettled(z, ref, span) THEN [st |-> "skip"]
  ELSE LET p0 == RefPos(ref)  t0 == RAdd(z, ref, span) IN
    IF t0 = <<>> THEN [st |-> "err"]
    ELSE IF ~PosOk(ref, p0) \/ ~PosOk(ref, t0) THEN [st |-> "skip"]
    ELSE LET T == Dist(p0, t0) IN
      IF U <= 5 \/ (ref.kind = "dt" /\ U <= 7) THEN [st |-> "q", num |-> T, den |-> UNs(U)]
      ELSE LET u == RUntil(z, ref, t0, U) IN
           IF ~u.ok THEN [st |-> "skip"]
           ELSE LET whole == BToInt(SGet(u.sp, U))  sgn == T.s
                    low == SSet(ZeroBelow(u.sp, U), U, BOf(whole))
                    up == SSet(low, U, BOf(whole + sgn))
                IN IF sgn = 0 THEN [st |-> "q", num |-> BZero, den |-> BOf(1)]
                   ELSE IF ~SpanInLimits(up) THEN [st |-> "maybe-err"]
                   ELSE IF ~RSettled(z, ref, low) \/ ~RSettled(z, ref, up) THEN [st |-> "skip"]
                   ELSE LET a == RAdd(z, ref, low)  b == RAdd(z, ref, up) IN
                        IF a = <<>> THEN [st |-> "skip"]
                        ELSE IF b = <<>> THEN [st |-> "maybe-err"]
                        ELSE LET den == BAbs(Dist(a, b))  part == Dist(a, t0) IN
                             IF den = BZero \/ ~(Sign3(a, t0) # 0 - sgn /\ Sign3(t0, b) # 0 - sgn) THEN [st |-> "skip"]
                             \* whole + sgn * |part| / den  =  (whole * den + part) / den   (part carries the sign)
                             ELSE [st |-> "q", num |-> BAdd(BMul(BOf(whole), den), part), den |-> den]

\* an f64 = s * m * 2^e against num / den, to a relative accuracy of 2^-40 (plus 2^-40 absolute)
RECURSIVE BPow2(_)
BPow2(k) == IF k = 0 THEN BOf(1) ELSE BMulSmall(BPow2(k - 1), 2)
FloatNear(f, num, den) ==
  LET x == IF f.s < 0 THEN BNeg(f.m) ELSE IF f.s = 0 THEN BZero ELSE f.m
      tol == BAdd(BAbs(num), den)
  IN IF f.e >= 0
     THEN BLe(BMul(BAbs(BSub(BMul(BMul(x, BPow2(f.e)), den), num)), BPow2(40)), tol)
     ELSE BLe(BMul(BAbs(BSub(BMul(x, den), BMul(num, BPow2(0 - f.e)))), BPow2(40)), BMul(tol, BPow2(0 - f.e)))

\* ---- addition of two spans, and the elapsed duration --------------------------------------------
\* position reached by adding sb at position p (a civil datetime / an instant of the zone)
PAdd(z, ref, p, sb) == IF ref.kind = "z" THEN ZAdd(z, p, sb) ELSE DateTimeAddSpan(p, sb)
PSettled(z, ref, p, sb) == ref.kind # "z" \/ ZAddSettled(z, p, sb)
\* a (+) b relative to ref: the span from ref to (ref (+) a) (+) b
AddGoal(z, ref, sa, sb) ==
  LET top == Max2(SLargest(sa), SLargest(sb)) IN
  IF ~KindAllows(ref.kind, top) THEN [st |-> "err"]
  ELSE IF EffKind(ref, top) \in {"none", "24h"} THEN [st |-> "ns", n |-> BAdd(UniformNs(sa), UniformNs(sb)), top |-> top]
  ELSE IF ~RSettled(z, ref, sa) THEN [st |-> "skip"]
  ELSE LET mid == RAdd(z, ref, sa) IN
       IF mid = <<>> THEN [st |-> "err"]
       ELSE IF ~PSettled(z, ref, mid, sb) THEN [st |-> "skip"]
       ELSE LET e == PAdd(z, ref, mid, sb) IN
            IF e = <<>> THEN [st |-> "err"]
            ELSE IF ~PosOk(ref, RefPos(ref)) \/ ~PosOk(ref, mid) \/ ~PosOk(ref, e) THEN [st |-> "skip"]
            ELSE [st |-> "pos", p |-> e, top |-> top]

\* Span::to_duration: the exact time between ref and ref (+) span, as <<seconds, ns>> (truncating)
DurGoal(z, ref, span) ==
  IF ~KindAllows(ref.kind, SLargest(span)) THEN [st |-> "err"]
  ELSE IF EffKind(ref, SLargest(span)) \in {"none", "24h"} THEN [st |-> "ns", n |-> UniformNs(span)]
  ELSE IF ~RSettled(z, ref, span) THEN [st |-> "skip"]
  ELSE LET t0 == RAdd(z, ref, span) IN
       IF t0 = <<>> THEN [st |-> "err"]
       ELSE IF ~PosOk(ref, RefPos(ref)) \/ ~PosOk(ref, t0) THEN [st |-> "skip"]
       ELSE [st |-> "ns", n |-> Dist(RefPos(ref), t0)]

\* ---- comparison ------------------------------------------------------------------------------------
CompareGoal(z, ref, sa, sb) ==
  IF ~KindAllows(ref.kind, SLargest(sa)) \/ ~KindAllows(ref.kind, SLargest(sb)) THEN [st |-> "err"]
  ELSE IF EffKind(ref, Max2(SLargest(sa), SLargest(sb))) \in {"none", "24h"} THEN [st |-> "ord", o |-> BCmp(UniformNs(sa), UniformNs(sb))]
  ELSE IF ~RSettled(z, ref, sa) \/ ~RSettled(z, ref, sb) THEN [st |-> "skip"]
  ELSE LET a == RAdd(z, ref, sa)  b == RAdd(z, ref, sb) IN
       IF a = <<>> \/ b = <<>> THEN [st |-> "err"]
       ELSE IF ~PosOk(ref, RefPos(ref)) \/ ~PosOk(ref, a) \/ ~PosOk(ref, b) THEN [st |-> "skip"]
       ELSE [st |-> "ord", o |-> 0 - Sign3(a, b)]
=======================================================================
