------------------------ MODULE Trace_ConcatCache ------------------------
(* Engine A for the concatenated database (C19): is a recorded concurrent  *)
(* execution of a real TimeZoneDatabase::from_concatenated_path a          *)
(* behaviour of ConcatCache.tla?  Same construction as Trace_Cache.tla:    *)
(* hook events sequenced under jiff's own locks, start/ret events of each  *)
(* call, start/end markers around each rewrite of the file by the writer   *)
(* thread (which takes effect at an unknown moment in between), and a      *)
(* window of file states a write-locked section may have observed.         *)
EXTENDS ConcatCache, Json, IOUtils

Rec == ndJsonDeserialize(IOEnv.TRACE)

VARIABLES l,      \* next event
          pend,   \* rewrites between their markers: set of <<kind, mt, zones>>
          win     \* [Thread -> file states seen since "slow_begin"] ({} = not in the section)
tvars == <<vars, l, pend, win>>

Ev == Rec[l]
Is(k) == l <= Len(Rec) /\ Ev.ev = k
Adv == l' = l + 1
FileOf(mt, zz) == [mt |-> mt, z |-> [n \in Name |-> zz[n]]]
NoFile == [mt |-> 0, z |-> [n \in Name |-> 0]]

TInit ==
  /\ file = FileOf(1, Rec[1].zones)
  /\ cache = [n \in Name |-> NotCached]
  /\ clock = 0 /\ nextVer = 2
  /\ zlW = None /\ zlR = {} /\ nlW = None
  /\ names = {} /\ namesExp = -1
  /\ pc = [t \in Thread |-> "idle"] /\ arg = [t \in Thread |-> CHOOSE n \in Name : TRUE]
  /\ ret = [t \in Thread |-> 0] /\ ops = 0
  /\ seen = [t \in Thread |-> {}] /\ how = [t \in Thread |-> "none"]
  /\ l = 2 /\ pend = {} /\ win = [t \in Thread |-> {}]
  /\ TLCSet(1, 2)

TStart == Is("start") /\ Start(Ev.t, Ev.n) /\ Adv /\ UNCHANGED <<pend, win>>
TFast ==
  /\ Is("fast") /\ pc[Ev.t] = "fast"
  /\ LET c == cache[arg[Ev.t]] IN
       /\ (Ev.cached = 1) = (c.ver > 0)
       /\ (Ev.cached = 1) => ((Ev.fresh = 1) = ~Expired(c.exp))
  /\ Fast(Ev.t) /\ Adv /\ UNCHANGED <<pend, win>>
TSlowBegin ==
  /\ Is("slow_begin") /\ pc[Ev.t] = "slow" /\ CanWrite(zlW, zlR)
  /\ win' = [win EXCEPT ![Ev.t] = {file}]
  /\ Adv /\ UNCHANGED <<vars, pend>>
TSlow ==
  /\ Is("slow") /\ win[Ev.t] # {}
  /\ \E f \in win[Ev.t] : SlowWith(Ev.t, f)
  /\ how'[Ev.t] = Ev.kind
  /\ win' = [win EXCEPT ![Ev.t] = {}]
  /\ Adv /\ UNCHANGED pend
TRet ==
  /\ Is("ret") /\ pc[Ev.t] = "done" /\ ret[Ev.t] = Ev.ver
  /\ Finish(Ev.t) /\ Adv /\ UNCHANGED <<pend, win>>
\* reset: the listing is cleared under the names lock with the zones lock held
\* (ResetStart and ResetNames in one event), then the zones
TNamesReset ==
  /\ Is("names_reset") /\ pc[Ev.t] = "idle" /\ CanWrite(zlW, zlR) /\ nlW = None
  /\ zlW' = Ev.t /\ pc' = [pc EXCEPT ![Ev.t] = "reset_zones"] /\ ops' = ops + 1
  /\ names' = {} /\ namesExp' = -1
  /\ UNCHANGED <<file, cache, clock, nextVer, zlR, nlW, arg, ret, seen, how>>
  /\ Adv /\ UNCHANGED <<pend, win>>
TReset == Is("reset") /\ ResetZones(Ev.t) /\ Adv /\ UNCHANGED <<pend, win>>
\* available(): begin / outcome events of its one critical section (the outcome lists the names returned)
TAvailBegin ==
  /\ Is("names_avail_begin") /\ pc[Ev.t] = "idle" /\ win[Ev.t] = {} /\ nlW = None
  /\ win' = [win EXCEPT ![Ev.t] = {file}]
  /\ Adv /\ UNCHANGED <<vars, pend>>
TAvail ==
  /\ Is("names_avail") /\ win[Ev.t] # {} /\ pc[Ev.t] = "idle" /\ (Ev.refreshed = 1) = Expired(namesExp)
  /\ \E f \in win[Ev.t] : AvailWith(Ev.t, f)
  /\ names' = {n \in Name : Ev.names[n] = 1}
  /\ win' = [win EXCEPT ![Ev.t] = {}]
  /\ Adv /\ UNCHANGED pend

TEnvStart == /\ Is("env_start") /\ pend' = pend \cup {<<Ev.kind, Ev.mt, Ev.z>>} /\ Adv /\ UNCHANGED <<vars, win>>
TEnvEnd == /\ Is("env_end") /\ <<Ev.kind, Ev.mt, Ev.z>> \notin pend /\ Adv /\ UNCHANGED <<vars, pend, win>>
\* silent: a pending rewrite / removal takes effect
Apply(p) ==
  /\ p \in pend /\ pend' = pend \ {p}
  /\ LET f == IF p[1] = "removefile" THEN NoFile ELSE FileOf(p[2], p[3]) IN
     /\ file' = f
     /\ win' = [t \in Thread |-> IF win[t] # {} THEN win[t] \cup {f} ELSE win[t]]
     /\ seen' = Note(f)
  /\ nextVer' = IF p[2] >= nextVer THEN p[2] + 1 ELSE nextVer
  /\ UNCHANGED <<cache, clock, zlW, zlR, nlW, names, namesExp, pc, arg, ret, ops, how, l>>
TTick == /\ Is("tick") /\ clock' = clock + 1 /\ Adv
         /\ UNCHANGED <<file, cache, nextVer, zlW, zlR, nlW, names, namesExp, pc, arg, ret, ops, seen, how, pend, win>>

TNext == TStart \/ TFast \/ TSlowBegin \/ TSlow \/ TRet \/ TNamesReset \/ TReset \/ TAvailBegin \/ TAvail
         \/ TEnvStart \/ TEnvEnd \/ TTick \/ (\E p \in pend : Apply(p))
TSpec == TInit /\ [][TNext]_tvars

TInv == CacheCoherent /\ ReturnOk /\ FreshAfterExpiry
NotAccepted == l <= Len(Rec)
Progressed == (IF l > TLCGet(1) THEN TLCSet(1, l) ELSE TRUE)
Report == PrintT(<<"FURTHEST", TLCGet(1), Len(Rec)>>)
=======================================================================
