SPECIFICATION FairSpec
CONSTANTS
  Thread = {t1, t2}
  Name = {a}
  MaxVer = 2
  MaxClock = 1
  TTL = 1
  MaxOps = 3
PROPERTY Progress
CHECK_DEADLOCK FALSE
