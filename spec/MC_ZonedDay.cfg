SPECIFICATION Spec
CONSTANTS
  NMarks = 3
INVARIANTS DayOk
CHECK_DEADLOCK FALSE
