---------------------------- MODULE Instant ----------------------------
(* Instants, civil datetimes and exact durations as lexicographically     *)
(* ordered triples <<day, sod, ns>> (epoch day / second of day / nanos),  *)
(* so that nothing ever exceeds TLC's 32-bit integers.  The public API's  *)
(* (second, nanosecond) pairs with equal signs are converted with BigInt. *)
EXTENDS Calendar, BigInt

NsPerSec == 1000000000
SecPerDay == 86400

OffMin == -93599      \* -25:59:59
OffMax == 93599

\* ---- triples --------------------------------------------------------
TLt(a, b) == \/ a[1] < b[1]
             \/ (a[1] = b[1] /\ a[2] < b[2])
             \/ (a[1] = b[1] /\ a[2] = b[2] /\ a[3] < b[3])
TLe(a, b) == a = b \/ TLt(a, b)

\* normalise after adding to sod / ns
NormT(day, sod, ns) ==
  LET s2 == sod + (ns \div NsPerSec)
  IN  <<day + (s2 \div SecPerDay), s2 % SecPerDay, ns % NsPerSec>>

AddSec(t, s) == NormT(t[1], t[2] + s, t[3])      \* |s| < 2^31 - 86400
AddNs(t, n) == NormT(t[1], t[2], t[3] + n)        \* |n| < 10^9
AddDays(t, d) == <<t[1] + d, t[2], t[3]>>

\* exact difference b - a as a floor-normalised duration triple
TDiff(a, b) == NormT(b[1] - a[1], b[2] - a[2], b[3] - a[3])
\* duration triples: <<days, sod, ns>> floor-normalised; negative durations
\* have days < 0.  TAddDur adds one to an instant.
TAddDur(t, d) == NormT(t[1] + d[1], t[2] + d[2], t[3] + d[3])
DurNeg(d) == NormT(0 - d[1], 0 - d[2], 0 - d[3])
DurZero == <<0, 0, 0>>
DurSign(d) == IF d = DurZero THEN 0 ELSE IF d[1] < 0 THEN -1 ELSE 1

\* ---- documented ranges -------------------------------------------------
\* civil::DateTime::MIN = -9999-01-01T00:00:00, MAX = 9999-12-31T23:59:59.999999999
CivMin == <<EpochDayMin, 0, 0>>
CivMax == <<EpochDayMax, 86399, 999999999>>
InCivRange(c) == TLe(CivMin, c) /\ TLe(c, CivMax)
\* Timestamp::MIN = DateTime::MIN + 25:59:59 (as UTC), nanosecond 0;
\* Timestamp::MAX = DateTime::MAX - 25:59:59
TsMin == <<EpochDayMin + 1, 7199, 0>>
TsMax == <<EpochDayMax - 1, 79200, 999999999>>
InTsRange(t) == TLe(TsMin, t) /\ TLe(t, TsMax)

BSecOf(t) == BAdd(BMulSmall(BOf(t[1]), SecPerDay), BOf(t[2]))   \* floor seconds
BSecMin == BSecOf(TsMin)     \* -377705023201
BSecMax == BSecOf(TsMax)     \*  253402207200

\* ---- API pair <-> triple ----------------------------------------------
\* jiff reports (second, nanosecond) with equal signs: value = s*10^9 + n
ApiSignsOk(sec, ns) == /\ ns > -NsPerSec /\ ns < NsPerSec
                       /\ ~(sec.s > 0 /\ ns < 0) /\ ~(sec.s < 0 /\ ns > 0)
\* floor seconds + non-negative nanos from any (sec, ns) with |ns| < 10^9
FloorSec(sec, ns) == IF ns < 0 THEN BSub(sec, BOf(1)) ELSE sec
FloorNs(ns) == IF ns < 0 THEN ns + NsPerSec ELSE ns
\* only for |floor seconds| small enough that the day fits (checked by caller)
SecFits(bs) == Len(bs.m) <= 3
InstOfFloor(bs, n) == LET dq == BDivFloor(bs, SecPerDay) IN <<BToInt(dq[1]), dq[2], n>>
InstOfApi(sec, ns) == InstOfFloor(FloorSec(sec, ns), FloorNs(ns))
\* back: truncate toward zero
ApiOfInst(t) ==
  LET fs == BSecOf(t) IN
  IF fs.s < 0 /\ t[3] > 0 THEN <<BAdd(fs, BOf(1)), t[3] - NsPerSec>> ELSE <<fs, t[3]>>

\* total nanoseconds as a BigInt
BNanosOfApi(sec, ns) == BAdd(BMulE9(sec), BOf(ns))

\* ---- instant <-> civil under a fixed offset ---------------------------------
CivilOfInst(t, off) == AddSec(t, off)
InstOfCivil(c, off) == AddSec(c, 0 - off)
\* civil triple <-> fields <<y, m, d, h, mi, s, ns>>
FieldsOf(c) == LET dt == DateOfEpochDay(c[1]) IN
  <<dt[1], dt[2], dt[3], c[2] \div 3600, (c[2] % 3600) \div 60, c[2] % 60, c[3]>>
CivOfFields(f) == <<EpochDayOf(f[1], f[2], f[3]), f[4] * 3600 + f[5] * 60 + f[6], f[7]>>
ValidFields(f) == /\ ValidDate(f[1], f[2], f[3])
                  /\ f[4] \in 0..23 /\ f[5] \in 0..59 /\ f[6] \in 0..59
                  /\ f[7] \in 0..999999999
=======================================================================
